import NunavutVerif.Model.Dsdl
/-
C04 — deserialization *into an existing object*: which parts of the destination the generated C and C++
routines write, which they leave alone, and what of the destination is part of the decoded value.

The wire side (what is read, offsets, the three representation errors) is the specification `Dsdl.deBits`; this
file adds the destination object with its *prior contents*:

* C (`lang/c/templates/deserialization.j2`): primitives are assigned; a fixed array is decoded element by element in
  place; a variable-length array is `struct { T elements[cap]; size_t count; }` — `count` is assigned, then elements
  `0 … count-1` are decoded in place, elements `count … cap-1` keep whatever they held; a union is `_tag_` plus
  overlapping member storage — the tag is assigned, then the selected member is decoded in place, the other members'
  bytes are whatever they were.  Elements beyond `count` and inactive members are not part of the value (`abs`).
* C++ (`lang/cpp/templates/deserialization.j2`): fixed arrays (`std::array`) and structure members are decoded in
  place; a union does `set_x()` = `emplace<I>()`, i.e. a fresh value-initialised alternative, then decodes into it;
  a variable-length array is a container: `_deserialize_variable_length_array` emits `reserve(n)` and one
  `push_back` per element, each element decoded into a fresh temporary.  `clearFirst = true` is the repaired
  template (the container is emptied first); `clearFirst = false` is the code before the repair, which appends to
  whatever the container held (`deIntoBeforeFix`).

One decoder covers both targets: the constructor of the destination object selects the behaviour.
Core Lean only.
-/
namespace NunavutVerif.CppObj
open NunavutVerif.Dsdl

/-- A destination object, including the storage that is not part of its abstract value. -/
inductive Obj where
  /-- a primitive (or void) field holding any value — before the call: junk -/
  | leaf (v : Val)
  /-- C `T x[n]`, C++ `std::array<T, n>` -/
  | arr (elems : List Obj)
  /-- C `struct { T elements[cap]; size_t count; }` — all `cap` element slots and any `count` -/
  | varr (elems : List Obj) (count : Nat)
  /-- C++ container (`std::vector<T>` by default): exactly the elements it holds -/
  | vec (elems : List Obj)
  | struct (fs : List Obj)
  /-- C union: `_tag_` and the storage of every member (overlapping in reality: the inactive ones are junk) -/
  | cunion (tag : Nat) (ms : List Obj)
  /-- C++ `VariantType`: exactly the active alternative exists (Properties/C04, variant theorems) -/
  | variant (tag : Nat) (v : Obj)
  deriving Repr, Inhabited

inductive Err where
  /-- one of the three documented representation errors -/
  | de (e : DeErr)
  /-- the destination does not have the layout of the type (excluded by `shape`; never produced for shaped objects) -/
  | shape
  deriving Repr, DecidableEq, Inhabited

def liftSpec (r : Except DeErr (Val × Nat)) : Except Err (Obj × Nat) :=
  match r with
  | .error e => .error (.de e)
  | .ok (v, n) => .ok (.leaf v, n)

/-- `k` consecutive elements decoded in place into the first `k` slots; the other slots keep their contents -/
def intoElems (g : List Bool → Obj → Except Err (Obj × Nat)) : Nat → List Bool → List Obj → Except Err (List Obj × Nat)
  | 0, _, elems => .ok (elems, 0)
  | _ + 1, _, [] => .error .shape
  | k + 1, bs, e :: rest =>
    match g bs e with
    | .error x => .error x
    | .ok (e', n) =>
      match intoElems g k (bs.drop n) rest with
      | .error x => .error x
      | .ok (rest', m) => .ok (e' :: rest', n + m)

/-- `k` elements, each decoded into a fresh temporary `d` and pushed back -/
def pushElems (g : List Bool → Obj → Except Err (Obj × Nat)) (d : Obj) : Nat → List Bool → Except Err (List Obj × Nat)
  | 0, _ => .ok ([], 0)
  | k + 1, bs =>
    match g bs d with
    | .error x => .error x
    | .ok (e', n) =>
      match pushElems g d k (bs.drop n) with
      | .error x => .error x
      | .ok (rest', m) => .ok (e' :: rest', n + m)

/-! ### value-initialised C++ objects (`T()`, `emplace<I>()`) -/

def zeroVal : Ty → Val
  | .uint _ _ => .int 0
  | .sint _ _ => .int 0
  | .float _ _ => .float 0
  | .bool => .bool false
  | _ => .void

mutual
def defaultX : Ty → Obj
  | .arr t n => .arr (List.replicate n (defaultX t))
  | .varr _ _ => .vec []
  | .struct fs => .struct (defaultXs fs)
  | .union fs => .variant 0 (defaultHead fs)
  | .delim _ inner => defaultX inner
  | .uint n m => .leaf (zeroVal (.uint n m))
  | .sint n m => .leaf (zeroVal (.sint n m))
  | .float n m => .leaf (zeroVal (.float n m))
  | .bool => .leaf (zeroVal .bool)
  | .void n => .leaf (zeroVal (.void n))
def defaultXs : List Ty → List Obj
  | [] => []
  | f :: fs => defaultX f :: defaultXs fs
def defaultHead : List Ty → Obj
  | [] => .leaf .void
  | f :: _ => defaultX f
end

/-! ### the decoder -/

mutual
def deIntoG (clearFirst : Bool) : Ty → List Bool → Obj → Except Err (Obj × Nat)
  | .arr t n, bs, o =>
    match o with
    | .arr elems =>
      match intoElems (deIntoG clearFirst t) n bs elems with
      | .error x => .error x
      | .ok (es, used) => .ok (.arr es, used)
    | _ => .error .shape
  | .varr t cap, bs, o =>
    let p := prefixBits cap
    let k := readNat p bs
    match o with
    | .varr elems _ =>
      -- C: `count` is stored, checked, then `count` elements are decoded in place
      if k > cap then .error (.de .badArrayLength)
      else
        match intoElems (deIntoG clearFirst t) k (bs.drop p) elems with
        | .error x => .error x
        | .ok (es, used) => .ok (.varr es k, p + used)
    | .vec old =>
      -- C++: size check, `reserve`, then one `push_back` of a freshly decoded temporary per element
      if k > cap then .error (.de .badArrayLength)
      else
        match pushElems (deIntoG clearFirst t) (defaultX t) k (bs.drop p) with
        | .error x => .error x
        | .ok (es, used) => .ok (.vec (if clearFirst then es else old ++ es), p + used)
    | _ => .error .shape
  | .struct fs, bs, o =>
    match o with
    | .struct os =>
      match deIntoFields clearFirst fs bs 0 os with
      | .error x => .error x
      | .ok (os', off) => .ok (.struct os', padTo 8 off)
    | _ => .error .shape
  | .union fs, bs, o =>
    let p := tagBits fs.length
    let k := readNat p bs
    match o with
    | .cunion _ ms =>
      -- C: `_tag_` is stored, then the if-chain selects the member (else: bad union tag)
      if k ≥ fs.length then .error (.de .badUnionTag)
      else
        match deIntoNthC clearFirst fs k (bs.drop p) ms with
        | .error x => .error x
        | .ok (ms', used) => .ok (.cunion k ms', padTo 8 (p + used))
    | .variant _ _ =>
      -- C++: the if-chain over `IndexOf::x == index` does `set_x()` (a fresh alternative) and decodes into it
      if k ≥ fs.length then .error (.de .badUnionTag)
      else
        match deIntoNthX clearFirst fs k (bs.drop p) with
        | .error x => .error x
        | .ok (a, used) => .ok (.variant k a, padTo 8 (p + used))
    | _ => .error .shape
  | .delim _ inner, bs, o =>
    let h := readNat headerBits bs
    let rest := bs.drop headerBits
    if 8 * h > rest.length then .error (.de .badDelimiterHeader)
    else
      match deIntoG clearFirst inner (rest.take (8 * h)) o with
      | .error x => .error x
      | .ok (o', _) => .ok (o', headerBits + 8 * h)
  | .uint n m, bs, o => match o with | .leaf _ => liftSpec (deBits (.uint n m) bs) | _ => .error .shape
  | .sint n m, bs, o => match o with | .leaf _ => liftSpec (deBits (.sint n m) bs) | _ => .error .shape
  | .float n m, bs, o => match o with | .leaf _ => liftSpec (deBits (.float n m) bs) | _ => .error .shape
  | .bool, bs, o => match o with | .leaf _ => liftSpec (deBits .bool bs) | _ => .error .shape
  | .void n, bs, o => match o with | .leaf _ => liftSpec (deBits (.void n) bs) | _ => .error .shape
def deIntoFields (clearFirst : Bool) : List Ty → List Bool → Nat → List Obj → Except Err (List Obj × Nat)
  | [], _, off, [] => .ok ([], off)
  | f :: fs, bs, off, o :: os =>
    let a := padTo (align f) off
    match deIntoG clearFirst f (bs.drop a) o with
    | .error x => .error x
    | .ok (o', n) =>
      match deIntoFields clearFirst fs bs (a + n) os with
      | .error x => .error x
      | .ok (os', e) => .ok (o' :: os', e)
  | _, _, _, _ => .error .shape
def deIntoNthC (clearFirst : Bool) : List Ty → Nat → List Bool → List Obj → Except Err (List Obj × Nat)
  | [], _, _, _ => .error (.de .badUnionTag)
  | f :: _, 0, bs, ms =>
    match ms with
    | m :: rest =>
      match deIntoG clearFirst f bs m with
      | .error x => .error x
      | .ok (m', n) => .ok (m' :: rest, n)
    | [] => .error .shape
  | _ :: fs, k + 1, bs, ms =>
    match ms with
    | m :: rest =>
      match deIntoNthC clearFirst fs k bs rest with
      | .error x => .error x
      | .ok (rest', n) => .ok (m :: rest', n)
    | [] => .error .shape
def deIntoNthX (clearFirst : Bool) : List Ty → Nat → List Bool → Except Err (Obj × Nat)
  | [], _, _ => .error (.de .badUnionTag)
  | f :: _, 0, bs => deIntoG clearFirst f bs (defaultX f)
  | _ :: fs, k + 1, bs => deIntoNthX clearFirst fs k bs
end

/-- the repaired code -/
def deInto : Ty → List Bool → Obj → Except Err (Obj × Nat) := deIntoG true
/-- `_deserialize_variable_length_array` before the repair: `reserve` + `push_back` onto whatever was there -/
def deIntoBeforeFix : Ty → List Bool → Obj → Except Err (Obj × Nat) := deIntoG false

/-- top level: consumed bits as reported (`min(offset, supplied)`) -/
def deIntoTop (clearFirst : Bool) (t : Ty) (bs : List Bool) (o : Obj) : Except Err (Obj × Nat) :=
  match deIntoG clearFirst (topInner t) bs o with
  | .error x => .error x
  | .ok (o', n) => .ok (o', min n bs.length)

/-! ### the abstract value of an object, and its layout -/

def absAll (a : Obj → Option Val) : List Obj → Option (List Val)
  | [] => some []
  | o :: os =>
    match a o, absAll a os with
    | some v, some vs => some (v :: vs)
    | _, _ => none

mutual
def abs : Ty → Obj → Option Val
  | .arr t n, o =>
    match o with
    | .arr es => if es.length = n then (absAll (abs t) es).map .arr else none
    | _ => none
  | .varr t _, o =>
    match o with
    | .varr es count => if count ≤ es.length then (absAll (abs t) (es.take count)).map .arr else none
    | .vec es => (absAll (abs t) es).map .arr
    | _ => none
  | .struct fs, o =>
    match o with
    | .struct os => (absFields fs os).map .struct
    | _ => none
  | .union fs, o =>
    match o with
    | .cunion k ms => (absNthC fs k ms).map (.union k)
    | .variant k a => (absNthX fs k a).map (.union k)
    | _ => none
  | .delim _ inner, o => abs inner o
  | .uint _ _, o => match o with | .leaf v => some v | _ => none
  | .sint _ _, o => match o with | .leaf v => some v | _ => none
  | .float _ _, o => match o with | .leaf v => some v | _ => none
  | .bool, o => match o with | .leaf v => some v | _ => none
  | .void _, o => match o with | .leaf v => some v | _ => none
def absFields : List Ty → List Obj → Option (List Val)
  | [], [] => some []
  | f :: fs, o :: os =>
    match abs f o, absFields fs os with
    | some v, some vs => some (v :: vs)
    | _, _ => none
  | _, _ => none
def absNthC : List Ty → Nat → List Obj → Option Val
  | f :: _, 0, ms => match ms with | m :: _ => abs f m | [] => none
  | _ :: fs, k + 1, ms => match ms with | _ :: rest => absNthC fs k rest | [] => none
  | [], _, _ => none
def absNthX : List Ty → Nat → Obj → Option Val
  | f :: _, 0, a => abs f a
  | _ :: fs, k + 1, a => absNthX fs k a
  | [], _, _ => none
end

mutual
/-- the object has the layout of the type; the *contents* (values, counts, tags of C unions, container sizes) are
    arbitrary -/
def shape : Ty → Obj → Bool
  | .arr t n, o =>
    match o with
    | .arr es => decide (es.length = n) && es.all (shape t)
    | _ => false
  | .varr t cap, o =>
    match o with
    | .varr es _ => decide (es.length = cap) && es.all (shape t)
    | .vec es => es.all (shape t)
    | _ => false
  | .struct fs, o =>
    match o with
    | .struct os => shapeFields fs os
    | _ => false
  | .union fs, o =>
    match o with
    | .cunion _ ms => shapeFields fs ms
    | .variant k a => shapeNth fs k a
    | _ => false
  | .delim _ inner, o => shape inner o
  | .uint _ _, o => match o with | .leaf _ => true | _ => false
  | .sint _ _, o => match o with | .leaf _ => true | _ => false
  | .float _ _, o => match o with | .leaf _ => true | _ => false
  | .bool, o => match o with | .leaf _ => true | _ => false
  | .void _, o => match o with | .leaf _ => true | _ => false
def shapeFields : List Ty → List Obj → Bool
  | [], [] => true
  | f :: fs, o :: os => shape f o && shapeFields fs os
  | _, _ => false
def shapeNth : List Ty → Nat → Obj → Bool
  | f :: _, 0, a => shape f a
  | _ :: fs, k + 1, a => shapeNth fs k a
  | [], _, _ => false
end

mutual
/-- every union in the type has at least one option (PyDSDL: at least two) — needed for `emplace<0>()` to exist -/
def okTy : Ty → Bool
  | .arr t _ => okTy t
  | .varr t _ => okTy t
  | .struct fs => okAll fs
  | .union fs => !fs.isEmpty && okAll fs
  | .delim _ inner => okTy inner
  | _ => true
def okAll : List Ty → Bool
  | [] => true
  | f :: fs => okTy f && okAll fs
end

/-- sizes of all containers / counts of all C arrays of an object in traversal order (for examples and the driver) -/
def sizesFuel : Nat → Obj → List Nat
  | 0, _ => []
  | fuel + 1, o =>
    match o with
    | .leaf _ => []
    | .arr es => (es.map (sizesFuel fuel)).flatten
    | .varr es c => c :: ((es.take c).map (sizesFuel fuel)).flatten
    | .vec es => es.length :: (es.map (sizesFuel fuel)).flatten
    | .struct os => (os.map (sizesFuel fuel)).flatten
    | .cunion _ ms => (ms.map (sizesFuel fuel)).flatten
    | .variant _ a => sizesFuel fuel a

def sizes (o : Obj) : List Nat := sizesFuel 64 o

end NunavutVerif.CppObj
