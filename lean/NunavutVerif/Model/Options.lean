import NunavutVerif.Model.Crc32
/-!
# Language-option guards of the generated C / C++ headers (model of the code as it is)

Real code:

* `src/nunavut/lang/c/__init__.py :: filter_to_static_assertion_value`
  (`bool → 0/1`, `int → itself`, `str → zlib.crc32(utf-8)`, anything else → `ValueError`)            ↦ `enc`
* support header, C:   `lang/c/support/serialization.j2`
  `{% for key, value in options.items() %}#define NUNAVUT_SUPPORT_LANGUAGE_OPTION_<KEY> <enc value>`   ↦ `defines`
  support header, C++: `lang/cpp/support/serialization.j2`
  `namespace options { constexpr std::uint32_t <key|id> = <enc value>; … }`                           ↦ `defines` + `stored .cpp`
* type header, C:   `lang/c/templates/base.j2`
  `{% for key, value in options.items() %}static_assert( NUNAVUT_…_<KEY> == <enc value>, "…" );`      ↦ `asserts`
  (`… if not nunavut.support.omit`: not emitted under `--omit-serialization-support`; they were before 22e33a6, DESIGN F10)
  type header, C++: `lang/cpp/templates/base.j2`
  `{% if not nunavut.support.omit %}{% for … %}static_assert( nunavut::support::options::<key|id> == <enc value>, … )`
* the compiler evaluating each `static_assert` against the definitions it has seen                    ↦ `checkOne`, `diagnostics`

An option set is the ordered `dict` the templates iterate over: an association list whose keys are unique.
The name under which a key appears in the generated text (`macrofy` in C, `id` in C++) is the same expression on
both sides; it is a parameter `name` of the model and its table for the documented keys is regenerated from the
real filters (`Gen/OptionDomain.lean`).
-/
namespace NunavutVerif.Options
open NunavutVerif.Crc32

/-- A language-option value as the filter distinguishes them (`isinstance` order: bool, int, str, else). -/
inductive OptVal where
  | bool (b : Bool)
  | int (i : Int)
  | str (s : String)
  | other                 -- float, None, list, dict, …: `filter_to_static_assertion_value` raises `ValueError`
  deriving DecidableEq, Repr

inductive Lang where
  | c | cpp
  deriving DecidableEq, Repr

/-- `filter_to_static_assertion_value`; `none` = `ValueError` (generation of the header fails). -/
def enc : OptVal → Option Int
  | .bool b => some (if b then 1 else 0)
  | .int i  => some i
  | .str s  => some (Int.ofNat (crc32Str s))
  | .other  => none

/-- The ordered option dictionary (`options.items()`); keys are unique in a Python dict (`WF`). -/
abbrev OptSet := List (String × OptVal)

def keys (o : OptSet) : List String := o.map Prod.fst

/-- One `(rendered name, rendered number)` per option, in dict order; `none` if the filter raised. -/
def render (name : String → String) : OptSet → Option (List (String × Int))
  | [] => some []
  | (k, v) :: r =>
    match enc v, render name r with
    | some n, some rest => some ((name k, n) :: rest)
    | _, _ => none

/-- The `#define`s / `constexpr`s of the support header generated with option set `o`. -/
def defines (name : String → String) (o : OptSet) : Option (List (String × Int)) := render name o

/-- The option `static_assert`s of a type header generated with option set `o`
(`pod` = `--omit-serialization-support`: no support header exists then and neither language emits the assertions —
C since repo commit 22e33a6 (`for … in options.items() if not nunavut.support.omit`), C++ always
(`{% if not nunavut.support.omit %}` around the loop)). -/
def asserts (_lang : Lang) (pod : Bool) (name : String → String) (o : OptSet) : Option (List (String × Int)) :=
  match pod with
  | true => some []
  | false => render name o

/-- What the definition holds after the compiler has read it: C keeps the numeral (a macro); C++ converts to
`std::uint32_t`. -/
def stored : Lang → Int → Int
  | .c, d => d
  | .cpp, d => d % 4294967296

/-- `stored == literal` as the compiler evaluates it (LP64; |numbers| < 2^63).  C: two decimal numerals of
type `int`/`long`.  C++: `std::uint32_t` against a numeral that is `int` when its literal fits (then converted to
`unsigned`, i.e. reduced modulo 2^32) and `long` otherwise (`-2147483648` is unary minus on the `long` literal
`2147483648`).  Closed form of `Model/OptionExpr.lean :: evalAssert` (theorem `C17_cmp_is_the_emitted_expression`). -/
def cmp (lang : Lang) (d v : Int) : Bool :=
  match lang with
  | .c => stored .c d == v
  | .cpp =>
    if -2147483648 < v ∧ v < 2147483648 then stored .cpp d == v % 4294967296 else stored .cpp d == v

/-- A compiler diagnostic produced by the guard block. -/
inductive Diag where
  | mismatch (name : String)    -- "static assertion failed" on the line naming `name`
  | undefined (name : String)   -- "`name` undeclared" / "is not a member of 'nunavut::support::options'"
  deriving DecidableEq, Repr

/-- One `static_assert( name == v )` against the definitions `defs`. -/
def checkOne (lang : Lang) (defs : List (String × Int)) (a : String × Int) : Option Diag :=
  match defs.lookup a.1 with
  | none => some (.undefined a.1)
  | some d => if cmp lang d a.2 then none else some (.mismatch a.1)

/-- All guard diagnostics of a translation unit, in the order of the type header's assertions. -/
def diagnostics (lang : Lang) (defs asrt : List (String × Int)) : List Diag :=
  asrt.filterMap (checkOne lang defs)

/-- The guard relation: the translation unit passes every option assertion. -/
def accepted (lang : Lang) (defs asrt : List (String × Int)) : Bool :=
  (diagnostics lang defs asrt).isEmpty

/-- Support header generated with `o₁`, type header with `o₂`, compiled together.
`none`: one of the two generations raised. -/
def together (lang : Lang) (pod : Bool) (name : String → String) (o₁ o₂ : OptSet) : Option (List Diag) :=
  match defines name o₁, asserts lang pod name o₂ with
  | some d, some a => some (diagnostics lang d a)
  | _, _ => none

/-- A translation unit that sees several generated type headers: the support header generated with `o₁` and the
type headers in the order in which their guard blocks are reached (a header that includes another generated header
reaches the included header's block first), each generated with its *own* option set.  Every type header carries its
own block of assertions (nothing is shared between headers), so the result is one diagnostic list per header. -/
def togetherTU (lang : Lang) (pod : Bool) (name : String → String) (o₁ : OptSet) :
    List OptSet → Option (List (List Diag))
  | [] => some []
  | o :: r =>
    match together lang pod name o₁ o, togetherTU lang pod name o₁ r with
    | some d, some ds => some (d :: ds)
    | _, _ => none

/-- The translation unit passes the guards of all its type headers. -/
def acceptedTU (lang : Lang) (pod : Bool) (name : String → String) (o₁ : OptSet) (hs : List OptSet) : Bool :=
  match togetherTU lang pod name o₁ hs with
  | some dss => dss.all List.isEmpty
  | none => false

/-! ## Documented domain -/

/-- One documented option: key, the name it is rendered under, its documented values, whether it has a
built-in default (i.e. is present in every option set) or exists only when a CLI switch is given, and whether the
real templates define / assert it (observed by rendering them). -/
structure DocOpt where
  key : String
  name : String
  values : List OptVal
  always : Bool
  defined : Bool
  asserted : Bool
  deriving Repr

/-- The rendering function induced by a generated table (identity outside the table). -/
def nameOf (dom : List DocOpt) (k : String) : String :=
  match dom.find? (fun e => e.key == k) with
  | some e => e.name
  | none => k

/-- `o` is a documented option set for `dom`: it has exactly the keys of `dom` in order (keys without a built-in
default may be absent) and every value is a documented one. -/
def Documented : List DocOpt → OptSet → Prop
  | [], [] => True
  | [], _ :: _ => False
  | e :: dom, [] => e.always = false ∧ Documented dom []
  | e :: dom, (k, v) :: o =>
    (k = e.key ∧ v ∈ e.values ∧ Documented dom o) ∨ (e.always = false ∧ Documented dom ((k, v) :: o))

instance decDocumented : (dom : List DocOpt) → (o : OptSet) → Decidable (Documented dom o)
  | [], [] => isTrue trivial
  | [], _ :: _ => isFalse (by simp [Documented])
  | e :: dom, [] =>
    have := decDocumented dom []
    (inferInstance : Decidable (e.always = false ∧ Documented dom []))
  | e :: dom, (k, v) :: o =>
    have := decDocumented dom o
    have := decDocumented dom ((k, v) :: o)
    (inferInstance : Decidable ((k = e.key ∧ v ∈ e.values ∧ Documented dom o) ∨
      (e.always = false ∧ Documented dom ((k, v) :: o))))

/-- Key-level statement of what the guard reports (the specification side of the guard theorems): for every
option of the type header's set `o₂`, in order: nothing when the support header's set `o₁` has the same value,
a mismatch when it has a different one, an undefined name when it lacks the key. -/
def expected (name : String → String) (o₁ o₂ : OptSet) : List Diag :=
  o₂.filterMap fun kv =>
    match o₁.lookup kv.1 with
    | some v₁ => if v₁ = kv.2 then none else some (.mismatch (name kv.1))
    | none => some (.undefined (name kv.1))

/-- A value the guard compares faithfully in both languages: it encodes, and to a number a `std::uint32_t` holds. -/
def encFits (v : OptVal) : Bool :=
  match enc v with
  | some n => decide (0 ≤ n) && decide (n < 4294967296)
  | none => false

end NunavutVerif.Options
