/-!
# A small regular-expression engine with Python `re` semantics (C09)

Strings are lists of Unicode scalar values (`Nat`), so that class membership is linear arithmetic and the
kernel can evaluate everything.  The AST covers what occurs in `properties.yaml` (and a little more):
literals / classes (a union of inclusive ranges, possibly negated; `\s`, `\d`, `.` are expanded into ranges by
the translator from the running interpreter's tables), `^`, `$`, `\Z`, sequence, alternation, greedy bounded /
unbounded repetition.  Groups carry no meaning without back-references and are dropped by the translator.

`matchR n re s` is a *list of successes*: all ways `re` can match a prefix of `s`, as the remaining
suffixes, in the priority order of a leftmost-first backtracking matcher (Python's `sre`): the head of the
list is what `Pattern.match` reports.  `n` is the length of the whole subject string (needed by `^`).
-/
namespace NunavutVerif.Regex

abbrev Str := List Nat

def inRanges : List (Nat × Nat) → Nat → Bool
  | [], _ => false
  | (lo, hi) :: rs, c => (decide (lo ≤ c) && decide (c ≤ hi)) || inRanges rs c

/-- A character class: union of inclusive code-point ranges, complemented when `neg`. -/
structure Cls where
  neg : Bool
  ranges : List (Nat × Nat)
deriving DecidableEq, Repr

def Cls.mem (k : Cls) (c : Nat) : Bool := k.neg != inRanges k.ranges c

inductive Re where
  | eps
  | chr (k : Cls)
  | bol                 -- `^`, `\A` (no MULTILINE)
  | eol                 -- `$`: at the end or before a final `\n`
  | eos                 -- `\Z`
  | seq (a b : Re)
  | alt (a b : Re)
  | rep (min : Nat) (more : Option Nat) (r : Re)   -- `{min, min+more}` greedy; `more = none`: unbounded
deriving DecidableEq, Repr

/--
Greedy repetition as `sre`'s MAX_UNTIL does it: `min` mandatory iterations, then as many further ones as
allowed, each tried before the tail; an optional iteration that consumed nothing ends the loop
(`state->ptr != last_ptr`).  `fuel = min + |s| + 1` is always enough (`Lemmas/Regex.lean`).
-/
def repAux (step : Str → List Str) : Nat → Nat → Option Nat → Str → List Str
  | 0, _, _, _ => []
  | fuel + 1, min + 1, more, s => (step s).flatMap (fun s' => repAux step fuel min more s')
  | fuel + 1, 0, more, s =>
    (if more = some 0 then []
     else (step s).flatMap (fun s' =>
       if s'.length < s.length then repAux step fuel 0 (more.map (· - 1)) s' else [s'])) ++ [s]

def matchR (n : Nat) : Re → Str → List Str
  | .eps, s => [s]
  | .chr k, s => match s with
    | [] => []
    | c :: t => if k.mem c then [t] else []
  | .bol, s => if s.length = n then [s] else []
  | .eol, s => if s = [] ∨ s = [10] then [s] else []
  | .eos, s => if s = [] then [s] else []
  | .seq a b, s => (matchR n a s).flatMap (fun s' => matchR n b s')
  | .alt a b, s => matchR n a s ++ matchR n b s
  | .rep min more r, s => repAux (fun s' => matchR n r s') (min + s.length + 1) min more s

/-- `Pattern.match(s)`: does the pattern match at the start of `s`? -/
def matchesStart (re : Re) (s : Str) : Bool := !(matchR s.length re s).isEmpty

/-- `Pattern.match(s).end()`. -/
def matchEnd (re : Re) (s : Str) : Option Nat := (matchR s.length re s).head?.map (fun r => s.length - r.length)

/--
`Pattern.sub(f, s)` (Python ≥ 3.7), position by position.  `skip` = number of characters still covered by
the previous match.  At a position: the best match; if it is empty it is replaced and a second, non-empty
match is looked for at the same position (`must_advance`).
-/
def subGo (n : Nat) (re : Re) (f : Str → Str) : Str → Nat → Str
  | [], skip =>
    if skip = 0 then (if (matchR n re []).isEmpty then [] else f []) else []
  | _ :: t, skip + 1 => subGo n re f t skip
  | c :: t, 0 =>
    let cur := c :: t
    let rs := matchR n re cur
    match rs with
    | [] => c :: subGo n re f t 0
    | r :: _ =>
      if r.length < cur.length then
        f (cur.take (cur.length - r.length)) ++ subGo n re f t (cur.length - r.length - 1)
      else
        f [] ++
        (match rs.find? (fun r2 => r2.length < cur.length) with
         | none => c :: subGo n re f t 0
         | some r2 => f (cur.take (cur.length - r2.length)) ++ subGo n re f t (cur.length - r2.length - 1))

def sub (re : Re) (f : Str → Str) (s : Str) : Str := subGo s.length re f s 0

/-- `Pattern.search(s)` as (start, end). -/
def searchGo (n : Nat) (re : Re) : Str → Nat → Option (Nat × Nat)
  | [], i => (matchR n re []).head?.map (fun _ => (i, i))
  | c :: t, i =>
    match (matchR n re (c :: t)).head? with
    | some r => some (i, i + ((c :: t).length - r.length))
    | none => searchGo n re t (i + 1)

def search (re : Re) (s : Str) : Option (Nat × Nat) := searchGo s.length re s 0

/-- `re` matches at no position of `s` (incl. the end): `Pattern.search` finds nothing. -/
def matchesNowhere (n : Nat) (re : Re) : Str → Bool
  | [] => (matchR n re []).isEmpty
  | c :: t => (matchR n re (c :: t)).isEmpty && matchesNowhere n re t

end NunavutVerif.Regex
