/-!
# Model of Nunavut's edits of the bundled Jinja2 (C19)

Sources modelled (read in /repo/src/nunavut/jinja):

* `jinja2/lexer.py`, `Lexer.__init__`, rule `'root'`, first entry — the regular expression (flags `re.M | re.S`)

      (.*?)(?: (?P<raw_begin>(?:\s*{%\-|[ \t]*{%\*|B)\s*raw\s*(?:\-%}\s*|%}))
             | (?P<variable_begin>\s*{{\-|[ \t]*{{\*|{{)
             | (?P<comment_begin>\s*{#\-|[ \t]*{#\*|C)
             | (?P<block_begin>\s*{%\-|[ \t]*{%\*|B) )

  with `B = {%`, `C = {#` (and `B = ^[ \t]*{%(?!\+)|{%\+?`, `C = ^[ \t]*{#|{#\+?` under `lstrip_blocks`).
  The alternatives `[ \t]*<start>\*` are Nunavut's edit; upstream has none of them.  Group order is the
  one `compile_rules` produces for the default delimiters (`sorted(..., reverse=True)` on
  `(len, name)`: variable, comment, block), raw first.  Nunavut's environment never changes the
  delimiters (`environment.py` passes none), so they are fixed here.
* `jinja2/parser.py`, `Parser.subparse.autoindent`: `prefix = token.value[:-3]` when the begin token ends in `*`.
* `jinja2/filters.py`, `do_lineprefix`: `'\n'.join(prefix + line if line else line for line in s.splitlines())`.
* `extensions.py`: `JinjaAssert._do_assert`, `UseQuery.parse` / `_use_query_common`.

The states entered after a begin token (`block_begin`, `variable_begin`, `comment_begin`, `raw_begin`) are
untouched by Nunavut and stay abstract: `scan` takes the number of characters they consume as a parameter.

Core Lean only.
-/
namespace NunavutVerif.Lexer

abbrev Str := List Char

/-! ## Character classes -/

/-- Python `re` `\s` on `str` patterns (`str.isspace`).  Tie: compared with `re` on every code point. -/
def isSpace (c : Char) : Bool :=
  let n := c.toNat
  (9 ≤ n && n ≤ 13) || (28 ≤ n && n ≤ 32) || n = 0x85 || n = 0xA0 || n = 0x1680 ||
  (0x2000 ≤ n && n ≤ 0x200A) || n = 0x2028 || n = 0x2029 || n = 0x202F || n = 0x205F || n = 0x3000

/-- `[ \t]` -/
def isBlank (c : Char) : Bool := c = ' ' || c = '\t'

/-- the empty class (an alternative that starts with its literal) -/
def noSkip (_ : Char) : Bool := false

/-- Length of the maximal prefix of `s` inside the class `p` (a greedy `p*`). -/
def spanLen (p : Char → Bool) : Str → Nat
  | [] => 0
  | c :: cs => if p c then spanLen p cs + 1 else 0

/-- `cls* lit` matched at the start of `s`: length of the match.  The literal always begins with `{`,
which is in none of the classes, so the greedy star never has to give anything back. -/
def skipLit (cls : Char → Bool) (lit : Str) (s : Str) : Option Nat :=
  let n := spanLen cls s
  if lit.isPrefixOf (s.drop n) then some (n + lit.length) else none

/-! ## The alternatives of the root rule -/

inductive Kind where
  | raw | variable | comment | block
  deriving DecidableEq, Repr

def Kind.start : Kind → Str
  | .variable => ['{', '{']
  | .comment => ['{', '#']
  | _ => ['{', '%']

/-- Which lexer: `star` = Nunavut's `[ \t]*<start>\*` alternative on block, variable and raw begin;
`commentStar` = the same alternative on comment begin (present before the fix, see `bundledBeforeFix`);
`lstrip` = `Environment.lstrip_blocks`. -/
structure Cfg where
  star : Bool
  commentStar : Bool
  lstrip : Bool
  deriving DecidableEq, Repr

/-- upstream Jinja2 of the same line: no Nunavut alternative -/
def stock (lstrip : Bool) : Cfg := ⟨false, false, lstrip⟩
/-- the bundled engine (with the proposed repair: no marker alternative for comments) -/
def bundled (lstrip : Bool) : Cfg := ⟨true, false, lstrip⟩
/-- the bundled engine as found: `{#*` is a marker too -/
def bundledBeforeFix (lstrip : Bool) : Cfg := ⟨true, true, lstrip⟩

def Cfg.starFor (cfg : Cfg) : Kind → Bool
  | .comment => cfg.commentStar
  | _ => cfg.star

/-- `\s*<start>\-` -/
def altMinus (st s : Str) : Option Nat := skipLit isSpace (st ++ ['-']) s
/-- `[ \t]*<start>\*` — Nunavut's edit -/
def altStar (st s : Str) : Option Nat := skipLit isBlank (st ++ ['*']) s
/-- `<start>` -/
def altPlain (st s : Str) : Option Nat := skipLit noSkip st s

def nextIsPlus (s : Str) : Bool :=
  match s with
  | '+' :: _ => true
  | _ => false

/-- `^[ \t]*<start>` followed by `(?!\+)` when `noPlus`; `^` under `re.M` holds at offset 0 and after `\n`. -/
def altLstrip (st : Str) (noPlus : Bool) (bol : Bool) (s : Str) : Option Nat :=
  if bol then
    match skipLit isBlank st s with
    | some n => if noPlus && nextIsPlus (s.drop n) then none else some n
    | none => none
  else none

/-- `<start>\+?` -/
def altPlusOpt (st s : Str) : Option Nat :=
  match skipLit noSkip st s with
  | some n => some (if nextIsPlus (s.drop n) then n + 1 else n)
  | none => none

/-- The upstream alternatives that follow `\s*<start>\-` (and Nunavut's) for a tag kind. -/
def altRest (cfg : Cfg) (k : Kind) (bol : Bool) (s : Str) : Option Nat :=
  match k with
  | .variable => altPlain k.start s
  | .comment =>
    if cfg.lstrip then (altLstrip k.start false bol s).or (altPlusOpt k.start s) else altPlain k.start s
  | _ =>
    if cfg.lstrip then (altLstrip k.start true bol s).or (altPlusOpt k.start s) else altPlain k.start s

/-- `(?P<k_begin>\s*S\-|[ \t]*S\*|…)`, alternatives tried in the order the regex lists them. -/
def tagBegin (cfg : Cfg) (k : Kind) (bol : Bool) (s : Str) : Option Nat :=
  (altMinus k.start s).or
    ((if cfg.starFor k then altStar k.start s else none).or (altRest cfg k bol s))

/-- `\s*raw\s*(?:\-%}\s*|%})` -/
def rawTail (s : Str) : Option Nat :=
  let n := spanLen isSpace s
  let s1 := s.drop n
  if ['r', 'a', 'w'].isPrefixOf s1 then
    let s2 := s1.drop 3
    let m := spanLen isSpace s2
    let s3 := s2.drop m
    if ['-', '%', '}'].isPrefixOf s3 then some (n + 3 + m + 3 + spanLen isSpace (s3.drop 3))
    else if ['%', '}'].isPrefixOf s3 then some (n + 3 + m + 2)
    else none
  else none

/-- one alternative of the raw prefix followed by the rest of the raw-begin pattern -/
def thenTail (a : Option Nat) (s : Str) : Option Nat :=
  match a with
  | some n => (rawTail (s.drop n)).map (n + ·)
  | none => none

/-- `(?P<raw_begin>(?:\s*{%\-|[ \t]*{%\*|B)\s*raw\s*(?:\-%}\s*|%}))`: the regex engine backtracks into the
next prefix alternative when the tail fails. -/
def rawBegin (cfg : Cfg) (bol : Bool) (s : Str) : Option Nat :=
  let st := Kind.raw.start
  (thenTail (altMinus st s) s).or
    ((if cfg.star then thenTail (altStar st s) s else none).or
      (if cfg.lstrip then (thenTail (altLstrip st true bol s) s).or (thenTail (altPlusOpt st s) s)
       else thenTail (altPlain st s) s))

/-- The alternation at one offset: first group (in the order raw, variable, comment, block) that matches. -/
def matchAt (cfg : Cfg) (bol : Bool) (s : Str) : Option (Kind × Nat) :=
  ((rawBegin cfg bol s).map (Kind.raw, ·)).or
    (((tagBegin cfg .variable bol s).map (Kind.variable, ·)).or
      (((tagBegin cfg .comment bol s).map (Kind.comment, ·)).or
        ((tagBegin cfg .block bol s).map (Kind.block, ·))))

/-- match here, else the match found further right (shifted by one) -/
def pick (here : Option (Kind × Nat)) (later : Option (Nat × Kind × Nat)) : Option (Nat × Kind × Nat) :=
  match here with
  | some (k, n) => some (0, k, n)
  | none =>
    match later with
    | some (o, k, n) => some (o + 1, k, n)
    | none => none

/-- The lazy `(.*?)`: smallest offset at which the alternation matches.  Result: offset, kind, match length.
`bol`: is the current offset the start of a line. -/
def findBegin (cfg : Cfg) : Bool → Str → Option (Nat × Kind × Nat)
  | _, [] => none
  | bol, c :: cs => pick (matchAt cfg bol (c :: cs)) (findBegin cfg (c == '\n') cs)

/-- One application of the root rule: the data in front of the begin token, its kind, its text (this is
`token.value`), and what is left. -/
structure Step where
  data : Str
  kind : Kind
  value : Str
  rest : Str
  deriving DecidableEq, Repr

def rootStep (cfg : Cfg) (bol : Bool) (src : Str) : Option Step :=
  match findBegin cfg bol src with
  | some (o, k, n) => some ⟨src.take o, k, (src.drop o).take n, src.drop (o + n)⟩
  | none => none

/-- `Parser.subparse.autoindent`: `token.value[:-3]`. -/
def autoindentPrefix (value : Str) : Str := value.take (value.length - 3)

/-- does the parser wrap the construct (begin token ends in `*`; raw begin tokens never reach the parser) -/
def isAutoindent (k : Kind) (value : Str) : Bool :=
  k != .raw && value.getLast? == some '*'

/-! ## The whole scan, with the tag states abstract -/

inductive Ev where
  /-- data, begin kind, begin token text -/
  | tag (data : Str) (kind : Kind) (value : Str)
  /-- trailing data (second root rule `.+`) -/
  | tail (data : Str)
  /-- the tag state raised (`TemplateSyntaxError`) -/
  | error
  deriving DecidableEq, Repr

/-- is the offset after consuming `consumed` a line start -/
def bolAfter (bol : Bool) (consumed : Str) : Bool :=
  match consumed.getLast? with
  | some c => c == '\n'
  | none => bol

/-- `inner k rest`: number of characters the state entered by a `k` begin token consumes up to and including
its end token (`none`: it raises).  Both engines share these states.  `fuel`: `src.length + 1` suffices. -/
def scan (cfg : Cfg) (inner : Kind → Str → Option Nat) : Nat → Bool → Str → List Ev
  | 0, _, _ => []
  | fuel + 1, bol, src =>
    match rootStep cfg bol src with
    | none => if src.isEmpty then [] else [Ev.tail src]
    | some st =>
      Ev.tag st.data st.kind st.value ::
        (match inner st.kind st.rest with
         | none => [Ev.error]
         | some n =>
           scan cfg inner fuel (bolAfter (bolAfter bol (st.data ++ st.value)) (st.rest.take n)) (st.rest.drop n))

/-- The marker sequences of a lexer configuration. -/
def startsMarker (cfg : Cfg) : Str → Bool
  | '{' :: c :: '*' :: _ => (cfg.star && (c = '{' || c = '%')) || (cfg.commentStar && c = '#')
  | _ => false

def hasMarker (cfg : Cfg) : Str → Bool
  | [] => false
  | c :: cs => startsMarker cfg (c :: cs) || hasMarker cfg cs

/-! ## `lineprefix` -/

/-- the line boundaries of `str.splitlines` (besides the pair `\r\n`) -/
def isBreak (c : Char) : Bool :=
  c = '\n' || c = '\r' || c = '\x0b' || c = '\x0c' || c = '\x1c' || c = '\x1d' || c = '\x1e' ||
  c = '\x85' || c = '\u2028' || c = '\u2029'

def consHead (c : Char) : List (Str × Str) → List (Str × Str)
  | [] => [([c], [])]
  | (l, t) :: rest => (c :: l, t) :: rest

/-- a `\r` in front of a line list that begins with the line closed by `\n`: the pair is one terminator -/
def mergeCR : List (Str × Str) → List (Str × Str)
  | (_, t) :: rest => ([], '\r' :: t) :: rest
  | [] => [([], ['\r'])]

/-- `s.splitlines(keepends=True)` as (content, terminator) pairs. -/
def linesT : Str → List (Str × Str)
  | [] => []
  | c :: cs =>
    if c = '\r' then (if cs.head? = some '\n' then mergeCR (linesT cs) else ([], ['\r']) :: linesT cs)
    else if isBreak c then ([], [c]) :: linesT cs
    else consHead c (linesT cs)

/-- `s.splitlines()` -/
def splitlines (s : Str) : List Str := (linesT s).map (·.1)

/-- `'\n'.join(ls)` -/
def joinNl : List Str → Str
  | [] => []
  | [l] => l
  | l :: l' :: ls => l ++ '\n' :: joinNl (l' :: ls)

/-- `prefix + line if line else line` -/
def pre (p l : Str) : Str := if l.isEmpty then l else p ++ l

/-- `do_lineprefix(s, prefix)` -/
def lineprefix (p s : Str) : Str := joinNl ((splitlines s).map (pre p))

/-- The property's reading: `p` in front of every non-empty line, nothing else changes. -/
def specPrefix (p s : Str) : Str := ((linesT s).map fun lt => pre p lt.1 ++ lt.2).flatten

/-- What `splitlines`/`join` does to the terminators: every one becomes `\n`, the last one disappears. -/
def normTerms : List (Str × Str) → List (Str × Str)
  | [] => []
  | [(l, _)] => [(l, [])]
  | (l, _) :: lt :: rest => (l, ['\n']) :: normTerms (lt :: rest)

/-- decidable region where `lineprefix` meets the full statement -/
def plainLines (s : Str) : Bool :=
  s.all (fun c => !isBreak c || c = '\n') && s.getLast? != some '\n'

/-! ## `Lexer.tokeniter`: normalisation of the source before the rules run (upstream code, shared by both engines) -/

/-- `source.endswith('\r\n') or source.endswith('\r') or source.endswith('\n')` -/
def endsNl (s : Str) : Bool := s.getLast? == some '\n' || s.getLast? == some '\r'

/-- `lines = source.splitlines(); if keep_trailing_newline and source and source ends in a newline: lines.append('');
source = '\n'.join(lines)` -/
def normalizeSource (keep : Bool) (s : Str) : Str :=
  joinNl (splitlines s ++ (if keep && endsNl s then [[]] else []))

/-! ## Rendering a marker construct (prediction used by the tie) -/

/-- What a construct opened with the marker contributes: the data in front (without the blanks), then the
filtered output of the plain construct. -/
def renderMarker (data value plainOut : Str) : Str := data ++ lineprefix (autoindentPrefix value) plainOut

/-! ## `{% assert %}` and `{% ifuses %}` -/

inductive Err where
  | assertion (msg : Str)
  | undefinedQuery (name : Str)
  | syntax
  /-- `TemplateAssertionError("Unknown uses_query_name found.")`: the argument of `ifuses` evaluated to `None` -/
  | unknownQueryName
  /-- `getattr(namespace, name)` with a name that is not a string: `TypeError`, not caught by `_use_query_common` -/
  | typeError
  deriving DecidableEq, Repr

/-- `JinjaAssert._do_assert(expression, …, message, caller)`; the call block has an empty body, so
`caller()` is the empty string. -/
def doAssert (truthy : Bool) (msg : Str) : Except Err Str :=
  if !truthy then .error (.assertion msg) else .ok []

/-- `UseQuery._use_query_common` + `_use_query` / `_use_nquery`: `q name = none` ⇒ `AttributeError` ⇒ `UndefinedError`. -/
def useQuery (q : Str → Option Bool) (negate : Bool) (name : Str) : Except Err Bool :=
  match q name with
  | none => .error (.undefinedQuery name)
  | some b => .ok (if negate then !b else b)

inductive Tag where
  | elifuses | elifnuses | else_ | end_
  deriving DecidableEq, Repr

/-- a continuation tag of the chain, its argument (query name) and the rendered statements that follow it -/
structure Seg where
  tag : Tag
  name : Str
  body : Str
  deriving DecidableEq, Repr

/-- `nodes.If`: test = call of `_use_query`/`_use_nquery` (the flag) on a name -/
structure IfNode where
  negate : Bool
  name : Str
  body : Str
  elifs : List (Bool × Str × Str)
  else_ : Str
  deriving DecidableEq, Repr

/-- The loop of `UseQuery.parse`; `negate` is its loop-carried variable.  Returns the clauses and the else body.
A continuation tag inside the else branch is an unknown tag for `parse_statements`. -/
def parseLoop (negate : Bool) (name body : Str) : List Seg → Except Err (List (Bool × Str × Str) × Str)
  | [] => .error .syntax
  | ⟨.elifuses, n, b⟩ :: rest =>
    match parseLoop false n b rest with
    | .ok (cs, e) => .ok ((negate, name, body) :: cs, e)
    | .error x => .error x
  | ⟨.elifnuses, n, b⟩ :: rest =>
    match parseLoop true n b rest with
    | .ok (cs, e) => .ok ((negate, name, body) :: cs, e)
    | .error x => .error x
  | ⟨.else_, _, b⟩ :: rest =>
    match rest with
    | ⟨.end_, _, _⟩ :: _ => .ok ([(negate, name, body)], b)
    | _ => .error .syntax
  | ⟨.end_, _, _⟩ :: _ => .ok ([(negate, name, body)], [])

/-- `UseQuery.parse`: opening tag (`ifnuses` ⇒ `negate`), then the loop. -/
def parseUses (openNegate : Bool) (name body : Str) (segs : List Seg) : Except Err IfNode :=
  match parseLoop openNegate name body segs with
  | .ok ((ng, n, b) :: cs, e) => .ok ⟨ng, n, b, cs, e⟩
  | .ok ([], _) => .error .syntax
  | .error x => .error x

/-- Jinja's `If` node: `if test: body  elif …  else: else_` -/
def evalClauses (q : Str → Option Bool) : List (Bool × Str × Str) → Str → Except Err Str
  | [], e => .ok e
  | (ng, n, b) :: cs, e =>
    match useQuery q ng n with
    | .error x => .error x
    | .ok true => .ok b
    | .ok false => evalClauses q cs e

def evalIf (q : Str → Option Bool) (node : IfNode) : Except Err Str :=
  evalClauses q ((node.negate, node.name, node.body) :: node.elifs) node.else_

/-- An ordinary `if c₁ … elif c₂ … else …` over already evaluated (or raising) conditions. -/
def ifElifElse : List (Except Err Bool × Str) → Str → Except Err Str
  | [], e => .ok e
  | (.error x, _) :: _, _ => .error x
  | (.ok true, b) :: _, _ => .ok b
  | (.ok false, _) :: cs, e => ifElifElse cs e

/-- The chain as the template author wrote it: (is it a `…nuses` tag, query name, body) per clause. -/
def clausesOf (openNegate : Bool) (name body : Str) : List Seg → List (Bool × Str × Str)
  | [] => [(openNegate, name, body)]
  | ⟨.elifuses, n, b⟩ :: rest => (openNegate, name, body) :: clausesOf false n b rest
  | ⟨.elifnuses, n, b⟩ :: rest => (openNegate, name, body) :: clausesOf true n b rest
  | _ :: _ => [(openNegate, name, body)]

def elseOf : List Seg → Str
  | [] => []
  | ⟨.else_, _, b⟩ :: _ => b
  | ⟨.end_, _, _⟩ :: _ => []
  | _ :: rest => elseOf rest

/-! ## the glue around the two extensions (`extensions.py`, `environment.py`) -/

/-- `JinjaAssert.parse`: `{% assert e %}` / `{% assert e, message %}` — the message argument is optional -/
def assertMessage (given : Option Str) : Str := given.getD "Template assertion failed.".toList

/-- what a failed assertion reports: `TemplateAssertionError(message, lineno, name, filename)` with the line of the
`assert` token and the name of the template that contains the tag (`parser.name`) -/
structure AssertFailure where
  msg : Str
  lineno : Nat
  name : Str
  deriving DecidableEq, Repr

def doAssertAt (truthy : Bool) (given : Option Str) (lineno : Nat) (name : Str) : Except AssertFailure Str :=
  if !truthy then .error ⟨assertMessage given, lineno, name⟩ else .ok []

/-- the value the argument expression of `ifuses` / `elifuses` evaluates to -/
inductive QName where
  | none_
  | str (s : Str)
  | other
  deriving DecidableEq, Repr

/-- `_use_query` / `_use_nquery` on an evaluated argument: `_use_query_common` raises BEFORE `_use_nquery` negates -/
def useQueryV (q : Str → Option Bool) (negate : Bool) : QName → Except Err Bool
  | .none_ => .error .unknownQueryName
  | .other => .error .typeError
  | .str s => useQuery q negate s

/-- `CodeGenEnvironmentBuilder.create()` → `CodeGenEnvironment.__init__` → `Environment(...)`: what the lexer is built
from.  Only `trim_blocks` and `lstrip_blocks` can be set (`set_trim_blocks`, `set_lstrip_blocks`, both default False);
delimiters and line prefixes are never passed (Jinja defaults), `keep_trailing_newline=True`. -/
structure BuilderState where
  trim : Bool := false
  lstrip : Bool := false
  deriving DecidableEq, Repr

structure LexerSettings where
  blockStart : Str
  blockEnd : Str
  variableStart : Str
  variableEnd : Str
  commentStart : Str
  commentEnd : Str
  lineStatementPrefix : Option Str
  lineCommentPrefix : Option Str
  trimBlocks : Bool
  lstripBlocks : Bool
  newlineSequence : Str
  keepTrailingNewline : Bool
  deriving DecidableEq, Repr

def builderSettings (b : BuilderState) : LexerSettings :=
  ⟨"{%".toList, "%}".toList, "{{".toList, "}}".toList, "{#".toList, "#}".toList, none, none, b.trim, b.lstrip,
   "\n".toList, true⟩

end NunavutVerif.Lexer
