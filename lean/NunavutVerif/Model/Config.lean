/-
Value-level model of Nunavut's configuration merging:

* `deep_update`, `DefaultValue.assign_to_if_not_default`          (src/nunavut/_utilities.py)
* `LanguageConfig.update / update_section / _get_config_value_raw` (src/nunavut/lang/_config.py)
* `LanguageContextBuilder` add_config_files / set_target_language_configuration_override /
  set_target_language / create                                    (src/nunavut/lang/__init__.py)
* C++ `Language._validate_language_options` (the `std` shorthand groups) (src/nunavut/lang/cpp/__init__.py)

Core Lean only (linked into the `config` driver).  The model is polymorphic in the key type `κ` and the
scalar type `σ`; Python `dict` = insertion-ordered association list without duplicate keys (`M`, the
invariant is `M.WF`), a `DefaultValue(x)` is the constructor `dflt x`.  Object identity (who shares which
`dict`) is *not* visible here — that is the job of `Model/ConfigHeap.lean`.
-/
namespace NunavutVerif.Config

mutual
/-- A configuration value: YAML scalar, `DefaultValue(scalar)`, list of scalars, mapping. -/
inductive V (κ σ : Type) where
  | scalar (s : σ)
  | dflt (s : σ)
  | list (xs : List σ)
  | map (m : M κ σ)
  deriving DecidableEq
/-- An insertion-ordered mapping (Python `dict`). -/
inductive M (κ σ : Type) where
  | nil
  | cons (k : κ) (v : V κ σ) (rest : M κ σ)
  deriving DecidableEq
end

instance {κ σ} : Inhabited (M κ σ) := ⟨.nil⟩
instance {κ σ} : Inhabited (V κ σ) := ⟨.map .nil⟩

variable {κ σ : Type} [DecidableEq κ]

namespace M

/-- `m[k]` / `m.get(k)`: the first (only) entry with that key. -/
def get : M κ σ → κ → Option (V κ σ)
  | .nil, _ => none
  | .cons k' v rest, k => if k' = k then some v else get rest k

/-- `m[k] = v`: replace in place (position kept) or append at the end. -/
def set : M κ σ → κ → V κ σ → M κ σ
  | .nil, k, v => .cons k v .nil
  | .cons k' v' rest, k, v => if k' = k then .cons k' v rest else .cons k' v' (set rest k v)

def keys : M κ σ → List κ
  | .nil => []
  | .cons k _ rest => k :: keys rest

def toList : M κ σ → List (κ × V κ σ)
  | .nil => []
  | .cons k v rest => (k, v) :: toList rest

def ofList : List (κ × V κ σ) → M κ σ
  | [] => .nil
  | (k, v) :: rest => .cons k v (ofList rest)

/-- No key occurs twice at the top level (a Python `dict` cannot have duplicates). -/
def NoDupKeys : M κ σ → Prop
  | .nil => True
  | .cons k _ rest => rest.get k = none ∧ NoDupKeys rest

end M

mutual
/-- The `dict` invariant at every depth. -/
def V.WF : V κ σ → Prop
  | .map m => m.WF
  | _ => True
def M.WF : M κ σ → Prop
  | .nil => True
  | .cons k v rest => rest.get k = none ∧ v.WF ∧ rest.WF
end

mutual
/-- Executable version of `WF` (used by the driver to reject malformed requests). -/
def V.wf : V κ σ → Bool
  | .map m => m.wf
  | _ => true
def M.wf : M κ σ → Bool
  | .nil => true
  | .cons k v rest => (rest.get k).isNone && v.wf && rest.wf
end

namespace V

/-- `isinstance(v, DefaultValue)` -/
def isDflt : V κ σ → Bool
  | .dflt _ => true
  | _ => false

/-- `isinstance(v, collections.abc.Mapping)` -/
def isMap : V κ σ → Bool
  | .map _ => true
  | _ => false

/-- an explicit (not default-marked) leaf: scalar or list -/
def isExplicitLeaf : V κ σ → Bool
  | .scalar _ => true
  | .list _ => true
  | _ => false

def isLeaf : V κ σ → Bool
  | .map _ => false
  | _ => true

/-- `no_default_value`: strip the marker of a top-level `DefaultValue`. -/
def stripDflt : V κ σ → V κ σ
  | .dflt s => .scalar s
  | v => v

end V

inductive Err where
  | notMapping     -- `.items()` on something that is not a mapping (AttributeError)
  | badSection     -- section name does not match `SECTION_NAME_PATTERN` (ValueError / TypeError)
  | missingStd     -- C++: no `std` option (ValueError)
  | unhashable     -- C++: `std` is a list / mapping (TypeError)
  | groupNotMapping -- C++: `defaults[std]` is not a mapping (`dict.update` raises)
  | missingCtor    -- C++: no `ctor_convention` (ValueError)
  | badCtor        -- C++: unknown constructor convention (ValueError)
  | allocatorRequired -- C++: non-default convention without allocator_type (ValueError)
  deriving DecidableEq, Repr

/-- `DefaultValue.assign_to_if_not_default(target, key, value)`:
a default-marked `value` is *not* assigned when `target[key]` exists and is not default-marked;
everything else (KeyError, explicit value, default over default) assigns. -/
def assign (tm : M κ σ) (k : κ) (v : V κ σ) : M κ σ :=
  match v, tm.get k with
  | .dflt _, some (.dflt _) => tm.set k v
  | .dflt _, some _ => tm
  | _, _ => tm.set k v

/-- `deep_update(target, source)` for a `target` that is a mapping (the `for key, value in
source.items()` loop; `target` is updated key by key in source order).

* `value` is a mapping: `target[key] = deep_update(target.get(key, {}), value)` — an existing mapping is
  merged recursively, an absent key starts from `{}`, an existing non-mapping (scalar, list,
  `DefaultValue`) is replaced by a copy of `value` (`copy.copy` before the fix, `copy.deepcopy` after; the
  value is the same, only the sharing differs — see `ConfigHeap`);
* otherwise `DefaultValue.assign_to_if_not_default(target, key, value)`. -/
def mergeInto (tm : M κ σ) : M κ σ → M κ σ
  | .nil => tm
  | .cons k (.map sm) rest =>
    mergeInto (tm.set k (match tm.get k with
                         | some (.map t2) => .map (mergeInto t2 sm)
                         | none => .map (mergeInto .nil sm)
                         | some _ => .map sm)) rest
  | .cons k v rest => mergeInto (assign tm k v) rest
termination_by structural s => s

/-- `deep_update(target, source)` with an arbitrary target value: a non-mapping target is replaced by a
copy of the source. -/
def deepUpdate (t : V κ σ) (s : M κ σ) : V κ σ :=
  match t with
  | .map tm => .map (mergeInto tm s)
  | _ => .map s

/-- `deep_update(target, source)` for two arbitrary values: a source that is not a mapping has no
`.items()` (AttributeError) when the target is a mapping, and is returned (copied) otherwise. -/
def deepUpdateAny (t s : V κ σ) : Except Err (V κ σ) :=
  match s with
  | .map sm => .ok (deepUpdate t sm)
  | _ => if t.isMap then .error .notMapping else .ok s

/-- What one source entry `(k, v)` does to the target (the body of the `for` loop). -/
def step (tm : M κ σ) (k : κ) (v : V κ σ) : M κ σ :=
  match v with
  | .map sm => tm.set k (deepUpdate ((tm.get k).getD (.map .nil)) sm)
  | v => assign tm k v

/-- The one-step law of `deep_update` on a single key, as a function of what target and source hold there
(`none` = key absent). -/
def combine (t s : Option (V κ σ)) : Option (V κ σ) :=
  match s with
  | none => t
  | some (.map sm) =>
    (match t with
     | some (.map t2) => some (.map (mergeInto t2 sm))
     | none => some (.map (mergeInto .nil sm))
     | some _ => some (.map sm))
  | some (.dflt x) =>
    (match t with
     | none => some (.dflt x)
     | some (.dflt _) => some (.dflt x)
     | some v => some v)
  | some l => some l

/-- Walk a path of keys. -/
def V.getPath : V κ σ → List κ → Option (V κ σ)
  | v, [] => some v
  | .map m, k :: p => (match m.get k with
                       | some v => V.getPath v p
                       | none => none)
  | _, _ :: _ => none

/-- The source does not mention the path: walking it through mappings ends at an absent key. -/
def unmentioned : M κ σ → List κ → Bool
  | _, [] => false
  | m, k :: p => match m.get k with
    | none => true
    | some (.map m') => unmentioned m' p
    | some _ => false

/-- The source is shape-compatible with a leaf living at path `p`: it does not mention the path, or it has
a leaf (explicit or default-marked) exactly there; every proper prefix it mentions is a mapping. -/
def compat : M κ σ → List κ → Bool
  | _, [] => false
  | m, [k] => (match m.get k with
               | none => true
               | some v => v.isLeaf)
  | m, k :: k' :: p => (match m.get k with
               | none => true
               | some (.map m') => compat m' (k' :: p)
               | some _ => false)

/-- The precedence rule, stated independently of the merge: among the values the sources hold at a path
(`none` = not mentioned), the last explicit leaf wins; if there is none, the last default-marked one. -/
def pick (xs : List (Option (V κ σ))) : Option (V κ σ) :=
  match (xs.filterMap id).reverse.find? V.isExplicitLeaf with
  | some v => some v
  | none => (xs.filterMap id).reverse.find? V.isDflt

/-! ### Extensional view (what lookups can observe) -/

/-- What a lookup observes of a value: absent, a leaf (with its marking), or "some mapping". -/
inductive Obs (σ : Type) where
  | absent
  | scalar (s : σ)
  | dflt (s : σ)
  | list (xs : List σ)
  | isMap
  deriving DecidableEq

def obs : Option (V κ σ) → Obs σ
  | none => .absent
  | some (.scalar s) => .scalar s
  | some (.dflt s) => .dflt s
  | some (.list xs) => .list xs
  | some (.map _) => .isMap

/-- Two values answer every path lookup alike (same leaves, same shape); key order is not observable. -/
def ExtEq (v w : V κ σ) : Prop := ∀ p : List κ, obs (v.getPath p) = obs (w.getPath p)

mutual
def V.size : V κ σ → Nat
  | .map m => m.size + 1
  | _ => 1
def M.size : M κ σ → Nat
  | .nil => 0
  | .cons _ v rest => v.size + rest.size + 1
end

/-! ### `LanguageConfig` -/

/-- `LanguageConfig.update_section(name, data)`:
`self._sections[name] = deep_update(self._sections.get(name, {}), data)`. -/
def updateSection (c : M κ σ) (name : κ) (data : V κ σ) : Except Err (M κ σ) :=
  match data with
  | .map s => .ok (c.set name (deepUpdate ((c.get name).getD (.map .nil)) s))
  | _ => .error .notMapping

/-- The `for section_name, section_data in configuration.items()` loop of `LanguageConfig.update`. -/
def updateSections (valid : κ → Bool) (c : M κ σ) : M κ σ → Except Err (M κ σ)
  | .nil => .ok c
  | .cons name data rest =>
    if valid name then
      match updateSection c name data with
      | .ok c' => updateSections valid c' rest
      | .error e => .error e
    else .error .badSection

/-- `LanguageConfig.update(configuration)` (also `update_from_yaml_*` after parsing). -/
def update (valid : κ → Bool) (c : M κ σ) (doc : V κ σ) : Except Err (M κ σ) :=
  match doc with
  | .map d => updateSections valid c d
  | _ => .error .notMapping

/-- `_get_config_value_raw(section, key)` wrapped by `no_default_value`; `none` = KeyError. -/
def getConfigValue (c : M κ σ) (sect key : κ) : Option (V κ σ) :=
  match c.get sect with
  | some (.map sec) => (sec.get key).map V.stripDflt
  | _ => none

/-! ### `LanguageContextBuilder` -/

/-- State of one builder: its own `LanguageConfig` (sections), the pending overrides
(`_target_language_config`) and the explicitly chosen language (a section key), if any. -/
structure Builder (κ σ : Type) where
  config : M κ σ
  overrides : M κ σ
  lang : Option κ

inductive Op (κ σ : Type) where
  /-- `add_config_files(path)`: the parsed document is merged *now*. -/
  | addFile (doc : V κ σ)
  /-- `set_target_language_configuration_override(key, value)`; `None` is ignored. -/
  | setOverride (k : κ) (v : Option (V κ σ))
  /-- `set_target_language(name)`; `none` selects the default language. -/
  | setLanguage (l : Option κ)

/-- One builder call.  A failing `update` raises out of `add_config_files`. -/
def Builder.apply (valid : κ → Bool) (dfltLang : κ) (b : Builder κ σ) : Op κ σ → Except Err (Builder κ σ)
  | .addFile doc =>
    match update valid b.config doc with
    | .ok c => .ok { b with config := c }
    | .error e => .error e
  | .setOverride _ none => .ok b
  | .setOverride k (some v) => .ok { b with overrides := b.overrides.set k v }
  | .setLanguage none => .ok { b with lang := some dfltLang }
  | .setLanguage (some l) => .ok { b with lang := some l }

def Builder.run (valid : κ → Bool) (dfltLang : κ) (b : Builder κ σ) : List (Op κ σ) → Except Err (Builder κ σ)
  | [] => .ok b
  | op :: ops =>
    match b.apply valid dfltLang op with
    | .ok b' => Builder.run valid dfltLang b' ops
    | .error e => .error e

/-- `create()` up to the configuration it hands to the `LanguageContext`: the overrides are merged into the
section of the resolved target language.  `resolve` stands for `_resolve_target_language` when no
language was set explicitly (it reads the configuration and the overrides as they are at `create`). -/
def Builder.create (resolve : M κ σ → M κ σ → κ) (b : Builder κ σ) : Builder κ σ :=
  let l := match b.lang with
    | some l => l
    | none => resolve b.config b.overrides
  { b with config := b.config.set l (deepUpdate ((b.config.get l).getD (.map .nil)) b.overrides) }

/-- The loop of ONE `add_config_files(*paths)` call: every file is merged into the builder's configuration
in turn (`for additional_path in additional_config_files: self.config.update_from_yaml_file(...)`) — there
is no intermediate configuration in which the files of the call are combined first. -/
def addFilesCall (valid : κ → Bool) (c : M κ σ) : List (V κ σ) → Except Err (M κ σ)
  | [] => .ok c
  | doc :: docs =>
    match update valid c doc with
    | .ok c' => addFilesCall valid c' docs
    | .error e => .error e

/-- Projections of an op list used to state interleaving independence. -/
def Op.isFile : Op κ σ → Bool
  | .addFile _ => true
  | _ => false

/-! ### C++ `_validate_language_options`: the `std` shorthand groups -/

/-- `dict.update(other)`: flat, every key of `other` is assigned. -/
def dictUpdate (o : M κ σ) : M κ σ → M κ σ
  | .nil => o
  | .cons k v rest => dictUpdate (o.set k v) rest

/-- The key under which `defaults` is searched: `options["std"]` (a `DefaultValue` hashes and compares
like its value). -/
def stdName : V κ σ → Except Err σ
  | .scalar s => .ok s
  | .dflt s => .ok s
  | _ => .error .unhashable

/-- `if language_standard in defaults: options.update(defaults[language_standard])`.
`nameKey` turns the scalar held by `std` into a key of `defaults`. -/
def applyStdDefaults (stdKey : κ) (nameKey : σ → κ) (defaults options : M κ σ) : Except Err (M κ σ) :=
  match options.get stdKey with
  | none => .error .missingStd
  | some sv =>
    match stdName sv with
    | .error e => .error e
    | .ok name =>
      match defaults.get (nameKey name) with
      | none => .ok options
      | some (.map g) => .ok (dictUpdate options g)
      | some _ => .error .groupNotMapping

/-- The constructor-convention check that follows (it does not change the options).
`ctor v` = `none`: not a convention name; `some true`: the default convention.  `falsy v` = `not v`. -/
def checkCtor (ctorKey allocKey : κ) (ctor : V κ σ → Option Bool) (falsy : V κ σ → Bool)
    (options : M κ σ) : Except Err (M κ σ) :=
  match options.get ctorKey with
  | none => .error .missingCtor
  | some cv =>
    match ctor cv with
    | none => .error .badCtor
    | some true => .ok options
    | some false =>
      match options.get allocKey with
      | none => .error .allocatorRequired
      | some a => if falsy a then .error .allocatorRequired else .ok options


/-- Names and scalar tests used by the C++ language class. -/
structure CppKeys (κ σ : Type) where
  options : κ
  defaults : κ
  std : κ
  ctor : κ
  alloc : κ
  nameKey : σ → κ
  ctorOf : V κ σ → Option Bool
  falsy : V κ σ → Bool

/-- `Language.__init__` of the C++ language on its own section:
`defaults = get_config_value_as_dict(section, "defaults", {})`,
`options = get_config_value_as_dict(section, "options", {})` (the `dict` object held by the configuration —
`_validate_language_options` updates it in place; a missing / non-dict `options` yields a fresh `{}` which
has no `std`).  Returns the section as it is afterwards. -/
def cppValidateSection (K : CppKeys κ σ) (sec : M κ σ) : Except Err (M κ σ) :=
  let defaults := match sec.get K.defaults with
    | some (.map d) => d
    | _ => .nil
  match sec.get K.options with
  | some (.map o) =>
    (match applyStdDefaults K.std K.nameKey defaults o with
     | .error e => .error e
     | .ok o' =>
       match checkCtor K.ctor K.alloc K.ctorOf K.falsy o' with
       | .error e => .error e
       | .ok _ => .ok (sec.set K.options (.map o')))
  | _ => .error .missingStd

/-- `Language.__init__` of the Python language on its own section: `_validate_language_options` sets
`options["enable_serialization_asserts"] = True` on the `dict` held by the configuration (a missing /
non-dict `options` yields a fresh `{}` that is not stored). -/
def pyValidateSection (optionsKey assertsKey : κ) (tru : V κ σ) (sec : M κ σ) : M κ σ :=
  match sec.get optionsKey with
  | some (.map o) => sec.set optionsKey (.map (o.set assertsKey tru))
  | _ => sec

/-- `_resolve_target_language` without an explicit language: the first section whose `extension` equals
the `extension` override, else the default language.  `eq` is Python's `==` on the two values. -/
def firstWithExt (extKey : κ) (eq : V κ σ → V κ σ → Bool) (ext : V κ σ) : M κ σ → Option κ
  | .nil => none
  | .cons name (.map sec) rest =>
    (match sec.get extKey with
     | some e => if eq e ext then some name else firstWithExt extKey eq ext rest
     | none => firstWithExt extKey eq ext rest)
  | .cons _ _ rest => firstWithExt extKey eq ext rest

def resolveLang (extKey dflt : κ) (eq : V κ σ → V κ σ → Bool) (config overrides : M κ σ) : κ :=
  match overrides.get extKey with
  | none => dflt
  | some ext => (firstWithExt extKey eq ext config).getD dflt

end NunavutVerif.Config
