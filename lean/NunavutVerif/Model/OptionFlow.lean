import NunavutVerif.Model.OptionEmit
/-!
# How a requested option value reaches the templates, and what a process that generates several times emits

Real code (read in the tree under check):

* `lang/properties.yaml` section `nunavut.lang.<l>`: `options:` (built-in defaults, an ordered mapping) and, for C++,
  `defaults:` (language-standard presets)                                                               ↦ `LangConfig`
* `LanguageContextBuilder.__init__` → a `LanguageClassLoader` whose `config` property parses the YAML files into a
  **new** `LanguageConfig` for this builder                                                             ↦ `Builder.fresh`
* `set_target_language_configuration_override("options", o)`: `_target_language_config["options"] = o`  ↦ `setOverride`
* `create()`: `config.update_section(section, _target_language_config)` = `deep_update` into the builder's own
  configuration (existing keys keep their place, new keys are appended), then `Language.__init__` reads the section's
  `options` dict and passes it through `_validate_language_options` — identity for C; for C++: `std` must be present, a
  `std` that names a preset gets the preset `update`d **into that very dict**, `ctor_convention` must be present and
  valid, a non-default convention needs a non-empty `allocator_type`                                    ↦ `create`, `validate`
* `CodeGenEnvironment._update_language_support`: `globals["options"].update(target_language.get_options())` once, when
  the generator (and its Jinja environment) is constructed                                              ↦ `GenObj.options`
* `generate_all(…, omit_serialization_support, …)`: `update_nunavut_globals(…)` sets `nunavut.support.omit` for this
  pass, then every header is rendered: the templates read the `options` and `nunavut` globals at that moment
                                                                                                        ↦ `GenObj.pass`
* `nunavut.generate_types(lang, …, language_options=o, omit_serialization_support=b)`: a new builder, `create()`, new
  generators, one pass of the support generator and one of the type generator                           ↦ `generateTypes`

`Emitter` abstracts the two templates (instantiated with the model's `defines` / `asserts` in the theorems and with the
interpretation of the generated emission table in the driver).
-/
namespace NunavutVerif.Options

/-! ## dictionaries -/

/-- `d[k] = v` on an ordered dict: an existing key keeps its position. -/
def setKey : OptSet → String → OptVal → OptSet
  | [], k, v => [(k, v)]
  | (k', v') :: r, k, v => if k' = k then (k, v) :: r else (k', v') :: setKey r k v

/-- `d.update(u)` / `deep_update(d, u)` for option values that are not mappings. -/
def update (d u : OptSet) : OptSet := u.foldl (fun acc kv => setKey acc kv.1 kv.2) d

structure LangConfig where
  options : OptSet                        -- `options:`
  presets : List (String × OptSet)        -- `defaults:`
  deriving Repr

/-! ## validation -/

inductive FlowErr where
  | noStd               -- "The 'std' option must be in the language options for the C++ language."
  | noCtor              -- "No constructor convention option in C++ language options."
  | badCtor             -- `ConstructorConvention.from_string` raised (or the value is not a string)
  | allocatorRequired   -- "allocator_type property must be specified when ctor_convention is …"
  deriving DecidableEq, Repr

def asciiLower (c : Char) : Char := if 'A' ≤ c ∧ c ≤ 'Z' then Char.ofNat (c.toNat + 32) else c

/-- `s.lower().replace("_", "-")` — exact for the comparison it is used in: no non-ASCII character lower-cases to a
letter of the three convention names. -/
def ctorNormal (s : String) : String :=
  String.ofList (s.toList.map fun c => if c = '_' then '-' else asciiLower c)

def ctorNames : List String := ["default", "uses-leading-allocator", "uses-trailing-allocator"]

/-- Python truthiness of an option value (`not options["allocator_type"]`).  `.other` stands for values the guard
cannot encode anyway (float, None, list …); it is taken as truthy and the correspondence never sends one here. -/
def truthy : OptVal → Bool
  | .bool b => b
  | .int i => i != 0
  | .str s => s != ""
  | .other => true

/-- `_validate_language_options` of the target language, on the dict it is handed: the dict afterwards (C++ writes the
preset into it before the later checks can raise) and the error, if any. -/
def validate (lang : Lang) (presets : List (String × OptSet)) (o : OptSet) : OptSet × Option FlowErr :=
  match lang with
  | .c => (o, none)
  | .cpp =>
    match o.lookup "std" with
    | none => (o, some .noStd)
    | some std =>
      let o' := match std with
        | .str s => (match presets.lookup s with
          | some p => update o p
          | none => o)
        | _ => o
      match o'.lookup "ctor_convention" with
      | none => (o', some .noCtor)
      | some (.str c) =>
        if ctorNormal c ∈ ctorNames then
          if ctorNormal c ≠ "default" ∧ !(match o'.lookup "allocator_type" with | some a => truthy a | none => false) then
            (o', some .allocatorRequired)
          else (o', none)
        else (o', some .badCtor)
      | some _ => (o', some .badCtor)

/-- The option set the templates iterate over when `req` is requested on top of the configuration `cfg`: the
specification side of this file ("the requested effective value"). -/
def effective (lang : Lang) (cfg : LangConfig) (req : OptSet) : Except FlowErr OptSet :=
  match validate lang cfg.presets (update cfg.options req) with
  | (o, none) => .ok o
  | (_, some e) => .error e

/-! ## the objects -/

/-- A `LanguageContextBuilder`: its own configuration object and the pending `options` override. -/
structure Builder where
  config : LangConfig
  pending : OptSet

/-- `LanguageContextBuilder(...)`: parses the YAML files (`file`) into a configuration of its own. -/
def Builder.fresh (file : LangConfig) : Builder := ⟨file, []⟩

def Builder.setOverride (b : Builder) (o : OptSet) : Builder := { b with pending := o }

/-- `create()`: merges the pending override into the builder's configuration *in place*, constructs the `Language`
(validation mutates the same dict).  Returns the builder as it is afterwards and the language's `get_options()`. -/
def Builder.create (lang : Lang) (b : Builder) : Builder × Except FlowErr OptSet :=
  let r := validate lang b.config.presets (update b.config.options b.pending)
  ({ b with config := { b.config with options := r.1 } },
   match r.2 with
   | none => .ok r.1
   | some e => .error e)

/-- The two templates, as far as the option guard is concerned. -/
structure Emitter where
  defs : OptSet → Option (List (String × Int))            -- support header
  asrt : Bool → OptSet → Option (List (String × Int))     -- a type header, given `nunavut.support.omit`

/-- What one generation leaves behind. -/
structure RunOut where
  defs : Option (List (String × Int))   -- `none`: no serialization support header (omitted)
  asrt : List (String × Int)            -- the guard block every type header of the run carries
  deriving DecidableEq, Repr

inductive RunResult where
  | rejected (e : FlowErr)   -- the language context could not be created
  | encodeError              -- `filter_to_static_assertion_value` raised while rendering
  | noSuchGenerator
  | created                  -- `new_generators` succeeded (nothing generated yet)
  | ok (out : RunOut)
  deriving DecidableEq, Repr

/-- A `DSDLCodeGenerator` + `SupportGenerator` pair sharing one language context: the `options` global was filled at
construction; `omit` is the value `nunavut.support.omit` was last set to. -/
structure GenObj where
  options : OptSet
  om : Bool

/-- `generate_all(omit_serialization_support = omit)` on both generators: sets the global, renders. -/
def GenObj.pass (E : Emitter) (g : GenObj) (om : Bool) : GenObj × RunResult :=
  let g' := { g with om := om }
  (g',
   match (if g'.om then some none else (E.defs g'.options).map some), E.asrt g'.om g'.options with
   | some d, some a => .ok ⟨d, a⟩
   | _, _ => .encodeError)

/-- One API call of a process. -/
inductive Call where
  | generateTypes (req : OptSet) (om : Bool)
  | newGenerators (id : String) (req : OptSet)
  | pass (id : String) (om : Bool)
  deriving Repr

/-- The live generator objects of the process, newest first.  (Builders do not appear: every call that needs one
constructs it and drops it.) -/
abbrev Proc := List (String × GenObj)

def step (lang : Lang) (file : LangConfig) (E : Emitter) (p : Proc) : Call → Proc × RunResult
  | .generateTypes req om =>
    match ((Builder.fresh file).setOverride req).create lang with
    | (_, .error e) => (p, .rejected e)
    | (_, .ok o) => (p, ((GenObj.mk o false).pass E om).2)
  | .newGenerators id req =>
    match ((Builder.fresh file).setOverride req).create lang with
    | (_, .error e) => (p, .rejected e)
    | (_, .ok o) => ((id, ⟨o, false⟩) :: p, .created)
  | .pass id om =>
    match p.lookup id with
    | none => (p, .noSuchGenerator)
    | some g =>
      let r := g.pass E om
      ((id, r.1) :: p, r.2)

/-- A whole history of calls in one process. -/
def runHistory (lang : Lang) (file : LangConfig) (E : Emitter) : Proc → List Call → List RunResult
  | _, [] => []
  | p, c :: cs =>
    let r := step lang file E p c
    r.2 :: runHistory lang file E r.1 cs

/-! ## specification: every run emits the encodings of *its own* requested effective values -/

/-- What a generation with requested options `req` and `omit` must emit, whatever happened before in the process. -/
def specRun (lang : Lang) (file : LangConfig) (E : Emitter) (req : OptSet) (om : Bool) : RunResult :=
  match effective lang file req with
  | .error e => .rejected e
  | .ok o =>
    match (if om then some none else (E.defs o).map some), E.asrt om o with
    | some d, some a => .ok ⟨d, a⟩
    | _, _ => .encodeError

/-- The request a generator id stands for: the one given to the latest successful `new_generators` with that id among
the calls made so far (`past`, newest first). -/
def requestOf (lang : Lang) (file : LangConfig) (id : String) : List Call → Option OptSet
  | [] => none
  | .newGenerators id' req :: past =>
    if id' = id then
      (match effective lang file req with
       | .ok _ => some req
       | .error _ => requestOf lang file id past)
    else requestOf lang file id past
  | _ :: past => requestOf lang file id past

def specCall (lang : Lang) (file : LangConfig) (E : Emitter) (past : List Call) : Call → RunResult
  | .generateTypes req om => specRun lang file E req om
  | .newGenerators _ req =>
    match effective lang file req with
    | .error e => .rejected e
    | .ok _ => .created
  | .pass id om =>
    match requestOf lang file id past with
    | none => .noSuchGenerator
    | some req => specRun lang file E req om

def specHistory (lang : Lang) (file : LangConfig) (E : Emitter) : List Call → List Call → List RunResult
  | _, [] => []
  | past, c :: cs => specCall lang file E past c :: specHistory lang file E (c :: past) cs

/-- The emitter of the hand-written model (`Model/Options.lean`). -/
def modelEmitter (lang : Lang) (name : String → String) : Emitter :=
  ⟨defines name, fun om o => asserts lang om name o⟩

/-! ## delivery of a request through configuration sources -/

/-- `add_config_files(f₁, …, fₙ)`: every file is parsed and `deep_update`d into the builder's configuration, in order
(the `options:` mapping of the target language's section of each file). -/
def Builder.addConfigFiles (b : Builder) (files : List OptSet) : Builder :=
  { b with config := { b.config with options := files.foldl update b.config.options } }

/-- A request as it is delivered: `--configuration` files in order, then `set_target_language_configuration_override("options", ·)`
calls in order (the CLI makes one, with the flags given on the command line). -/
structure Delivery where
  files : List OptSet
  overrides : List OptSet

def Builder.deliver (b : Builder) (d : Delivery) : Builder :=
  d.overrides.foldl Builder.setOverride (b.addConfigFiles d.files)

/-- The value a dict literal / YAML mapping ends up with for `k` (a later duplicate wins). -/
def lastVal (u : OptSet) (k : String) : Option OptVal := u.reverse.lookup k

/-- The options dict handed to validation: built-in, then the files in order, then the LAST override call (each
`set_…_override` of a key replaces the pending value of that key). -/
def merged (file : LangConfig) (d : Delivery) : OptSet :=
  update (d.files.foldl update file.options) (d.overrides.getLast?.getD [])

def effectiveDelivered (lang : Lang) (file : LangConfig) (d : Delivery) : Except FlowErr OptSet :=
  match validate lang file.presets (merged file d) with
  | (o, none) => .ok o
  | (_, some e) => .error e

end NunavutVerif.Options
