import NunavutVerif.Model.Config
/-
Object-level model of `deep_update` (src/nunavut/_utilities.py): the same algorithm as
`Model/Config.lean`, but over an explicit heap of `dict` objects, so that *which* `dict` ends up inside the
merged configuration — a fresh one or one that still belongs to a source document — is expressible.

* a heap is a list of objects, the address of an object is its index; every object is a `dict`
  (insertion-ordered list of entries); an entry holds a leaf (scalar, `DefaultValue`, list — never mutated
  by the merge) or a reference to another `dict`;
* `mergeH fix fuel h t s` is `deep_update(target, source)` for a target that is a `dict`: it mutates `t`
  (and objects below it) in place and allocates at the end of the heap;
* `fix = true` is the code with `copy.deepcopy(source)` in the "target is not a mapping" branch,
  `fix = false` the code before the fix (`copy.copy(source)`: a new `dict` whose entries still point into
  the source document);
* recursion depth is bounded by `fuel` (Python: the interpreter's recursion limit → `RecursionError`).

Core Lean only.
-/
namespace NunavutVerif.Config

/-- What a `dict` entry holds. -/
inductive HV (σ : Type) where
  | scalar (s : σ)
  | dflt (s : σ)
  | list (xs : List σ)
  | ref (a : Nat)
  deriving DecidableEq, Repr

abbrev Obj (κ σ : Type) := List (κ × HV σ)
abbrev Heap (κ σ : Type) := List (Obj κ σ)

inductive HErr where
  | recursion     -- fuel exhausted (RecursionError)
  | dangling      -- reference to an address outside the heap (cannot happen in a heap built by the harness)
  | changedSize   -- "dictionary changed size during iteration" (RuntimeError)
  deriving DecidableEq, Repr

variable {κ σ : Type} [DecidableEq κ]

def oget : Obj κ σ → κ → Option (HV σ)
  | [], _ => none
  | (k', v) :: r, k => if k' = k then some v else oget r k

def oset : Obj κ σ → κ → HV σ → Obj κ σ
  | [], k, v => [(k, v)]
  | (k', v') :: r, k, v => if k' = k then (k', v) :: r else (k', v') :: oset r k v

/-- `DefaultValue.assign_to_if_not_default` on an object (a reference is "not a `DefaultValue`"). -/
def assignH (o : Obj κ σ) (k : κ) (v : HV σ) : Obj κ σ :=
  match v, oget o k with
  | .dflt _, some (.dflt _) => oset o k v
  | .dflt _, some _ => o
  | _, _ => oset o k v

/-- `target[key] = value` on the object at address `t`. -/
def writeKey (h : Heap κ σ) (t : Nat) (k : κ) (v : HV σ) : Except HErr (Heap κ σ) :=
  match h[t]? with
  | none => .error .dangling
  | some o => .ok (h.set t (oset o k v))

/-- Entries of a deep copy: leaves are kept, every referenced `dict` is copied by `rec`. -/
def copyEntries (rec : Heap κ σ → Nat → Except HErr (Heap κ σ × Nat)) :
    Heap κ σ → Obj κ σ → Except HErr (Heap κ σ × Obj κ σ)
  | h, [] => .ok (h, [])
  | h, (k, .ref a) :: r =>
    (match rec h a with
     | .error e => .error e
     | .ok (h1, a') =>
       match copyEntries rec h1 r with
       | .error e => .error e
       | .ok (h2, r') => .ok (h2, (k, .ref a') :: r'))
  | h, (k, v) :: r =>
    (match copyEntries rec h r with
     | .error e => .error e
     | .ok (h2, r') => .ok (h2, (k, v) :: r'))

/-- `copy.deepcopy(d)` of the `dict` at address `a`: allocates a copy of everything below it. -/
def deepCopyH : Nat → Heap κ σ → Nat → Except HErr (Heap κ σ × Nat)
  | 0, _, _ => .error .recursion
  | fuel + 1, h, a =>
    match h[a]? with
    | none => .error .dangling
    | some o =>
      match copyEntries (deepCopyH fuel) h o with
      | .error e => .error e
      | .ok (h', o') => .ok (h' ++ [o'], h'.length)

/-- `target[key] = deep_update(target.get(key, {}), value)` where `value` is the `dict` at `sa`:
* `target[key]` is a `dict`: merged in place, the same object is stored again;
* no such key: a fresh `{}` is filled from `value`;
* anything else: replaced by a copy of `value` — deep (`fix`) or shallow (before the fix). -/
def mergeChildH (recM : Heap κ σ → Nat → Nat → Except HErr (Heap κ σ))
    (recC : Heap κ σ → Nat → Except HErr (Heap κ σ × Nat)) (fix : Bool)
    (h : Heap κ σ) (t : Nat) (k : κ) (sa : Nat) : Except HErr (Heap κ σ) :=
  match h[t]? with
  | none => .error .dangling
  | some to =>
    match oget to k with
    | some (.ref ta) =>
      (match recM h ta sa with
       | .error e => .error e
       | .ok h1 => writeKey h1 t k (.ref ta))
    | none =>
      (match recM (h ++ [[]]) h.length sa with
       | .error e => .error e
       | .ok h1 => writeKey h1 t k (.ref h.length))
    | some _ =>
      if fix then
        (match recC h sa with
         | .error e => .error e
         | .ok (h1, na) => writeKey h1 t k (.ref na))
      else
        (match h[sa]? with
         | none => .error .dangling
         | some so => writeKey (h ++ [so]) t k (.ref h.length))

/-- One iteration of `for key, value in source.items()`; `n` is the size the source had when the
iteration started (CPython raises when it changed), the value is read from the live object. -/
def stepH (recM : Heap κ σ → Nat → Nat → Except HErr (Heap κ σ))
    (recC : Heap κ σ → Nat → Except HErr (Heap κ σ × Nat)) (fix : Bool)
    (t s n : Nat) (h : Heap κ σ) (k : κ) : Except HErr (Heap κ σ) :=
  match h[s]? with
  | none => .error .dangling
  | some cur =>
    if cur.length ≠ n then .error .changedSize else
    match oget cur k with
    | none => .error .changedSize
    | some (.ref sa) => mergeChildH recM recC fix h t k sa
    | some leaf =>
      match h[t]? with
      | none => .error .dangling
      | some to => .ok (h.set t (assignH to k leaf))

/-- The loop over the keys the source had at the start (and the size check at exhaustion). -/
def loopH (recM : Heap κ σ → Nat → Nat → Except HErr (Heap κ σ))
    (recC : Heap κ σ → Nat → Except HErr (Heap κ σ × Nat)) (fix : Bool)
    (t s n : Nat) : Heap κ σ → List κ → Except HErr (Heap κ σ)
  | h, [] =>
    (match h[s]? with
     | none => .error .dangling
     | some cur => if cur.length ≠ n then .error .changedSize else .ok h)
  | h, k :: ks =>
    (match stepH recM recC fix t s n h k with
     | .error e => .error e
     | .ok h1 => loopH recM recC fix t s n h1 ks)

/-- `deep_update(target, source)` for `dict` objects at `t` and `s` (returns `target`, i.e. `t`). -/
def mergeH (fix : Bool) : Nat → Heap κ σ → Nat → Nat → Except HErr (Heap κ σ)
  | 0, _, _, _ => .error .recursion
  | fuel + 1, h, t, s =>
    match h[s]? with
    | none => .error .dangling
    | some so =>
      match h[t]? with
      | none => .error .dangling
      | some _ => loopH (mergeH fix fuel) (deepCopyH fuel) fix t s so.length h (so.map Prod.fst)

/-- `deep_update(target, source)` with an arbitrary target value; returns the heap and the result. -/
def deepUpdateH (fix : Bool) (fuel : Nat) (h : Heap κ σ) (t : HV σ) (s : Nat) :
    Except HErr (Heap κ σ × HV σ) :=
  match t with
  | .ref ta =>
    (match mergeH fix fuel h ta s with
     | .error e => .error e
     | .ok h' => .ok (h', .ref ta))
  | _ =>
    if fix then
      (match deepCopyH fuel h s with
       | .error e => .error e
       | .ok (h', na) => .ok (h', .ref na))
    else
      (match h[s]? with
       | none => .error .dangling
       | some so => .ok (h ++ [so], .ref h.length))

/-- `LanguageConfig.update_section(name, data)` on the `_sections` object at `c`, `data` the `dict` at `s`. -/
def updateSectionH (fix : Bool) (fuel : Nat) (h : Heap κ σ) (c : Nat) (name : κ) (s : Nat) :
    Except HErr (Heap κ σ) :=
  mergeChildH (mergeH fix fuel) (deepCopyH fuel) fix h c name s

/-- A sequence of merges into the same target `dict` (files in call order, then overrides). -/
def mergeAllH (fix : Bool) (fuel : Nat) (h : Heap κ σ) (t : Nat) : List Nat → Except HErr (Heap κ σ)
  | [] => .ok h
  | s :: ss =>
    match mergeH fix fuel h t s with
    | .error e => .error e
    | .ok h1 => mergeAllH fix fuel h1 t ss

/-- A sequence of `update_section(name, data)` calls on one `LanguageConfig` (everything a builder does to
its configuration: built-in documents, files, `create()`). -/
def updateAllH (fix : Bool) (fuel : Nat) (h : Heap κ σ) (c : Nat) : List (κ × Nat) → Except HErr (Heap κ σ)
  | [] => .ok h
  | (name, s) :: rest =>
    match updateSectionH fix fuel h c name s with
    | .error e => .error e
    | .ok h1 => updateAllH fix fuel h1 c rest

/-! ### reading a heap -/

/-- One entry of an object while reading it back as a value. -/
def unfoldStep (rec : HV σ → Option (V κ σ)) (e : κ × HV σ) (acc : Option (M κ σ)) : Option (M κ σ) :=
  match acc, rec e.2 with
  | some m, some v => some (.cons e.1 v m)
  | _, _ => none

/-- The value below a reference (`none`: fuel exhausted or dangling). -/
def unfoldH : Nat → Heap κ σ → HV σ → Option (V κ σ)
  | _, _, .scalar x => some (.scalar x)
  | _, _, .dflt x => some (.dflt x)
  | _, _, .list xs => some (.list xs)
  | 0, _, .ref _ => none
  | fuel + 1, h, .ref a =>
    match h[a]? with
    | none => none
    | some o => (o.foldr (unfoldStep (unfoldH fuel h)) (some .nil)).map V.map

/-- Addresses of the `dict` objects reachable from a reference (with repetitions), depth-bounded. -/
def reachH : Nat → Heap κ σ → HV σ → List Nat
  | 0, _, _ => []
  | fuel + 1, h, .ref a =>
    a :: (match h[a]? with
          | none => []
          | some o => o.flatMap fun e => reachH fuel h e.2)
  | _ + 1, _, _ => []

/-- Allocate a value as a tree of fresh objects ("parse a YAML document"); returns the entry to store. -/
def allocV : Heap κ σ → V κ σ → Heap κ σ × HV σ
  | h, .scalar x => (h, .scalar x)
  | h, .dflt x => (h, .dflt x)
  | h, .list xs => (h, .list xs)
  | h, .map m =>
    let r := allocM h m
    (r.1 ++ [r.2], .ref r.1.length)
where
  allocM : Heap κ σ → M κ σ → Heap κ σ × Obj κ σ
    | h, .nil => (h, [])
    | h, .cons k v rest =>
      let r1 := allocV h v
      let r2 := allocM r1.1 rest
      (r2.1, (k, r1.2) :: r2.2)

end NunavutVerif.Config
