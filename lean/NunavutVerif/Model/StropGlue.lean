import NunavutVerif.Model.Strop
/-!
# The glue around `TokenEncoder.strop` (C09, round 2)

What stands between a language configuration and an answer of `Language.filter_id`:

* **A — assembly** (`TokenEncoder.__init__`, `_get_map_of_type_to_lists_of_patterns`, the `LanguageConfig` getters of
  `lang/_config.py`, `LanguageContextBuilder.create` → `LanguageConfig.update_section` → `deep_update`): a configuration
  section (what `yaml.load` + `LanguageConfig.update` leave in `LanguageConfig._sections`) and the language class's own
  additions (`additional_reserved_identifiers`, the failure handlers) ↦ the encoder's tables.
  `list` objects live on an explicit heap (address = index): the YAML alias `*nunavut_lang_c_reserved_identifiers` makes the
  `c` and the `cpp` section hold **the same** list object, `deep_update` assigns lists by reference, and an encoder built
  without additions holds that very object in `_reserved_identifiers`.  `newEncoder` allocates (`a + b`) and never writes;
  `newEncoderExtendInPlace` (`a += b`) is kept as the foil for the non-vacuity examples.
* **B — the wrapper** `Language.filter_id`: `default_filter_id_for_target` (`str(instance.name)` if the instance has a
  `name` attribute else `str(instance)`), then `strop`; the base class (js, html) returns the raw name.
* **C — the caches** as a state machine: `cached_property _token_encoder` per `Language` object (the encoder is built at
  the first call from the configuration as it is then) and `functools.lru_cache(maxsize=1024)` on `TokenEncoder.strop`,
  one cache per process, key `(encoder object, token, token_type as passed)`, exceptions are not cached, a miss is
  counted before the call (CPython `bounded_lru_cache_wrapper`), least recently used entry evicted when full.

Core Lean only.
-/
namespace NunavutVerif.StropGlue
open NunavutVerif.Regex NunavutVerif.Strop

deriving instance DecidableEq for Cfg

/-! ## A. configuration objects -/

/-- the `list` objects of the process; address = index; only ever appended to by the code as it is -/
abbrev Heap := List (List Str)

/-- a value that is not a mapping -/
inductive Leaf where
  | str (s : Str)
  | null                -- YAML `key:` / `null` / `~`
  | bool (b : Bool)
  | num (n : Nat)       -- YAML integer ≥ 0
  | list (a : Nat)      -- reference to a list object
  | other               -- anything else (a nested mapping inside a mapping, a float, …): never read by the encoder
deriving DecidableEq, Repr

inductive CVal where
  | leaf (l : Leaf)
  | dict (es : List (Str × Leaf))
deriving DecidableEq, Repr

/-- one section of `LanguageConfig._sections` (a `dict`: keys unique, insertion ordered) -/
abbrev Section := List (Str × CVal)

inductive AErr where
  | keyError        -- KeyError: no section / no such key and no default
  | anyKeyReserved  -- RuntimeError "'any' key is reserved and cannot be used in configuration."
  | reError         -- re.error from re.compile
  | dangling        -- a reference outside the heap (excluded by `Section.wf`; never produced by `load`)
  | unsupported     -- a value the model does not describe (str() of a list / mapping, a non-list in a pattern map)
deriving DecidableEq, Repr

instance instDecEqExcept {ε α : Type} [DecidableEq ε] [DecidableEq α] : DecidableEq (Except ε α) := fun a b =>
  match a, b with
  | .ok x, .ok y => if h : x = y then isTrue (by rw [h]) else isFalse (by intro e; cases e; exact h rfl)
  | .error x, .error y => if h : x = y then isTrue (by rw [h]) else isFalse (by intro e; cases e; exact h rfl)
  | .ok _, .error _ => isFalse (by intro e; cases e)
  | .error _, .ok _ => isFalse (by intro e; cases e)

def aget {α : Type} (m : List (Str × α)) (k : Str) : Option α :=
  match m with
  | [] => none
  | (k', v) :: rest => if k' = k then some v else aget rest k

/-- `d[k] = v` on an insertion-ordered `dict` -/
def dset {α : Type} (m : List (Str × α)) (k : Str) (v : α) : List (Str × α) :=
  match m with
  | [] => [(k, v)]
  | (k', v') :: rest => if k' = k then (k', v) :: rest else (k', v') :: dset rest k v

/-! ### `str(x)` -/

def decCore : Nat → Nat → Str → Str
  | 0, _, acc => acc
  | fuel + 1, n, acc =>
    let acc' := (48 + n % 10) :: acc
    if n / 10 = 0 then acc' else decCore fuel (n / 10) acc'

/-- `str(n)` for `n ≥ 0` -/
def decimal (n : Nat) : Str := decCore (n + 1) n []

def sTrue : Str := [84, 114, 117, 101]            -- "True"
def sFalse : Str := [70, 97, 108, 115, 101]       -- "False"
def sNone : Str := [78, 111, 110, 101]            -- "None"
def sfalse : Str := [102, 97, 108, 115, 101]      -- "false"
def strue : Str := [116, 114, 117, 101]           -- "true"
def tyAny : Str := [97, 110, 121]                 -- "any"

/-- `LanguageConfig.get_config_value`: `str(value) if value is not None else ""` -/
def leafStr : Leaf → Option Str
  | .str s => some s
  | .null => some []
  | .bool true => some sTrue
  | .bool false => some sFalse
  | .num n => some (decimal n)
  | .list _ => none
  | .other => none

/-- `get_config_value(key, default)` (`default = none`: raises `KeyError` when the key is missing) -/
def getStr (sec : Section) (k : Str) (dflt : Option Str) : Except AErr Str :=
  match aget sec k with
  | none => (match dflt with | some d => .ok d | none => .error .keyError)
  | some (.leaf l) => (match leafStr l with | some s => .ok s | none => .error .unsupported)
  | some (.dict _) => .error .unsupported

/-- `get_config_value_as_bool(key, default)`: `"false"` (any case) and `"0"` are false, else `bool(str)` -/
def getBool (sec : Section) (k : Str) (dflt : Bool) : Except AErr Bool :=
  match getStr sec k (some (if dflt then strue else sfalse)) with
  | .error e => .error e
  | .ok s => .ok (if lowerAscii s = sfalse ∨ s = [48] then false else !s.isEmpty)

/-- `get_config_value_as_list(key, default_value=[])`: the list object itself, or `none` = the (fresh) default -/
def getList (sec : Section) (k : Str) : Option Nat :=
  match aget sec k with
  | some (.leaf (.list a)) => some a
  | _ => none

/-- `get_config_value_as_dict(key, default_value={})` -/
def getDict (sec : Section) (k : Str) : List (Str × Leaf) :=
  match aget sec k with
  | some (.dict es) => es
  | _ => []

/-! ### `TokenEncoder._get_map_of_type_to_lists_of_patterns` -/

def compileAll (compile : Str → Option Re) : List Str → Option (List Re)
  | [] => some []
  | s :: rest =>
    match compile s, compileAll compile rest with
    | some r, some rs => some (r :: rs)
    | _, _ => none

/-- the loop over `map_of_list_of_strings.items()`; `m` = the map so far, `anyl` = `any_patterns` -/
def buildMap (compile : Str → Option Re) (h : Heap) :
    List (Str × Leaf) → List (Str × List Re) → List Re → Except AErr (List (Str × List Re))
  | [], m, anyl => .ok (dset m tyAny anyl)
  | (k, .list a) :: rest, m, anyl =>
    (match h[a]? with
     | none => .error .dangling
     | some srcs =>
       match compileAll compile srcs with
       | none => .error .reError
       | some ps =>
         if lowerAscii k = tyAny then .error .anyKeyReserved
         else buildMap compile h rest (dset m (lowerAscii k) ps) (anyl ++ ps))
  | (_, _) :: _, _, _ => .error .unsupported

/-! ### `TokenEncoder.__init__` -/

/-- what the language class itself contributes (Python code, regenerated by the translator) -/
structure LangCode where
  strops : Bool                         -- the class overrides `filter_id` with default_filter_id_for_target + strop
  additional : Option (List Str)        -- `additional_reserved_identifiers=`
  stropHandler : Handler
  encHandler : Handler
deriving DecidableEq, Repr

/-- a `TokenEncoder` object -/
structure Enc where
  reserved : Nat                        -- the list object held in `_reserved_identifiers`
  stropPrefix : Str
  stropSuffix : Str
  encPrefix : Str
  wsChar : Option Str
  collapse : Bool
  patterns : List (Str × List Re)
  rules : List (Str × List Re)
  stropHandler : Handler
  encHandler : Handler
deriving DecidableEq, Repr

def kPatterns : Str := [114, 101, 115, 101, 114, 118, 101, 100, 95, 116, 111, 107, 101, 110, 95, 112, 97, 116, 116, 101, 114,
  110, 115, 95, 98, 121, 95, 116, 121, 112, 101]                    -- "reserved_token_patterns_by_type"
def kRules : Str := [116, 111, 107, 101, 110, 95, 101, 110, 99, 111, 100, 105, 110, 103, 95, 114, 117, 108, 101, 115, 95, 98,
  121, 95, 105, 100, 101, 110, 116, 105, 102, 105, 101, 114, 95, 116, 121, 112, 101]  -- "token_encoding_rules_by_identifier_type"
def kReserved : Str := [114, 101, 115, 101, 114, 118, 101, 100, 95, 105, 100, 101, 110, 116, 105, 102, 105, 101, 114, 115]
def kStropPrefix : Str := [115, 116, 114, 111, 112, 112, 105, 110, 103, 95, 112, 114, 101, 102, 105, 120]
def kStropSuffix : Str := [115, 116, 114, 111, 112, 112, 105, 110, 103, 95, 115, 117, 102, 102, 105, 120]
def kEncPrefix : Str := [101, 110, 99, 111, 100, 105, 110, 103, 95, 112, 114, 101, 102, 105, 120]
def kWsChar : Str := [119, 104, 105, 116, 101, 115, 112, 97, 99, 101, 95, 101, 110, 99, 111, 100, 105, 110, 103, 95, 99, 104,
  97, 114]                                                          -- "whitespace_encoding_char"
def kCollapse : Str := [99, 111, 108, 108, 97, 112, 115, 101, 95, 119, 104, 105, 116, 101, 115, 112, 97, 99, 101, 95, 119, 104,
  101, 110, 95, 101, 110, 99, 111, 100, 105, 110, 103]              -- "collapse_whitespace_when_encoding"

/-- `self._reserved_identifiers = get_config_value_as_list(...)`, then `= self._reserved_identifiers + additional`:
the address the encoder holds and the heap afterwards.  `inPlace`: the `+=` variant (NOT the code; foil). -/
def withAdditional (inPlace : Bool) (h : Heap) (a : Nat) (base : List Str) (additional : Option (List Str)) : Nat × Heap :=
  match additional with
  | none => (a, h)
  | some add => if inPlace then (a, h.set a (base ++ add)) else (h.length, h ++ [base ++ add])

def reservedObject (inPlace : Bool) (h : Heap) (sec : Section) (additional : Option (List Str)) : Except AErr (Nat × Heap) :=
  match getList sec kReserved with
  | some a =>
    (match h[a]? with
     | none => .error .dangling
     | some base => .ok (withAdditional inPlace h a base additional))
  | none => .ok (withAdditional inPlace (h ++ [[]]) h.length [] additional)   -- the default value: a fresh `[]`

/-- the scalar settings, in the order `__init__` reads them -/
structure Scalars where
  stropPrefix : Str
  stropSuffix : Str
  encPrefix : Str
  wsChar : Option Str
  collapse : Bool
deriving DecidableEq, Repr

def readScalars (sec : Section) : Except AErr Scalars :=
  match getStr sec kStropPrefix (some []) with
  | .error e => .error e
  | .ok pre =>
  match getStr sec kStropSuffix (some []) with
  | .error e => .error e
  | .ok suf =>
  match getStr sec kEncPrefix (some []) with
  | .error e => .error e
  | .ok encp =>
  -- `try: get_config_value("whitespace_encoding_char") except KeyError: None`
  match (match getStr sec kWsChar none with
         | .ok w => Except.ok (some w)
         | .error .keyError => .ok none
         | .error e => .error e) with
  | .error e => .error e
  | .ok ws =>
  match getBool sec kCollapse false with
  | .error e => .error e
  | .ok col => .ok ⟨pre, suf, encp, ws, col⟩

/-- `TokenEncoder(language, additional_reserved_identifiers, stropping_failure_handler, encoding_failure_handler)` -/
def newEncoderG (inPlace : Bool) (compile : Str → Option Re) (h : Heap) (sec : Section) (lc : LangCode) :
    Except AErr (Enc × Heap) :=
  match buildMap compile h (getDict sec kPatterns) [] [] with
  | .error e => .error e
  | .ok pats =>
  match buildMap compile h (getDict sec kRules) [] [] with
  | .error e => .error e
  | .ok rules =>
  match reservedObject inPlace h sec lc.additional with
  | .error e => .error e
  | .ok (ra, h') =>
  match readScalars sec with
  | .error e => .error e
  | .ok sc =>
    .ok ({ reserved := ra, stropPrefix := sc.stropPrefix, stropSuffix := sc.stropSuffix, encPrefix := sc.encPrefix,
           wsChar := sc.wsChar, collapse := sc.collapse, patterns := pats, rules := rules,
           stropHandler := lc.stropHandler, encHandler := lc.encHandler }, h')

def newEncoder := newEncoderG false
/-- NOT the code: `self._reserved_identifiers += additional_reserved_identifiers` -/
def newEncoderExtendInPlace := newEncoderG true

/-- what `strop` sees of an encoder *now*: the list object is read through the heap -/
def Enc.cfg (space : List (Nat × Nat)) (h : Heap) (e : Enc) : Cfg where
  reserved := (h[e.reserved]?).getD []
  stropPrefix := e.stropPrefix
  stropSuffix := e.stropSuffix
  encPrefix := e.encPrefix
  wsChar := e.wsChar
  collapse := e.collapse
  patterns := e.patterns
  rules := e.rules
  stropHandler := e.stropHandler
  encHandler := e.encHandler
  space := space

/-- configuration ↦ tables, in one step (what the theorems about the shipped languages state) -/
def assemble (space : List (Nat × Nat)) (compile : Str → Option Re) (h : Heap) (sec : Section) (lc : LangCode) :
    Except AErr Cfg :=
  match newEncoder compile h sec lc with
  | .error e => .error e
  | .ok (e, h') => .ok (e.cfg space h')

/-- the contents of the list object `reservedObject` hands to the encoder -/
def resolvedReserved (h : Heap) (sec : Section) (additional : Option (List Str)) : Except AErr (List Str) :=
  match getList sec kReserved with
  | some a =>
    (match h[a]? with
     | none => .error .dangling
     | some base => .ok (base ++ additional.getD []))
  | none => .ok (additional.getD [])

/-- `assemble` in closed form: no allocation, the tables as a function of the section and of the contents of the list
objects it refers to (equal to `assemble`: `assemble_eq_closed`) -/
def assembleClosed (space : List (Nat × Nat)) (compile : Str → Option Re) (h : Heap) (sec : Section) (lc : LangCode) :
    Except AErr Cfg :=
  match buildMap compile h (getDict sec kPatterns) [] [] with
  | .error e => .error e
  | .ok pats =>
  match buildMap compile h (getDict sec kRules) [] [] with
  | .error e => .error e
  | .ok rules =>
  match resolvedReserved h sec lc.additional with
  | .error e => .error e
  | .ok res =>
  match readScalars sec with
  | .error e => .error e
  | .ok sc =>
    .ok { reserved := res, stropPrefix := sc.stropPrefix, stropSuffix := sc.stropSuffix, encPrefix := sc.encPrefix,
          wsChar := sc.wsChar, collapse := sc.collapse, patterns := pats, rules := rules,
          stropHandler := lc.stropHandler, encHandler := lc.encHandler, space := space }

/-- several encoders one after the other (failed constructions leave no trace): the heap afterwards -/
def buildAll (compile : Str → Option Re) : Heap → List (Section × LangCode) → Heap
  | h, [] => h
  | h, (sec, lc) :: rest =>
    match newEncoder compile h sec lc with
    | .ok (_, h') => buildAll compile h' rest
    | .error _ => buildAll compile h rest

/-! ### references of a section, well-formedness -/

def leafRefs : Leaf → List Nat
  | .list a => [a]
  | _ => []

def valRefs : CVal → List Nat
  | .leaf l => leafRefs l
  | .dict es => es.flatMap (fun e => leafRefs e.2)

def secRefs (sec : Section) : List Nat := sec.flatMap (fun e => valRefs e.2)

/-- every list reference of the section is an object of the heap -/
def secWf (n : Nat) (sec : Section) : Bool := (secRefs sec).all (· < n)

/-! ### loading a document, configuration overrides -/

/-- what `yaml.load` returns for the defaults file: the list objects (an alias = the same index) and the sections -/
structure Doc where
  cells : Heap
  sections : List (Str × Section)
deriving DecidableEq, Repr

def relocLeaf (off : Nat) : Leaf → Leaf
  | .list a => .list (a + off)
  | l => l

def relocVal (off : Nat) : CVal → CVal
  | .leaf l => .leaf (relocLeaf off l)
  | .dict es => .dict (es.map (fun e => (e.1, relocLeaf off e.2)))

def relocSec (off : Nat) (sec : Section) : Section := sec.map (fun e => (e.1, relocVal off e.2))

/-- a value of `set_target_language_configuration_override` (contents; the list objects are allocated by `load`) -/
inductive OVal where
  | str (s : Str)
  | bool (b : Bool)
  | num (n : Nat)
  | list (xs : List Str)
  | dict (es : List (Str × List Str))
deriving DecidableEq, Repr

/-- allocate the lists of a mapping-valued override -/
def allocEntries : Heap → List (Str × List Str) → Heap × List (Str × Leaf)
  | h, [] => (h, [])
  | h, (k, xs) :: rest =>
    let r := allocEntries (h ++ [xs]) rest
    (r.1, (k, Leaf.list h.length) :: r.2)

/-- `for key, value in source.items(): DefaultValue.assign_to_if_not_default(target, key, value)` (no `DefaultValue`s) -/
def mergeEntries (target : List (Str × Leaf)) : List (Str × Leaf) → List (Str × Leaf)
  | [] => target
  | (k, v) :: rest => mergeEntries (dset target k v) rest

/-- `deep_update(section, overrides)`, one item: a mapping is merged into an existing mapping key by key (lists
assigned by reference) or, where the section has no mapping under that key, becomes a new mapping; anything else is
assigned. -/
def applyOverride (h : Heap) (sec : Section) (k : Str) (v : OVal) : Heap × Section :=
  match v with
  | .str s => (h, dset sec k (.leaf (.str s)))
  | .bool b => (h, dset sec k (.leaf (.bool b)))
  | .num n => (h, dset sec k (.leaf (.num n)))
  | .list xs => (h ++ [xs], dset sec k (.leaf (.list h.length)))
  | .dict es =>
    let r := allocEntries h es
    (match aget sec k with
     | some (.dict old) => (r.1, dset sec k (.dict (mergeEntries old r.2)))
     | _ => (r.1, dset sec k (.dict (mergeEntries [] r.2))))

def applyOverrides : Heap → Section → List (Str × OVal) → Heap × Section
  | h, sec, [] => (h, sec)
  | h, sec, (k, v) :: rest =>
    let r := applyOverride h sec k v
    applyOverrides r.1 r.2 rest

/-! ## B. `Language.filter_id` -/

inductive Atom where
  | text (s : Str)
  | int (neg : Bool) (n : Nat)      -- `-n` when `neg`
  | bool (b : Bool)
  | none
deriving DecidableEq, Repr

/-- the `instance` argument: a plain value, or an object with a `name` attribute -/
inductive Inst where
  | plain (a : Atom)
  | named (name : Atom)
deriving DecidableEq, Repr

/-- `str(x)` -/
def atomStr : Atom → Str
  | .text s => s
  | .int neg n => if neg ∧ n ≠ 0 then 45 :: decimal n else decimal n
  | .bool true => sTrue
  | .bool false => sFalse
  | .none => sNone

/-- `Language.default_filter_id_for_target` -/
def rawName : Inst → Str
  | .plain a => atomStr a
  | .named a => atomStr a

/-- `Language.filter_id(instance, id_type)` of a language whose encoder has the tables `cfg` -/
def filterId (strops : Bool) (cfg : Cfg) (i : Inst) (ty : Str) : Except Err Str :=
  if strops then strop cfg (rawName i) ty else .ok (rawName i)

/-- a place where an identifier category reaches `filter_id` (regenerated from templates and Python sources) -/
structure Site where
  lang : Str                 -- language the site belongs to
  ty : Str                   -- the literal id type (`any` when the argument is left out)
deriving DecidableEq, Repr

/-- the configuration with everything but the `all` entries dropped -/
def allOnly (cfg : Cfg) : Cfg :=
  { cfg with patterns := (match lookup cfg.patterns tyAll with | some v => [(tyAll, v)] | none => []),
             rules := (match lookup cfg.rules tyAll with | some v => [(tyAll, v)] | none => []) }

/-- the id type has no entry of its own, neither patterns nor rules -/
def unknownType (cfg : Cfg) (ty : Str) : Bool :=
  (lookup cfg.patterns (lowerAscii ty)).isNone && (lookup cfg.rules (lowerAscii ty)).isNone

/-! ## C. the caches -/

/-- a `LanguageContext`: its configuration and the `Language` objects whose `_token_encoder` exists already -/
structure Ctx where
  sections : List (Str × Section)
  encs : List (Str × Nat)               -- language name ↦ encoder object (index into `Proc.encoders`)
deriving DecidableEq, Repr

abbrev Key := Nat × Str × Str           -- (encoder object, token, token_type as passed)

structure Proc where
  heap : Heap
  ctxs : List Ctx
  encoders : List Enc
  lru : List (Key × Str)                -- most recently used first
  hits : Nat
  misses : Nat
deriving DecidableEq, Repr

def Proc.init : Proc := { heap := [], ctxs := [], encoders := [], lru := [], hits := 0, misses := 0 }

/-- the fixed environment: interpreter table, regex compiler, cache size, defaults document, language classes -/
structure Env where
  space : List (Nat × Nat)
  compile : Str → Option Re
  maxsize : Nat
  doc : Doc
  code : Str → Option LangCode

/-- `LanguageContextBuilder().set_target_language(t).set_target_language_configuration_override(...)….create()`:
a new `LanguageConfig` loaded from the defaults document (fresh list objects), the overrides merged into the target's
section. -/
def load (env : Env) (p : Proc) (target : Str) (ov : List (Str × OVal)) : Except AErr Proc :=
  let off := p.heap.length
  let h0 := p.heap ++ env.doc.cells
  let secs := env.doc.sections.map (fun e => (e.1, relocSec off e.2))
  match aget secs target with
  | none => .error .keyError
  | some tsec =>
    let r := applyOverrides h0 tsec ov
    .ok { p with heap := r.1, ctxs := p.ctxs ++ [{ sections := dset secs target r.2, encs := [] }] }

/-- The configuration of a new context taken on its own (as in a process that does nothing else): the document's list
objects followed by the overrides' list objects, the sections with the target's overrides merged in. -/
def standalone (env : Env) (target : Str) (ov : List (Str × OVal)) : Option (Heap × List (Str × Section)) :=
  match aget env.doc.sections target with
  | none => none
  | some tsec =>
    let r := applyOverrides env.doc.cells tsec ov
    some (r.1, dset env.doc.sections target r.2)

def lruFind (l : List (Key × Str)) (k : Key) : Option Str :=
  match l with
  | [] => none
  | (k', v) :: rest => if k' = k then some v else lruFind rest k

def lruRemove (l : List (Key × Str)) (k : Key) : List (Key × Str) := l.filter (fun e => e.1 ≠ k)

inductive UErr where
  | noContext | noLanguage
  | assembly (e : AErr)
  | strop (e : Err)
deriving DecidableEq, Repr

/-- what a call shows: the answer, whether the encoder was built by this call, whether the cache answered -/
structure Obs where
  result : Except UErr Str
  built : Bool
  hit : Bool
deriving DecidableEq, Repr

/-- `cached_property _token_encoder` of the `Language` object (context `ci`, language `lang`): the encoder object,
the process afterwards, whether this call built it -/
def getEncoder (env : Env) (p : Proc) (ci : Nat) (ctx : Ctx) (lang : Str) (sec : Section) (lc : LangCode) :
    Except AErr (Nat × Proc × Bool) :=
  match aget ctx.encs lang with
  | some ei => .ok (ei, p, false)
  | none =>
    match newEncoder env.compile p.heap sec lc with
    | .error e => .error e
    | .ok (enc, h') =>
      .ok (p.encoders.length,
           { p with heap := h', encoders := p.encoders ++ [enc],
                    ctxs := p.ctxs.set ci { ctx with encs := dset ctx.encs lang p.encoders.length } }, true)

/-- `functools.lru_cache(maxsize)` around `TokenEncoder.strop(self, token, token_type)` -/
def cachedStrop (env : Env) (p : Proc) (ei : Nat) (enc : Enc) (raw ty : Str) : Proc × Except Err Str × Bool :=
  let key : Key := (ei, raw, ty)
  match lruFind p.lru key with
  | some r => ({ p with lru := (key, r) :: lruRemove p.lru key, hits := p.hits + 1 }, .ok r, true)
  | none =>
    match strop (enc.cfg env.space p.heap) raw ty with
    | .error e => ({ p with misses := p.misses + 1 }, .error e, false)
    | .ok r => ({ p with lru := ((key, r) :: p.lru).take env.maxsize, misses := p.misses + 1 }, .ok r, false)

/-- `ctx.get_language(lang).filter_id(inst, ty)` -/
def use (env : Env) (p : Proc) (ci : Nat) (lang : Str) (inst : Inst) (ty : Str) : Proc × Obs :=
  match p.ctxs[ci]? with
  | none => (p, ⟨.error .noContext, false, false⟩)
  | some ctx =>
  match aget ctx.sections lang, env.code lang with
  | some sec, some lc =>
    if !lc.strops then (p, ⟨.ok (rawName inst), false, false⟩) else
    (match getEncoder env p ci ctx lang sec lc with
     | .error e => (p, ⟨.error (.assembly e), false, false⟩)
     | .ok (ei, p1, built) =>
       match p1.encoders[ei]? with
       | none => (p1, ⟨.error .noLanguage, built, false⟩)
       | some enc =>
         match cachedStrop env p1 ei enc (rawName inst) ty with
         | (p2, .ok r, hit) => (p2, ⟨.ok r, built, hit⟩)
         | (p2, .error e, hit) => (p2, ⟨.error (.strop e), built, hit⟩))
  | _, _ => (p, ⟨.error .noLanguage, false, false⟩)

inductive Op where
  | load (target : Str) (ov : List (Str × OVal))
  | use (ci : Nat) (lang : Str) (inst : Inst) (ty : Str)
deriving DecidableEq, Repr

/-- one step; a failing `load` leaves the process as it was -/
def step (env : Env) (p : Proc) : Op → Proc
  | .load t ov => (match load env p t ov with | .ok p' => p' | .error _ => p)
  | .use ci lang inst ty => (use env p ci lang inst ty).1

def run (env : Env) : Proc → List Op → Proc
  | p, [] => p
  | p, op :: rest => run env (step env p op) rest

/-- The specification: the answer as a function of (configuration of the context, language, instance, id type) alone —
a fresh encoder on the context's section, no cache. -/
def pureAnswer (env : Env) (h : Heap) (sections : List (Str × Section)) (lang : Str) (inst : Inst) (ty : Str) :
    Except UErr Str :=
  match aget sections lang, env.code lang with
  | some sec, some lc =>
    if !lc.strops then .ok (rawName inst) else
    (match assemble env.space env.compile h sec lc with
     | .error e => .error (.assembly e)
     | .ok cfg =>
       match strop cfg (rawName inst) ty with
       | .error e => .error (.strop e)
       | .ok r => .ok r)
  | _, _ => .error .noLanguage

end NunavutVerif.StropGlue
