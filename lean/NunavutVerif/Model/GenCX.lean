import NunavutVerif.Model.GenC
/-!
# GenCX — the generated C codecs with addresses and with the capacity-override option (C01, C02, C04; round 2)

`Model/GenC.lean` has neither pointer *addresses* nor `--enable-override-variable-array-capacity`.  This file adds
both as an extension record `Ext` threaded through a second transcription of the same templates
(`serAnyX`, `deAnyX`, … mirror `serAny`, `deAny`, … clause by clause; the support primitives are still the C14 models).

## Addresses
`nunavutCopyBits(dst, dst_offset_bits, length_bits, src, src_offset_bits)` (support/serialization.j2) contains three
assertions about the *addresses* `src`, `dst` (compiled with `enable_serialization_asserts`):
```
NUNAVUT_ASSERT((length_bits == 0U) || (src != dst));                                   -- head, both branches
-- unaligned branch only (psrc = src, pdst = dst):
NUNAVUT_ASSERT(((length_bits > 0U) && (psrc < pdst)) ? ((uintptr_t)(psrc + ((src_offset_bits + length_bits + 7U) / 8U)) <= (uintptr_t)pdst) : 1);
NUNAVUT_ASSERT(((length_bits > 0U) && (psrc > pdst)) ? ((uintptr_t)(pdst + ((dst_offset_bits + length_bits + 7U) / 8U)) <= (uintptr_t)psrc) : 1);
```
(`length_bits > 0U &&` since /repo 443d39c, `Ext.fixed = false` is the text before it; `(length_bits == 0U) ||` since
/repo 23731cd, `Ext.headGuarded = false` is the unguarded `src != dst` before it).  Every call the generated
code makes pairs the serialization buffer pointer of the current function (`buffer` = address `pb`: the user's buffer or
`&buffer[offset_bits / 8U]` of an enclosing function) with one *other* object: the `value`/`tmp` local of
`nunavutSetUxx`, the `val`/`tmp` local of `nunavutGetU8…64`, a member array of the object (source of the bulk copy in
serialization, destination of `nunavutGetBits`).  `Ext.adr kind pb off sz` is the address of that other object (`sz` bytes)
for the call made with buffer pointer `pb` at bit offset `off`: an arbitrary function — a *placement*.  The theorems
assume only that each such object is an interval disjoint from the user's buffer (`Placed`), nothing about order or
distance.  (`src != NULL`, `dst != NULL`, `buf != NULL` are not modelled: addresses are not compared with 0.)

## Capacity override
With `enable_override_variable_array_capacity` the header of `T` has, per variable-length array field `f`,
`#ifndef T_f_ARRAY_CAPACITY_ / #define T_f_ARRAY_CAPACITY_ <DSDL capacity> / #elif !defined(T_DISABLE_SERIALIZATION_BUFFER_CHECK_)
/ #define T_DISABLE_SERIALIZATION_BUFFER_CHECK_ / #endif`, `#error` when the macro exceeds the DSDL capacity, the member
array `elements[T_f_ARRAY_CAPACITY_]` (bit arrays keep `bitpacked[ceil(DSDL capacity / 8)]`), the count checks of both
directions compare with `sizeof(elements) / sizeof(elements[0])` for non-bool arrays (the DSDL capacity literal for bit
arrays), and the up-front `8 * capacity_bytes < max` check of `_serialize_impl` is inside
`#ifndef T_DISABLE_SERIALIZATION_BUFFER_CHECK_`.  Nothing else changes: length-prefix width, static offsets, maximal
sizes, nested buffer sizes are those of the DSDL capacity.  `Ext.ovr` switches this on, `Ext.ucap elem c` is the user's
capacity for an array of `elem` with DSDL capacity `c` (arrays are identified by element type and capacity: two
fields of the same shape get the same value), `Ext.noCheck` says the buffer check is compiled out.
-/
namespace NunavutVerif.GenC
open NunavutVerif.Dsdl NunavutVerif.Bits

/-- the object a `nunavutCopyBits` call of the generated code pairs the serialization buffer with -/
inductive Other where
  /-- `value` / `tmp[8]` of `nunavutSetUxx` (8 bytes) -/
  | setTmp
  /-- `val` / `tmp[W/8]` of `nunavutGetU8…64` -/
  | getTmp
  /-- member array read by the bulk copy of `_serialize_*_array` -/
  | memSrc
  /-- member array written by `nunavutGetBits` in `_deserialize_*_array` -/
  | memDst
  deriving DecidableEq, Repr

structure Ext where
  /-- the address-dependent assertions of `nunavutCopyBits` are evaluated (needs `Opts.asserts` too) -/
  addrs : Bool := false
  /-- placement: address of the other object (`sz` bytes) of the call with buffer pointer `pb` at bit offset `off` -/
  adr : Other → (pb off sz : Nat) → Nat := fun _ _ _ _ => 0
  /-- overlap assertions as emitted since 443d39c (`length_bits > 0U &&`); `false`: the text before -/
  fixed : Bool := true
  /-- `src != dst` only demanded of copies of at least one bit (the text since 23731cd); `false`: the text before -/
  headGuarded : Bool := true
  /-- `enable_override_variable_array_capacity` -/
  ovr : Bool := false
  /-- the user's `<T>_<f>_ARRAY_CAPACITY_` for an array of this element type and DSDL capacity -/
  ucap : Ty → Nat → Nat := fun _ c => c
  /-- `<T>_DISABLE_SERIALIZATION_BUFFER_CHECK_` is defined -/
  noCheck : Bool := false

/-- the two overlap assertions of the unaligned branch -/
def ovlOK (fixed : Bool) (pd dOff len ps sOff : Nat) : Bool :=
  (if (fixed = true → len > 0) ∧ ps < pd then decide (ps + (sOff + len + 7) / 8 ≤ pd) else true) &&
  (if (fixed = true → len > 0) ∧ ps > pd then decide (pd + (dOff + len + 7) / 8 ≤ ps) else true)

/-- all address assertions of one `nunavutCopyBits(pd, dOff, len, ps, sOff)` hold -/
def copyAsserts (X : Ext) (pd dOff len ps sOff : Nat) : Bool :=
  ((X.headGuarded && len == 0) || ps != pd) &&
  ((sOff % 8 == 0 && dOff % 8 == 0) || ovlOK X.fixed pd dOff len ps sOff)

/-- the address assertions in front of the rest `k` of a `nunavutCopyBits` call -/
def cpGuard {α : Type} (o : Opts) (X : Ext) (pd dOff len ps sOff : Nat) (k : Except Err α) : Except Err α :=
  if o.asserts = true ∧ X.addrs = true ∧ copyAsserts X pd dOff len ps sOff = false then .error .assert else k

/-! ## primitives with their `nunavutCopyBits` call guarded -/

/-- `err = nunavutSetUxx(buffer, capacity, off, value, len); if (err < 0) return err;` -/
def setUxxX (o : Opts) (X : Ext) (pb : Nat) (buf : Buf) (size off value len : Nat) : Except Err Buf :=
  if size * 8 < off + len then chk (setUxx o.little buf size off value len)
  else cpGuard o X pb off (chooseMin len 64) (X.adr .setTmp pb off 8) 0 (chk (setUxx o.little buf size off value len))

/-- `nunavutGetU8…64` -/
def getUX (o : Opts) (X : Ext) (pb : Nat) (W : Nat) (buf : Buf) (size off len : Nat) : Except Err Nat :=
  cpGuard o X (X.adr .getTmp pb off (W / 8)) 0 (saturate size off (chooseMin len W)) pb off
    (liftP (getU o.little W buf size off len))

/-- `nunavutGetI8…64` (calls `nunavutGetUW` with `sat = min(len, W)`) -/
def getIX (o : Opts) (X : Ext) (pb : Nat) (W : Nat) (buf : Buf) (size off len : Nat) : Except Err Int :=
  cpGuard o X (X.adr .getTmp pb off (W / 8)) 0 (saturate size off (chooseMin (chooseMin len W) W)) pb off
    (liftP (getI o.little W buf size off len))

/-- `nunavutGetBits(out, buffer, capacity, off, len)` -/
def getBitsX (o : Opts) (X : Ext) (pb : Nat) (out buf : Buf) (size off len : Nat) : Except Err Buf :=
  cpGuard o X (X.adr .memDst pb off out.length) 0 (saturate size off len) pb off (liftP (getBits out buf size off len))

/-- `nunavutCopyBits(&buffer[0], off, len, &member[0], 0U)` -/
def copyInX (o : Opts) (X : Ext) (pb : Nat) (buf : Buf) (off len : Nat) (src : Buf) : Except Err Buf :=
  cpGuard o X pb off len (X.adr .memSrc pb off src.length) 0 (liftP (copyBits buf off len src 0))

/-! ## Serialization -/

def padSerX (o : Opts) (X : Ext) (pb : Nat) (n : Nat) (cap : Nat) (buf : Buf) (off : Nat) : Except Err W :=
  if n > 1 ∧ off % n ≠ 0 then
    let pad := (n - off % n) % 256
    assertC o (pad > 0)
      (match setUxxX o X pb buf cap off 0 pad with
      | .error e => .error e
      | .ok b => assertC o ((off + pad) % n = 0) (.ok (b, off + pad)))
  else .ok (buf, off)

def serVoidX (o : Opts) (X : Ext) (pb : Nat) (n : Nat) (cap : Nat) (d : AOff) (buf : Buf) (off : Nat) : Except Err W :=
  if o.orc d then serVoid o n cap d buf off
  else
    match setUxxX o X pb buf cap off 0 n with
    | .error e => .error e
    | .ok b => .ok (b, off + n)

def serIntX (o : Opts) (X : Ext) (pb : Nat) (signed : Bool) (n Wd : Nat) (sat : Bool) (v : Int) (cap : Nat) (d : AOff)
    (buf : Buf) (off : Nat) : Except Err W :=
  if o.orc d ∧ n ≤ 8 then serInt o signed n Wd sat v cap d buf off
  else if o.orc d ∧ o.little then serInt o signed n Wd sat v cap d buf off
  else
    let v := if sat ∧ ¬ isStd n then satInt signed n v else v
    -- `nunavutSetIxx` is `nunavutSetUxx` of `(uint64_t) value`
    match setUxxX o X pb buf cap off (toU64 v) n with
    | .error e => .error e
    | .ok b => .ok (b, off + n)

def serFloatX (o : Opts) (X : Ext) (pb : Nat) (n : Nat) (m : Cast) (x : Nat) (cap : Nat) (d : AOff) (buf : Buf)
    (off : Nat) : Except Err W :=
  if o.orc d ∧ o.little then serFloat o n m x cap d buf off
  else
    match setUxxX o X pb buf cap off (floatBits n m x) n with
    | .error e => .error e
    | .ok b => .ok (b, off + n)

def serElemsX (o : Opts) (X : Ext) (pb : Nat) (t : Ty) (elem : Val → Buf → Nat → Except Err W) (vs : List Val)
    (storN : Nat) (post : Option (Nat × Nat)) (buf : Buf) (off : Nat) : Except Err W :=
  match t with
  | .bool =>
    match copyInX o X pb buf off vs.length (bitRep vs storN) with
    | .error e => .error e
    | .ok b => .ok (b, off + vs.length)
  | t =>
    if zeroCost o t then
      match copyInX o X pb buf off (vs.length * primBits t) (arrRep t vs storN) with
      | .error e => .error e
      | .ok b => .ok (b, off + vs.length * primBits t)
    else
      match serLoop elem vs buf off with
      | .error e => .error e
      | .ok (b, off') => assertC o (inRange (off' - off) post = true) (.ok (b, off'))

/-- `_serialize_composite`; `inner pb' sub capacity` is the nested function called with `&buffer[offset_bits / 8U]` -/
def nestedSerX (o : Opts) (X : Ext) (pb : Nat) (inner : Nat → Buf → Nat → Except Err W) (isDelim fixed : Bool)
    (minB maxB : Nat) (cap : Nat) (d : AOff) (buf : Buf) (off : Nat) : Except Err W :=
  let sizeBytes := (maxB + 7) / 8
  let pro : Except Err W :=
    if isDelim then
      if fixed then serIntX o X pb false 32 64 false (sizeBytes : Int) cap d buf off
      else .ok (buf, off + 32)
    else .ok (buf, off)
  match pro with
  | .error e => .error e
  | .ok (buf, off) =>
    assertC o (off % 8 = 0) <| assertC o (off / 8 + sizeBytes ≤ cap) <|
    match inner (pb + off / 8) (buf.drop (off / 8)) sizeBytes with
    | .error e => .error e
    | .ok (sub, size) =>
      assertC o (minB ≤ size * 8 ∧ size * 8 ≤ maxB) <|
      let buf := buf.take (off / 8) ++ sub
      let epi : Except Err Buf :=
        if isDelim ∧ ¬ fixed then
          if o.little then liftP (memmove buf ((off - 32) / 8) (objRepLE size 8) 0 4)
          else setUxxX o X pb buf cap (off - 32) size 32
        else .ok buf
      match epi with
      | .error e => .error e
      | .ok buf => assertC o (off + size * 8 ≤ cap * 8) (.ok (buf, off + size * 8))

/-- skeleton of `T_serialize_`; the up-front check is inside `#ifndef T_DISABLE_SERIALIZATION_BUFFER_CHECK_` -/
def topSerX (o : Opts) (X : Ext) (pb : Nat) (minB maxB : Nat) (body : Nat → Buf → Except Err W) (buf : Buf) (cap : Nat) :
    Except Err W :=
  if maxB = 0 then .ok (buf, 0)
  else if X.noCheck = false ∧ 8 * cap < maxB then .error eTooSmall
  else
    match body cap buf with
    | .error e => .error e
    | .ok (b, off) =>
      match padSerX o X pb 8 cap b off with
      | .error e => .error e
      | .ok (b, off) =>
        assertC o (minB ≤ off ∧ off ≤ maxB) <| assertC o (off % 8 = 0) <| .ok (b, off / 8)

def isBoolTy : Ty → Bool
  | .bool => true
  | _ => false

/-- capacity of the member array that is really there / the bound of the emitted count check -/
def effCap (X : Ext) (t : Ty) (c : Nat) : Nat := if X.ovr = true ∧ isBoolTy t = false then X.ucap t c else c

mutual
def serAnyX (o : Opts) (X : Ext) : Ty → Val → Nat → Nat → AOff → Buf → Nat → Except Err W
  | .uint n m, .int i => fun pb cap d buf off => serIntX o X pb false n (storW n) (m == .sat) i cap d buf off
  | .sint n m, .int i => fun pb cap d buf off => serIntX o X pb true n (storW n) (m == .sat) i cap d buf off
  | .float n m, .float x => fun pb cap d buf off => serFloatX o X pb n m x cap d buf off
  | .bool, .bool b => fun _ _ d buf off => serBool o b d buf off
  | .void n, .void => fun pb cap d buf off => serVoidX o X pb n cap d buf off
  | .arr t n, .arr vs => fun pb cap d buf off =>
    if vs.length = n then
      let dE := d.add (AOff.rangeRep (resBits t) (n - 1) AOff.zero)
      serElemsX o X pb t (fun v b f => anyGuard o t (some (cap * 8)) dE f (serAnyX o X t v pb cap dE b f)) vs n
        (some (n * minBits t, n * maxBits t)) buf off
    else .error .illTyped
  | .varr t c, .arr vs => fun pb cap d buf off =>
    if vs.length > effCap X t c then .error eBadArrayLength
    else
      match serIntX o X pb false (prefixBits c) 64 false (vs.length : Int) cap d buf off with
      | .error e => .error e
      | .ok (buf, off) =>
        let dE := d.add (resBits (.varr t c))
        assertC o (o.orc (d.add (AOff.single (prefixBits c))) = true → off % 8 = 0) <|
        serElemsX o X pb t (fun v b f => anyGuard o t (some (cap * 8)) dE f (serAnyX o X t v pb cap dE b f)) vs
          (effCap X t c) none buf off
  | .struct fs, .struct vs => fun pb cap d buf off =>
    nestedSerX o X pb (fun pb' => topSerX o X pb' (minBits (.struct fs)) (maxBits (.struct fs))
        (fun c b => serFieldsX o X fs vs true pb' c AOff.zero b 0))
      false (fixedLen (.struct fs)) (minBits (.struct fs)) (maxBits (.struct fs)) cap d buf off
  | .union fs, .union k v => fun pb cap d buf off =>
    nestedSerX o X pb (fun pb' => topSerX o X pb' (minBits (.union fs)) (maxBits (.union fs)) (fun c b =>
        match serIntX o X pb' false (tagBits fs.length) (tagBits fs.length) false (k : Int) c AOff.zero b 0 with
        | .error e => .error e
        | .ok (b, f) => serNthX o X fs k v pb' c (AOff.single (tagBits fs.length)) b f))
      false (fixedLen (.union fs)) (minBits (.union fs)) (maxBits (.union fs)) cap d buf off
  | .delim _ inner, v => fun pb cap d buf off =>
    nestedSerX o X pb (fun pb' => serFnX o X inner v pb') true (fixedLen inner) (minBits inner) (maxBits inner) cap d buf
      off
  | _, _ => fun _ _ _ _ _ => .error .illTyped
def serFnX (o : Opts) (X : Ext) : Ty → Val → Nat → Buf → Nat → Except Err W
  | .struct fs, .struct vs => fun pb buf cap =>
    topSerX o X pb (minBits (.struct fs)) (maxBits (.struct fs))
      (fun c b => serFieldsX o X fs vs true pb c AOff.zero b 0) buf cap
  | .union fs, .union k v => fun pb buf cap =>
    topSerX o X pb (minBits (.union fs)) (maxBits (.union fs)) (fun c b =>
        match serIntX o X pb false (tagBits fs.length) (tagBits fs.length) false (k : Int) c AOff.zero b 0 with
        | .error e => .error e
        | .ok (b, f) => serNthX o X fs k v pb c (AOff.single (tagBits fs.length)) b f) buf cap
  | .delim _ inner, v => fun pb buf cap => serFnX o X inner v pb buf cap
  | _, _ => fun _ _ _ => .error .illTyped
def serFieldsX (o : Opts) (X : Ext) : List Ty → List Val → Bool → Nat → Nat → AOff → Buf → Nat → Except Err W
  | [], [] => fun _ _ _ _ buf off => .ok (buf, off)
  | f :: fs, v :: vs => fun first pb cap d buf off =>
    let dF := d.pad (align f)
    match (if first then .ok (buf, off) else padSerX o X pb (align f) cap buf off) with
    | .error e => .error e
    | .ok (buf, off) =>
      match anyGuard o f (some (cap * 8)) dF off (serAnyX o X f v pb cap dF buf off) with
      | .error e => .error e
      | .ok (buf, off) => serFieldsX o X fs vs false pb cap (dF.add (resBits f)) buf off
  | _, _ => fun _ _ _ _ _ _ => .error .illTyped
def serNthX (o : Opts) (X : Ext) : List Ty → Nat → Val → Nat → Nat → AOff → Buf → Nat → Except Err W
  | [], _, _ => fun _ _ _ _ _ => .error eBadUnionTag
  | f :: _, 0, v => fun pb cap d buf off => anyGuard o f (some (cap * 8)) d off (serAnyX o X f v pb cap d buf off)
  | _ :: fs, k + 1, v => fun pb cap d buf off => serNthX o X fs k v pb cap d buf off
end

/-- **The generated serializer** with the buffer at address `pb`. -/
def serializeCX (o : Opts) (X : Ext) (pb : Nat) (t : Ty) (obj : Val) (buf : Buf) (cap : Nat) : Except Err (Buf × Nat) :=
  serFnX o X t obj pb buf cap

/-! ## Deserialization -/

def deUintX (o : Opts) (X : Ext) (pb : Nat) (n : Nat) (d : AOff) (buf : Buf) (cap off : Nat) : Except Err Nat :=
  if o.orc d ∧ n ≤ 8 then deUint o n d buf cap off
  else getUX o X pb (storW n) buf cap off n

def deSintX (o : Opts) (X : Ext) (pb : Nat) (n : Nat) (buf : Buf) (cap off : Nat) : Except Err Int :=
  getIX o X pb (storW n) buf cap off n

def deFloatX (o : Opts) (X : Ext) (pb : Nat) (n : Nat) (buf : Buf) (cap off : Nat) : Except Err Nat :=
  match getUX o X pb n buf cap off n with
  | .error e => .error e
  | .ok w => .ok (widen n w)

def deElemsX (o : Opts) (X : Ext) (pb : Nat) (t : Ty) (elem : Nat → Except Err (Val × Nat)) (count storN : Nat)
    (buf : Buf) (cap off : Nat) : Except Err (List Val × Nat) :=
  match t with
  | .bool =>
    match getBitsX o X pb (List.replicate ((storN + 7) / 8) (o.fill % 256)) buf cap off count with
    | .error e => .error e
    | .ok r => .ok ((List.range count).map (fun i => Val.bool (bitAt r i)), off + count)
  | t =>
    if zeroCost o t then
      let w := primBits t
      match getBitsX o X pb (List.replicate (storN * (w / 8)) (o.fill % 256)) buf cap off (count * w) with
      | .error e => .error e
      | .ok r =>
        .ok ((List.range count).map (fun i => elemVal t ((r.drop (i * (w / 8))).take (w / 8))), off + count * w)
    else deLoop elem count off

def nestedDeX (o : Opts) (X : Ext) (pb : Nat) (inner : Nat → Buf → Nat → Except Err (Val × Nat)) (isDelim : Bool)
    (d : AOff) (buf : Buf) (cap off : Nat) : Except Err (Val × Nat) :=
  if isDelim then
    match deUintX o X pb 32 d buf cap off with
    | .error e => .error e
    | .ok h =>
      let off := off + 32
      if h > remainingBytes cap off then .error eBadDelimiterHeader
      else
        assertC o (off % 8 = 0) <|
        match inner (pb + off / 8) (buf.drop (off / 8)) h with
        | .error e => .error e
        | .ok (v, _) => .ok (v, off + h * 8)
  else
    assertC o (off % 8 = 0) <|
    match inner (pb + off / 8) (buf.drop (off / 8)) (remainingBytes cap off) with
    | .error e => .error e
    | .ok (v, size) => .ok (v, off + size * 8)

mutual
def deAnyX (o : Opts) (X : Ext) : Ty → Nat → AOff → Buf → Nat → Nat → Except Err (Val × Nat)
  | .uint n _ => fun pb d buf cap off =>
    match deUintX o X pb n d buf cap off with
    | .error e => .error e
    | .ok x => .ok (.int x, off + n)
  | .sint n _ => fun pb _ buf cap off =>
    match deSintX o X pb n buf cap off with
    | .error e => .error e
    | .ok x => .ok (.int x, off + n)
  | .float n _ => fun pb _ buf cap off =>
    match deFloatX o X pb n buf cap off with
    | .error e => .error e
    | .ok x => .ok (.float x, off + n)
  | .bool => fun _ d buf cap off =>
    match deBool o d buf cap off with
    | .error e => .error e
    | .ok b => .ok (.bool b, off + 1)
  | .void n => fun _ _ _ _ off => .ok (.void, off + n)
  | .arr t n => fun pb d buf cap off =>
    let dE := d.add (AOff.rangeRep (resBits t) (n - 1) AOff.zero)
    match deElemsX o X pb t (fun f => anyGuard o t none dE f (deAnyX o X t pb dE buf cap f)) n n buf cap off with
    | .error e => .error e
    | .ok (vs, off) => .ok (.arr vs, off)
  | .varr t c => fun pb d buf cap off =>
    match deUintX o X pb (prefixBits c) d buf cap off with
    | .error e => .error e
    | .ok count =>
      if count > effCap X t c then .error eBadArrayLength
      else
        let dE := d.add (resBits (.varr t c))
        assertC o (o.orc (d.add (AOff.single (prefixBits c))) = true → (off + prefixBits c) % 8 = 0) <|
        match deElemsX o X pb t (fun f => anyGuard o t none dE f (deAnyX o X t pb dE buf cap f)) count (effCap X t c)
          buf cap (off + prefixBits c) with
        | .error e => .error e
        | .ok (vs, off) => .ok (.arr vs, off)
  | .struct fs => fun pb d buf cap off =>
    nestedDeX o X pb (fun pb' => topDe o (maxBits (.struct fs)) (.struct (trivVals fs)) (fun b c =>
        match deFieldsX o X fs true pb' AOff.zero b c 0 with
        | .error e => .error e
        | .ok (vs, f) => .ok (.struct vs, f))) false d buf cap off
  | .union fs => fun pb d buf cap off =>
    nestedDeX o X pb (fun pb' => topDe o (maxBits (.union fs)) (.union 0 (trivHead fs)) (fun b c =>
        match deUintX o X pb' (tagBits fs.length) AOff.zero b c 0 with
        | .error e => .error e
        | .ok k =>
          match deNthX o X fs k pb' (AOff.single (tagBits fs.length)) b c (tagBits fs.length) with
          | .error e => .error e
          | .ok (v, f) => .ok (.union k v, f))) false d buf cap off
  | .delim _ inner => fun pb d buf cap off => nestedDeX o X pb (fun pb' => deFnX o X inner pb') true d buf cap off
def deFnX (o : Opts) (X : Ext) : Ty → Nat → Buf → Nat → Except Err (Val × Nat)
  | .struct fs => fun pb buf cap =>
    topDe o (maxBits (.struct fs)) (.struct (trivVals fs)) (fun b c =>
        match deFieldsX o X fs true pb AOff.zero b c 0 with
        | .error e => .error e
        | .ok (vs, f) => .ok (.struct vs, f)) buf cap
  | .union fs => fun pb buf cap =>
    topDe o (maxBits (.union fs)) (.union 0 (trivHead fs)) (fun b c =>
        match deUintX o X pb (tagBits fs.length) AOff.zero b c 0 with
        | .error e => .error e
        | .ok k =>
          match deNthX o X fs k pb (AOff.single (tagBits fs.length)) b c (tagBits fs.length) with
          | .error e => .error e
          | .ok (v, f) => .ok (.union k v, f)) buf cap
  | .delim _ inner => fun pb buf cap => deFnX o X inner pb buf cap
  | _ => fun _ _ _ => .error .illTyped
def deFieldsX (o : Opts) (X : Ext) : List Ty → Bool → Nat → AOff → Buf → Nat → Nat → Except Err (List Val × Nat)
  | [] => fun _ _ _ _ _ off => .ok ([], off)
  | f :: fs => fun first pb d buf cap off =>
    let dF := d.pad (align f)
    let off := if first then off else padDe (align f) off
    match anyGuard o f none dF off (deAnyX o X f pb dF buf cap off) with
    | .error e => .error e
    | .ok (v, off) =>
      match deFieldsX o X fs false pb (dF.add (resBits f)) buf cap off with
      | .error e => .error e
      | .ok (vs, off) => .ok (v :: vs, off)
def deNthX (o : Opts) (X : Ext) : List Ty → Nat → Nat → AOff → Buf → Nat → Nat → Except Err (Val × Nat)
  | [], _ => fun _ _ _ _ _ => .error eBadUnionTag
  | f :: _, 0 => fun pb d buf cap off => anyGuard o f none d off (deAnyX o X f pb d buf cap off)
  | _ :: fs, k + 1 => fun pb d buf cap off => deNthX o X fs k pb d buf cap off
end

/-- **The generated deserializer** with the buffer at address `pb`. -/
def deserializeCX (o : Opts) (X : Ext) (pb : Nat) (t : Ty) (buf : Buf) (cap : Nat) : Except Err (Val × Nat) :=
  deFnX o X t pb buf cap

/-! ## Placements -/

/-- the object `[a, a+n)` does not meet the buffer `[b, b+m)` and does not start inside it (the second part says
something only for `n = 0`) -/
def Disj (a n b m : Nat) : Prop := (a + n ≤ b ∧ a < b) ∨ b + m ≤ a

/-- **The only assumption about addresses**: every object the generated code pairs the buffer with is an interval
disjoint from the user's buffer `[b0, b0 + L0)` (no assumption about order or distance). -/
def Placed (X : Ext) (b0 L0 : Nat) : Prop :=
  ∀ k pb off sz, Disj (X.adr k pb off sz) sz b0 L0

/-- extra assumption that the unguarded `src != dst` (text before 23731cd) needs on the decode side: no such object starts exactly at a
pointer at or behind the end of the buffer (where the code may form `&buffer[offset_bits / 8U]`). -/
def NoAliasPastEnd (X : Ext) (b0 L0 : Nat) : Prop :=
  ∀ k pb off sz, b0 + L0 ≤ pb → X.adr k pb off sz ≠ pb

end NunavutVerif.GenC
