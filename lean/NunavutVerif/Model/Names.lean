import NunavutVerif.Model.Namespace
/-!
# C06 — the identifiers a generated C / C++ file defines for DSDL entities

Transcribed from

* `nunavut/lang/c/__init__.py` — `filter_full_reference_name` (`cFullRef`): `"_".join(full_namespace.split(".") +
  [short_name_major_minor])`, stropped as a whole when stropping is on;
* `nunavut/lang/cpp/__init__.py` — `filter_full_reference_name` (`cppFullRef`): every namespace component stropped,
  `filter_short_reference_name` (`Short_M_m` stropped as a whole), joined by `::`; `filter_full_macro_name`
  (`cppFullMacro`): the same list joined by `_`;
* `nunavut/lang/c/templates/base.j2`, `definitions.j2` — the `#define`s of a generated C header (`cDefines`):
  `<ref>_HAS_FIXED_PORT_ID_`, `<ref>_FIXED_PORT_ID_`, per composite `<ref>_FULL_NAME_`, `<ref>_FULL_NAME_AND_VERSION_`,
  `<ref>_EXTENT_BYTES_`, `<ref>_SERIALIZATION_BUFFER_SIZE_BYTES_`, `<ref>_<constant>` for every constant,
  `<ref>_<field>_ARRAY_CAPACITY_` / `<ref>_<field>_ARRAY_IS_VARIABLE_LENGTH_` for every array field (the *raw* DSDL
  names of constants and fields), `<ref>_DISABLE_SERIALIZATION_BUFFER_CHECK_` under
  `enable_override_variable_array_capacity`, `<ref>_UNION_OPTION_COUNT_` for a union;
* `nunavut/lang/c/__init__.py` — `filter_to_snake_case` pass 0 (`snake0`: runs of non-word characters become one `_`), the
  part of `filter_macrofy` that makes a C name collision an include-guard collision.

A composite nested in a service (`ns.Svc.Request`) is an ordinary `Ty` with `ns = ns ++ [Svc]`, `short = Request`
(PyDSDL's `full_namespace` / `short_name` of the nested type).
-/
namespace NunavutVerif.Names
open NunavutVerif.Namespace (Str Ty shortVer joinWith verStr)

def lit (s : String) : Str := s.toList

/-- `filter_id` applied only when `enable_stropping` is on. -/
def estrop (strop : Str → Str) (enable : Bool) (s : Str) : Str := if enable then strop s else s

/-! ## type names -/

/-- C `filter_full_reference_name`. -/
def cFullRef (strop : Str → Str) (enable : Bool) (t : Ty) : Str :=
  estrop strop enable (joinWith ['_'] (t.ns ++ [shortVer t]))

/-- The components the C++ filters join: stropped namespace components, then the stropped `Short_M_m`. -/
def cppParts (strop : Str → Str) (enable : Bool) (t : Ty) : List Str :=
  t.ns.map (estrop strop enable) ++ [estrop strop enable (shortVer t)]

/-- C++ `filter_full_reference_name`. -/
def cppFullRef (strop : Str → Str) (enable : Bool) (t : Ty) : Str := joinWith [':', ':'] (cppParts strop enable t)

/-- C++ `filter_full_macro_name`. -/
def cppFullMacro (strop : Str → Str) (enable : Bool) (t : Ty) : Str := joinWith ['_'] (cppParts strop enable t)

/-- Put a character in front of the first word. -/
def consHead (c : Char) : List Str → List Str
  | [] => [[c]]
  | h :: t => (c :: h) :: t

/-- `s.split("_")`. -/
def splitU : Str → List Str
  | [] => [[]]
  | c :: cs => if c = '_' then [] :: splitU cs else consHead c (splitU cs)

/-- The underscore-separated words of the namespace components and the short name, in order: what the C name keeps of
the structure of the DSDL name. -/
def cWords (t : Ty) : List Str := (t.ns ++ [t.short]).flatMap splitU

/-! ## `#define`s of a C header -/

inductive FKind where
  | scalar | fixedArr | varArr
deriving DecidableEq, Repr

/-- What the macro names of one composite depend on: fields without padding (raw DSDL name, kind), constants (raw DSDL
names), union or not. -/
structure CompNames where
  fields : List (Str × FKind)
  consts : List Str
  isUnion : Bool

def sFullName := lit "FULL_NAME_"
def sFullNameVer := lit "FULL_NAME_AND_VERSION_"
def sExtent := lit "EXTENT_BYTES_"
def sBuffer := lit "SERIALIZATION_BUFFER_SIZE_BYTES_"
def sHasPort := lit "HAS_FIXED_PORT_ID_"
def sPort := lit "FIXED_PORT_ID_"
def sDisable := lit "DISABLE_SERIALIZATION_BUFFER_CHECK_"
def sUnionCount := lit "UNION_OPTION_COUNT_"
def sCap := lit "_ARRAY_CAPACITY_"
def sIsVar := lit "_ARRAY_IS_VARIABLE_LENGTH_"

/-- The suffixes the templates add on their own (everything after `<ref>_`). -/
def fixedSuffixes : List Str := [sFullName, sFullNameVer, sExtent, sBuffer, sHasPort, sPort, sDisable, sUnionCount]

/-- The array fields (`f.data_type is ArrayType`). -/
def arrayFields (c : CompNames) : List (Str × FKind) := c.fields.filter (fun f => f.2 ≠ .scalar)

/-- Suffixes of the `#define`s for one array field, in file order (`ovr` = `enable_override_variable_array_capacity`). -/
def arraySuffixes (ovr : Bool) (f : Str × FKind) : List Str :=
  [f.1 ++ sCap] ++ (if ovr && f.2 = .varArr then [sDisable] else []) ++ [f.1 ++ sIsVar]

/-- Suffixes of the `#define`s of `generate_composite` in file order. -/
def compSuffixes (ovr : Bool) (c : CompNames) : List Str :=
  [sFullName, sFullNameVer, sExtent, sBuffer] ++ c.consts ++ (arrayFields c).flatMap (arraySuffixes ovr)
  ++ (if c.isUnion then [sUnionCount] else [])

/-- `<ref>_<suffix>`. -/
def macroName (ref suffix : Str) : Str := ref ++ '_' :: suffix

/-- The `#define`s of the header of a message type with reference name `ref` (include guard aside), in file order. -/
def cDefinesMsg (ovr : Bool) (ref : Str) (fixedPort : Bool) (c : CompNames) : List Str :=
  ((if fixedPort then [sHasPort, sPort] else [sHasPort]) ++ compSuffixes ovr c).map (macroName ref)

/-- The `#define`s of the header of a service type: port-ID macros and `generate_metadata` of the service itself, then
`generate_composite` of the request and of the response (their own reference names). -/
def cDefinesSvc (ovr : Bool) (ref : Str) (fixedPort : Bool) (reqRef : Str) (req : CompNames) (respRef : Str)
    (resp : CompNames) : List Str :=
  ((if fixedPort then [sHasPort, sPort] else [sHasPort]) ++ [sFullName, sFullNameVer]).map (macroName ref)
  ++ (compSuffixes ovr req).map (macroName reqRef) ++ (compSuffixes ovr resp).map (macroName respRef)

/-- The distinct suffixes a composite puts behind its reference name (`DISABLE_…` once). -/
def compSuffixSet (c : CompNames) : List Str :=
  fixedSuffixes ++ c.consts ++ (arrayFields c).flatMap (fun f => [f.1 ++ sCap, f.1 ++ sIsVar])

/-- The condition on the DSDL names of one composite under which its macro names are pairwise distinct: no constant is
named like a suffix of the templates or like `<array field>_ARRAY_CAPACITY_` / `<array field>_ARRAY_IS_VARIABLE_LENGTH_`. -/
def constsClear (c : CompNames) : Bool :=
  c.consts.all (fun k => !fixedSuffixes.contains k
    && (arrayFields c).all (fun f => k ≠ f.1 ++ sCap && k ≠ f.1 ++ sIsVar))

/-! ## `filter_to_snake_case`, pass 0 -/

def isWordChar (c : Char) : Bool := c.isAlphanum || c = '_'

/-- `re.sub(r"[\W]+", "_", s)` (ASCII): every maximal run of non-word characters becomes one underscore. -/
def snake0 : Str → Str
  | [] => []
  | c :: cs =>
    if isWordChar c then c :: snake0 cs
    else match cs with
      | [] => ['_']
      | d :: _ => if isWordChar d then '_' :: snake0 cs else snake0 cs

/-! ## `filter_to_snake_case` in full, `filter_macrofy`

```
pass0 = re.sub(r"[\W]+", "_", value.strip())
pass1 = re.sub(r"(?<=[A-Z])([A-Z][a-z]+)", lambda x: "_" + x.group(0).lower(), pass0)
pass2 = re.sub(r"(?<=_)([A-Z])+", lambda x: x.group(0).lower(), pass1)
pass3 = re.sub(r"(?<=[a-z])([A-Z])+", lambda x: "_" + x.group(0).lower(), pass2)
return pass3.lower()
```
Each pass is a left-to-right scan with the previous character of the pass's *input* as look-behind and a flag "inside a
match" (ASCII classes; `str.strip` / `\W` over ASCII white space and word characters). -/

def isUp (c : Char) : Bool := decide ('A' ≤ c ∧ c ≤ 'Z')
def isLow (c : Char) : Bool := decide ('a' ≤ c ∧ c ≤ 'z')
def lowerC (c : Char) : Char := if isUp c then Char.ofNat (c.toNat + 32) else c
def upperC (c : Char) : Char := if isLow c then Char.ofNat (c.toNat - 32) else c
def isSpace (c : Char) : Bool := c = ' ' || c = '\t' || c = '\n' || c = '\r' || c = '\x0b' || c = '\x0c'

def stripWs (s : Str) : Str := ((s.dropWhile isSpace).reverse.dropWhile isSpace).reverse

def optIs (p : Char → Bool) : Option Char → Bool
  | some c => p c
  | none => false

/-- `(?<=[A-Z])([A-Z][a-z]+)` → `"_" + lower`. -/
def pass1 : Option Char → Bool → Str → Str
  | _, _, [] => []
  | prev, inMatch, c :: cs =>
    if inMatch && isLow c then c :: pass1 (some c) true cs
    else if optIs isUp prev && isUp c && optIs isLow cs.head? then '_' :: lowerC c :: pass1 (some c) true cs
    else c :: pass1 (some c) false cs

/-- `(?<=_)([A-Z])+` → lower. -/
def pass2 : Option Char → Bool → Str → Str
  | _, _, [] => []
  | prev, inRun, c :: cs =>
    if inRun && isUp c then lowerC c :: pass2 (some c) true cs
    else if optIs (· = '_') prev && isUp c then lowerC c :: pass2 (some c) true cs
    else c :: pass2 (some c) false cs

/-- `(?<=[a-z])([A-Z])+` → `"_" + lower`. -/
def pass3 : Option Char → Bool → Str → Str
  | _, _, [] => []
  | prev, inRun, c :: cs =>
    if inRun && isUp c then lowerC c :: pass3 (some c) true cs
    else if optIs isLow prev && isUp c then '_' :: lowerC c :: pass3 (some c) true cs
    else c :: pass3 (some c) false cs

/-- `filter_to_snake_case`. -/
def toSnake (s : Str) : Str :=
  (pass3 none false (pass2 none false (pass1 none false (snake0 (stripWs s))))).map lowerC

/-- `filter_macrofy`: screaming snake case, then stropped as a macro name when stropping is on. -/
def macrofy (stropMacro : Str → Str) (enable : Bool) (s : Str) : Str :=
  estrop stropMacro enable ((toSnake s).map upperC)

end NunavutVerif.Names
