import NunavutVerif.Model.Namespace
/-!
# C06 — what a generated file refers to, and what it needs

Model of the logic that decides which headers / modules a generated file pulls in, transcribed from

* `nunavut/_dependencies.py` — `DependencyBuilder.direct()/transitive()` (`Deps`, `extractTy/Comp/List`, `build`);
* `nunavut/lang/_common.py` — `IncludeGenerator.generate_include_filepart_list` (`filterIncludes`), paths through
  the very `makePath` of `Model/Namespace.lean` (C11);
* `nunavut/lang/c/__init__.py`, `nunavut/lang/cpp/__init__.py` — `Language.get_includes` (`cStd`, `cppGetIncludes`);
* `nunavut/lang/py/__init__.py` — `filter_imports` (`pyImports`);
* `lang/c/templates/base.j2`, `lang/cpp/templates/base.j2`, `lang/py/templates/base.j2` — the `#include`/`import` block
  around the filter result (`emitted`, `pyModuleImports`);
* and, written from the templates (`definitions.j2`, `_composite_type.j2`, `_fields*.j2`, the `declaration` filter),
  which standard facilities the emitted *text* uses for a type of a given shape (`facMust`, `facMay`), with the table
  `provides` saying which emitted include makes a facility available.

Type shapes are abstracted to what this logic looks at: the composite kind (structure/union, sealed or wrapped in a
`DelimitedType`, service), per field the PyDSDL class (void = padding, bool, integer, float, composite, fixed / variable
array of …).  Bit widths, capacities and names of fields do not enter.

The model describes the code *with* the proposed `fix:` commits; the behaviour before each fix is kept as a
`…BeforeFix` definition, and `Properties/C06.lean` proves the negation on a witness for each of them.
-/
namespace NunavutVerif.Deps
open NunavutVerif.Namespace (Str Path PathR Err makePath asPosix)

/-- Full name and version of a composite type (what `IncludeGenerator.make_path` looks at). -/
abbrev TName := NunavutVerif.Namespace.Ty

/-! ## Type shapes -/

mutual
  /-- The data type of an attribute, by PyDSDL class. -/
  inductive Ty where
    | void                      -- `VoidType` (padding field)
    | bool                      -- `BooleanType`
    | int                       -- `IntegerType` (signed, unsigned, byte, utf8)
    | float                     -- `FloatType`
    | comp (c : Comp)           -- `CompositeType` (structure, union, or the `DelimitedType` around one)
    | fixedArr (e : Ty)         -- `FixedLengthArrayType`
    | varArr (e : Ty)           -- `VariableLengthArrayType`
  /-- A structure or union; `isSealed = false` means PyDSDL hands out a `DelimitedType` wrapper whose `inner_type` is the
  structure/union and which forwards `attributes`.  `fields` are the data types of the fields (padding included) in
  declaration order, `consts` those of the constants (`attributes` interleaves both in declaration order; constants
  are primitives, so visiting them after the fields yields the same set and flags). -/
  inductive Comp where
    | mk (name : TName) (isUnion : Bool) (isSealed : Bool) (fields : List Ty) (consts : List Ty)
end

def Comp.name : Comp → TName | .mk n _ _ _ _ => n
def Comp.isUnion : Comp → Bool | .mk _ u _ _ _ => u
def Comp.isSealed : Comp → Bool | .mk _ _ s _ _ => s
def Comp.fields : Comp → List Ty | .mk _ _ _ f _ => f
def Comp.consts : Comp → List Ty | .mk _ _ _ _ c => c
/-- `[attr.data_type for attr in t.attributes]` (up to the order of constants, see `Comp`). -/
def Comp.attrs (c : Comp) : List Ty := c.fields ++ c.consts

/-- What a template is rendered for: a message type or a service (request + response in one file). -/
inductive Top where
  | msg (c : Comp) (fixedPort : Bool)
  | svc (name : TName) (req resp : Comp) (fixedPort : Bool)

def Top.name : Top → TName
  | .msg c _ => c.name
  | .svc n _ _ _ => n

def Top.fixedPort : Top → Bool
  | .msg _ p => p
  | .svc _ _ _ p => p

/-- The composites whose definitions the file contains. -/
def Top.parts : Top → List Comp
  | .msg c _ => [c]
  | .svc _ rq rs _ => [rq, rs]

/-- `_extract_data_types`: a service is flattened into request attributes followed by response attributes. -/
def Top.dataTypes : Top → List Ty
  | .msg c _ => c.attrs
  | .svc _ rq rs _ => rq.attrs ++ rs.attrs

/-! ## `Dependencies` and `DependencyBuilder` -/

structure Deps where
  /-- `composite_types` (a Python `set`; kept in insertion order, compared as a set) -/
  names : List TName := []
  usesInteger : Bool := false
  usesFloat : Bool := false
  usesVla : Bool := false
  usesArray : Bool := false
  usesBoolStaticArray : Bool := false
  usesBool : Bool := false
  usesPrimStaticArray : Bool := false
  usesUnion : Bool := false

/-- `_extract_dependent_types_handle_array_type` for a fixed-length array: the element decides. -/
def classifyFixed (e : Ty) (d : Deps) : Deps :=
  match e with
  | .bool => { d with usesBoolStaticArray := true }
  | .int => { d with usesPrimStaticArray := true }
  | .float => { d with usesPrimStaticArray := true }
  | _ => { d with usesArray := true }

mutual
  /-- One iteration of the loop of `_extract_dependent_types`. -/
  def extractTy (tr : Bool) : Ty → Deps → Deps
    | .void, d => d
    | .bool, d => { d with usesBool := true }
    | .int, d => { d with usesInteger := true }
    | .float, d => { d with usesFloat := true }
    | .comp c, d => extractComp tr c d
    | .fixedArr e, d => extractTy tr e (classifyFixed e d)
    | .varArr e, d => extractTy tr e { d with usesVla := true }
  /-- The `CompositeType` branch: added once; its attributes are visited only when `transitive`. -/
  def extractComp (tr : Bool) : Comp → Deps → Deps
    | .mk n _ _ fs cs, d =>
      if n ∈ d.names then d
      else if tr then extractList tr cs (extractList tr fs { d with names := d.names ++ [n] })
      else { d with names := d.names ++ [n] }
  /-- `_extract_dependent_types` over a list of data types. -/
  def extractList (tr : Bool) : List Ty → Deps → Deps
    | [], d => d
    | t :: ts, d => extractList tr ts (extractTy tr t d)
end

/-- Fixed code: the generated file defines a union (the type is a union, a delimited union, or a service whose request
or response is one). -/
def Top.definesUnion : Top → Bool
  | .msg c _ => c.isUnion
  | .svc _ rq rs _ => rq.isUnion || rs.isUnion

/-- Before the fix: `isinstance(dependant, pydsdl.UnionType)` on the *outer* object — false for the `DelimitedType`
around a non-sealed union and for every `ServiceType`. -/
def Top.outerIsUnionType : Top → Bool
  | .msg c _ => c.isUnion && c.isSealed
  | .svc _ _ _ _ => false

/-- One iteration of `_build_dependency_list`. -/
def buildStep (unionTest : Top → Bool) (tr : Bool) (d : Deps) (t : Top) : Deps :=
  extractList tr t.dataTypes (if unionTest t then { d with usesInteger := true, usesUnion := true } else d)

/-- `_build_dependency_list(dependant_types, transitive)`. -/
def buildMany (unionTest : Top → Bool) (tr : Bool) (ts : List Top) : Deps := ts.foldl (buildStep unionTest tr) {}

/-- `DependencyBuilder(t).direct()` — what `IncludeGenerator` asks for. -/
def direct (t : Top) : Deps := buildMany Top.definesUnion false [t]
/-- `DependencyBuilder(t).transitive()`. -/
def transitive (t : Top) : Deps := buildMany Top.definesUnion true [t]
def directBeforeFix (t : Top) : Deps := buildMany Top.outerIsUnionType false [t]
def transitiveBeforeFix (t : Top) : Deps := buildMany Top.outerIsUnionType true [t]

/-! ### Everything a type refers to (the tree below it) -/

mutual
  def reachTy : Ty → List TName
    | .void => [] | .bool => [] | .int => [] | .float => []
    | .comp c => reachComp c
    | .fixedArr e => reachTy e
    | .varArr e => reachTy e
  def reachComp : Comp → List TName
    | .mk n _ _ fs cs => n :: (reachList fs ++ reachList cs)
  def reachList : List Ty → List TName
    | [] => []
    | t :: ts => reachTy t ++ reachList ts
end

/-- Names of all composites a top-level type refers to, at any depth. -/
def Top.reach (t : Top) : List TName := reachList t.dataTypes

/-! ## Sorting as Python's `sorted` on `str` (code-point lexicographic) -/

def strLt (a b : Str) : Bool := decide (a < b)

def insertS (x : Str) : List Str → List Str
  | [] => [x]
  | y :: ys => if strLt x y then x :: y :: ys else y :: insertS x ys

def sortS : List Str → List Str
  | [] => []
  | x :: xs => insertS x (sortS xs)

/-! ## Options -/

inductive Lang where
  | c | cpp | py
deriving DecidableEq, Repr

structure Opts where
  /-- `--omit-serialization-support` (`nunavut.support.omit`) -/
  omitSer : Bool
  /-- config value `use_standard_types` -/
  useStd : Bool
  /-- C++: `standard_version` (14, 17, 20); `has_variant` is `≥ 17` -/
  std : Nat
  /-- C++ option `allocator_include` verbatim (`""` = none) -/
  allocInc : Str
  /-- C++ option `variable_array_type_include` verbatim -/
  vlaInc : Str
  /-- C++: `options.ctor_convention != "default"` (the allocator-aware constructors are emitted) -/
  allocCtor : Bool
  /-- config value `prefer_system_includes` -/
  preferSys : Bool
  /-- relative posix paths of the serialization-support files with the target extension
  (`support_namespace / p.name.with_suffix(ext)` for `get_support_files(SERIALIZATION_SUPPORT)`) -/
  support : List Str

def hasVariant (o : Opts) : Bool := decide (17 ≤ o.std)

def lit (s : String) : Str := s.toList

def angle (s : Str) : Str := '<' :: (s ++ ['>'])
def quote (s : Str) : Str := '"' :: (s ++ ['"'])
/-- `f"<{p}>"` if `prefer_system_includes` else `f'"{p}"'`. -/
def punct (o : Opts) (p : Str) : Str := if o.preferSys then angle p else quote p

/-! ## Includes -/

/-- `make_path(dt).as_posix()` for every dependency (raises what `make_path` raises). -/
def depPaths (pcfg : Namespace.Cfg) : List TName → Except Err (List Str)
  | [] => .ok []
  | n :: ns =>
    match makePath pcfg n with
    | .error e => .error e
    | .ok p =>
      match depPaths pcfg ns with
      | .error e => .error e
      | .ok ps => .ok (asPosix p :: ps)

/-- The project-relative part of `generate_include_filepart_list`: dependencies, then the support headers unless omitted. -/
def pathIncludes (pcfg : Namespace.Cfg) (o : Opts) (d : Deps) : Except Err (List Str) :=
  match depPaths pcfg d.names with
  | .error e => .error e
  | .ok ps => .ok ((ps ++ (if o.omitSer then [] else o.support)).map (punct o))

/-- C `Language.get_includes`. -/
def cStd (o : Opts) (d : Deps) : List Str :=
  if o.useStd then
    (sortS ([lit "stdlib.h"] ++ (if d.usesInteger then [lit "stdint.h"] else [])
      ++ (if d.usesBool then [lit "stdbool.h"] else [])
      ++ (if d.usesPrimStaticArray then [lit "string.h"] else []))).map angle
  else []

/-- The standard headers of C++ `Language.get_includes` before formatting.  Fixed code: only `<cstdint>` depends on
`use_standard_types` (without it the integer types are spelled `unsigned int` …); `<array>` / `<bitset>` follow the
dependency flags alone, because `create_array_decl` / `create_bitset_decl` spell `std::array` / `std::bitset` whatever
the setting says. -/
def cppStdNames (o : Opts) (d : Deps) : List Str :=
  [lit "limits"]
  ++ (if o.useStd && d.usesInteger then [lit "cstdint"] else [])
  ++ (if d.usesArray || d.usesPrimStaticArray then [lit "array"] else [])
  ++ (if d.usesBoolStaticArray then [lit "bitset"] else [])
  ++ (if d.usesUnion && hasVariant o then [lit "variant"] else [])

/-- Before that fix: `<array>` and `<bitset>` were dropped together with `<cstdint>` when `use_standard_types` is off. -/
def cppStdNamesBeforeFix (o : Opts) (d : Deps) : List Str :=
  [lit "limits"]
  ++ (if o.useStd then
        (if d.usesInteger then [lit "cstdint"] else [])
        ++ (if d.usesArray || d.usesPrimStaticArray then [lit "array"] else [])
        ++ (if d.usesBoolStaticArray then [lit "bitset"] else [])
      else [])
  ++ (if d.usesUnion && hasVariant o then [lit "variant"] else [])

/-- C++ `Language.get_includes`: sorted standard headers, then the allocator include, then the VLA include. -/
def cppGetIncludesWith (names : Opts → Deps → List Str) (o : Opts) (d : Deps) : List Str :=
  (sortS (names o d)).map angle
  ++ (if o.allocInc ≠ [] then [o.allocInc] else [])
  ++ (if d.usesVla ∧ o.vlaInc ≠ [] then [o.vlaInc] else [])

def cppGetIncludes := cppGetIncludesWith cppStdNames
def cppGetIncludesBeforeFix := cppGetIncludesWith cppStdNamesBeforeFix

/-- `filter_includes` = `generate_include_filepart_list(ext, sort=True)`. -/
def filterIncludesWith (getInc : Opts → Deps → List Str) (pcfg : Namespace.Cfg) (o : Opts) (d : Deps) :
    Except Err (List Str) :=
  match pathIncludes pcfg o d with
  | .error e => .error e
  | .ok ps => .ok (sortS (ps ++ getInc o d))

def hAssert : Str := lit "<assert.h>"
def hStdbool : Str := lit "<stdbool.h>"
def hStddef : Str := lit "<stddef.h>"
def hStdint : Str := lit "<stdint.h>"
def hCstdint : Str := lit "<cstdint>"

/-- What `c/templates/base.j2` adds below the filter result when the support header is omitted (fixed template). -/
def cOmitBlock (o : Opts) : List Str := if o.omitSer then [hAssert, hStdbool, hStddef, hStdint] else []

/-- What `cpp/templates/base.j2` adds: `<cstdint>` for the type of the fixed port-ID unless already listed. -/
def cppPortBlock (fixedPort : Bool) (incs : List Str) : List Str :=
  if fixedPort ∧ hCstdint ∉ incs then [hCstdint] else []

/-- What `cpp/templates/base.j2` adds below the filter result when the file defines a union (fixed template):
`<type_traits>` for the accessor wrappers, and for the union without `std::variant` `<memory>`, `<new>`, `<utility>`. -/
def cppUnionBlock (o : Opts) (t : Top) : List Str :=
  if t.definesUnion then
    lit "<type_traits>" :: (if hasVariant o then [] else [lit "<memory>", lit "<new>", lit "<utility>"])
  else []

/-- All `#include` operands of the generated header, in file order. -/
def emitted (lang : Lang) (pcfg : Namespace.Cfg) (o : Opts) (t : Top) : Except Err (List Str) :=
  match lang with
  | .c =>
    match filterIncludesWith cStd pcfg o (direct t) with
    | .error e => .error e
    | .ok l => .ok (l ++ cOmitBlock o)
  | .cpp =>
    match filterIncludesWith cppGetIncludes pcfg o (direct t) with
    | .error e => .error e
    | .ok l => .ok (l ++ cppUnionBlock o t ++ cppPortBlock t.fixedPort l)
  | .py => .ok []

/-- The unchanged code: outer-object union test, no omit block, no union block, no port block. -/
def emittedBeforeFix (lang : Lang) (pcfg : Namespace.Cfg) (o : Opts) (t : Top) : Except Err (List Str) :=
  match lang with
  | .c => filterIncludesWith cStd pcfg o (directBeforeFix t)
  | .cpp => filterIncludesWith cppGetIncludesBeforeFix pcfg o (directBeforeFix t)
  | .py => .ok []

/-- The code before the `use_standard_types` fix only (everything else as fixed). -/
def emittedCppBeforeStdFix (pcfg : Namespace.Cfg) (o : Opts) (t : Top) : Except Err (List Str) :=
  match filterIncludesWith cppGetIncludesBeforeFix pcfg o (direct t) with
  | .error e => .error e
  | .ok l => .ok (l ++ cppUnionBlock o t ++ cppPortBlock t.fixedPort l)

/-! ## Python imports -/

/-- The composite a field drags in for `filter_imports`: the field's type, or the element of an array of composites. -/
def pyDirectComp : Ty → Option Comp
  | .comp c => some c
  | .fixedArr (.comp c) => some c
  | .varArr (.comp c) => some c
  | _ => none

def dedup : List (List Str) → List (List Str)
  | [] => []
  | x :: xs => let r := dedup xs; if x ∈ r then r else x :: r

/-- First-occurrence order like the Python loop (`if ns not in namespace_list: append`). -/
def dedupFirst (l : List (List Str)) : List (List Str) := (dedup l.reverse).reverse

def joinDots : List Str → Str
  | [] => []
  | [a] => a
  | a :: rest => a ++ '.' :: joinDots rest

/-- `filter_imports(t, sort=True)`: namespaces of the composite fields, then of the composite array elements; unique;
each component stropped (`filter_id`, identifier type `any`) when stropping is on. -/
def pyImports (strop : Str → Str) (enable : Bool) (t : Top) : List Str :=
  let comps := t.dataTypes.filterMap (fun ty => match ty with | .comp c => some c | _ => none)
    ++ t.dataTypes.filterMap (fun ty => match ty with
        | .fixedArr (.comp c) => some c | .varArr (.comp c) => some c | _ => none)
  let nss := dedupFirst (comps.map (fun c => c.name.ns))
  sortS (nss.map (fun ns => joinDots (if enable then ns.map strop else ns)))

/-- Modules a generated Python module imports besides `filter_imports` (`py/templates/base.j2`, fixed). -/
def pyModuleImports (o : Opts) (deprecated : Bool) : List Str :=
  (if o.omitSer then [] else [lit "nunavut_support"]) ++ [lit "numpy", lit "numpy.typing", lit "pydsdl"]
  ++ (if deprecated then [lit "warnings"] else [])

def pyModuleImportsBeforeFix (_o : Opts) (deprecated : Bool) : List Str :=
  [lit "nunavut_support", lit "numpy", lit "numpy.typing", lit "pydsdl"] ++ (if deprecated then [lit "warnings"] else [])

/-- Modules that exist next to / for the generated code: the support module is written unless omitted; NumPy and PyDSDL
are the documented run-time requirements; `warnings` is the standard library. -/
def pyAvailable (o : Opts) : List Str :=
  (if o.omitSer then [] else [lit "nunavut_support"]) ++ [lit "numpy", lit "numpy.typing", lit "pydsdl", lit "warnings"]

/-! ## Facilities used by the emitted text -/

inductive Fac where
  -- C
  | cFixedInt      -- `uint8_t`, `int8_t`, `uint16_t`, …            (stdint.h)
  | cSizeT         -- `size_t`                                       (stddef.h, stdlib.h, string.h)
  | cBool          -- `bool`, `true`, `false`                        (stdbool.h)
  | cNull          -- `NULL`                                         (stddef.h, stdlib.h, string.h)
  | cStaticAssert  -- `static_assert`                                (assert.h)
  | cString        -- `memset`, `memmove`, `memcpy`                  (string.h)
  | cMath          -- `isfinite`                                     (math.h)
  | cSupport       -- `NUNAVUT_*` macros, `nunavut*` functions       (the support header)
  -- C++
  | xFixedInt      -- `std::uint8_t` …, `uint8_t`                    (cstdint)
  | xSizeT         -- `std::size_t`                                  (cstddef; de facto every library header)
  | xLimits        -- `std::numeric_limits`                          (limits)
  | xArray         -- `std::array`                                   (array)
  | xBitset        -- `std::bitset`                                  (bitset)
  | xVariant       -- `std::variant`, `std::get_if`, `std::variant_alternative`, `std::variant_npos` (variant)
  | xTypeTraits    -- `std::add_pointer`, `std::add_lvalue_reference`, `std::add_const_t`, `std::aligned_storage`
  | xUtility       -- `std::forward`, `std::move`                    (utility)
  | xMemory        -- `std::addressof`, `std::allocator_traits`      (memory)
  | xNew           -- placement `new (p) T`                          (new)
  | xVla           -- the configured variable-length array template  (option `variable_array_type_include`)
  | xAlloc         -- the configured allocator type, `std::allocator_arg` (option `allocator_include`)
  | xSupport       -- `nunavut::support::*`                          (the support header)
  | xAlgorithm     -- `std::min`, `std::max`                         (algorithm)
  | xCmath         -- `std::isfinite`                                (cmath)
  | xCstring       -- `std::memcpy`, `std::memset`, `std::memmove`   (cstring)
deriving DecidableEq, Repr

open Fac

/-- Non-padding fields (`fields_except_padding`). -/
def isPadding : Ty → Bool
  | .void => true
  | _ => false

/-- C `_define_field`. -/
def cFieldFac (o : Opts) : Ty → List Fac
  | .void => []
  | .bool => [cBool]
  | .int => if o.useStd then [cFixedInt] else []
  | .float => []
  | .comp _ => []
  | .fixedArr .bool => [cFixedInt]             -- `uint8_t x_bitpacked_[n]`
  | .fixedArr e => cFieldFac o e
  | .varArr .bool => [cFixedInt, cSizeT]       -- `uint8_t bitpacked[n]; size_t count;`
  | .varArr e => cFieldFac o e ++ [cSizeT]

/-- C `generate_composite` without the serialization functions. -/
def cCompFac (o : Opts) (c : Comp) : List Fac :=
  let fs := c.fields.filter (fun t => !isPadding t)
  [cStaticAssert] ++
  (if c.isUnion then
      fs.flatMap (cFieldFac o) ++ (if o.useStd then [cFixedInt] else [])      -- the fields, `_tag_`
      ++ (if fs.isEmpty then [] else [cNull, cBool])                              -- `_select_x_`, `_is_x_`
   else if fs.isEmpty then [cFixedInt]                                            -- `uint8_t _dummy_`
   else fs.flatMap (cFieldFac o))

/-- C++ `declaration` filter. -/
def xTyFac (o : Opts) : Ty → List Fac
  | .void => []
  | .bool => []
  | .int => if o.useStd then [xFixedInt] else []
  | .float => []
  | .comp _ => []
  | .fixedArr .bool => [xBitset]
  | .fixedArr e => xArray :: xTyFac o e
  | .varArr e => xVla :: xTyFac o e

/-- C++ `_composite_type.j2` without `serialize`/`deserialize`: what is certainly there. -/
def xCompFac (o : Opts) (fixedPort : Bool) (c : Comp) : List Fac :=
  let fs := c.fields.filter (fun t => !isPadding t)
  [xSizeT, xLimits] ++ (if fixedPort then [xFixedInt] else [])
  ++ fs.flatMap (xTyFac o) ++ c.consts.flatMap (xTyFac o)
  ++ (if c.isUnion then (if hasVariant o then [xVariant, xTypeTraits] else [xTypeTraits, xUtility, xNew]) else [])
  ++ (if o.allocCtor then [xAlloc] else [])

/-- C++: what may additionally be there depending on details the shape does not carry (destructor calls of the
hand-written union, `std::move` / `std::allocator_traits` of the allocator-aware constructors). -/
def xCompMay (o : Opts) (c : Comp) : List Fac :=
  (if c.isUnion && !hasVariant o then [xMemory] else [])
  ++ (if o.allocCtor then [xUtility, xMemory] else [])

/-- What the serialization functions may use (all of it comes with the support header). -/
def serFac : Lang → List Fac
  | .c => [cSupport, cFixedInt, cSizeT, cNull, cString, cMath, cBool, cStaticAssert]
  | .cpp => [xSupport, xFixedInt, xSizeT, xLimits, xArray, xUtility, xTypeTraits, xAlgorithm, xCmath, xCstring]
  | .py => []

/-- Facilities certainly used by the text generated for `t`. -/
def facMust (lang : Lang) (o : Opts) (t : Top) : List Fac :=
  match lang with
  | .c => t.parts.flatMap (cCompFac o) ++ (if o.omitSer then [] else [cSupport, cFixedInt, cSizeT, cNull, cStaticAssert])
  | .cpp => t.parts.flatMap (xCompFac o t.fixedPort) ++ (if o.omitSer then [] else [xSupport])
  | .py => []

/-- Facilities possibly used. -/
def facMay (lang : Lang) (o : Opts) (t : Top) : List Fac :=
  match lang with
  | .c => if o.omitSer then [] else serFac .c
  | .cpp => t.parts.flatMap (xCompMay o) ++ (if o.omitSer then [] else serFac .cpp)
  | .py => []

def facilities (lang : Lang) (o : Opts) (t : Top) : List Fac := facMust lang o t ++ facMay lang o t

/-- The unchanged C template also emitted the option `static_assert`s on support-header macros when the support header
was omitted. -/
def facMustBeforeFix (lang : Lang) (o : Opts) (t : Top) : List Fac :=
  match lang with
  | .c => facMust .c o t ++ [cSupport]
  | l => facMust l o t

/-! ### Which include provides which facility -/

/-- Standard headers, by the C / C++ standard; entries marked † are what libstdc++ and libc++ do, not a guarantee. -/
def stdProvides (inc : Str) (f : Fac) : Bool :=
  if inc = hStdint then f = cFixedInt
  else if inc = lit "<stdlib.h>" then f = cSizeT || f = cNull
  else if inc = hStddef then f = cSizeT || f = cNull
  else if inc = lit "<string.h>" then f = cSizeT || f = cNull || f = cString
  else if inc = hStdbool then f = cBool
  else if inc = hAssert then f = cStaticAssert
  else if inc = lit "<math.h>" then f = cMath
  else if inc = lit "<limits>" then f = xLimits || f = xSizeT /- † -/
  else if inc = hCstdint then f = xFixedInt
  else if inc = lit "<array>" then f = xArray || f = xSizeT
  else if inc = lit "<bitset>" then f = xBitset || f = xSizeT
  else if inc = lit "<variant>" then f = xVariant || f = xSizeT
  else if inc = lit "<type_traits>" then f = xTypeTraits
  else if inc = lit "<utility>" then f = xUtility
  else if inc = lit "<memory>" then f = xMemory
  else if inc = lit "<new>" then f = xNew || f = xSizeT
  else if inc = lit "<algorithm>" then f = xAlgorithm
  else if inc = lit "<cmath>" then f = xCmath
  else if inc = lit "<cstring>" then f = xCstring || f = xSizeT
  else false

/-- `#include`s of the support header itself (`support/serialization.j2` of each language). -/
def supportIncludes : Lang → List Str
  | .c => [lit "<string.h>", lit "<float.h>", lit "<math.h>", hStdbool, hStdint, hAssert]
  | .cpp => [lit "<cstring>", lit "<cmath>", lit "<climits>", lit "<cfloat>", hCstdint, lit "<array>",
             lit "<algorithm>", lit "<utility>", lit "<type_traits>"]
  | .py => []

/-- What including the support header makes available: its own definitions and what its includes provide. -/
def supportProvides (lang : Lang) (f : Fac) : Bool :=
  (match lang with | .c => f = cSupport | .cpp => f = xSupport | .py => false)
  || (supportIncludes lang).any (fun h => stdProvides h f)

/-- `provides lang o inc f`: the emitted include operand `inc` makes `f` available.  The two option-given includes
provide what the options of the same name promise (the configured VLA template / allocator type and what their
declarations mention: `std::allocator_traits`, `std::move`, `std::allocator_arg`). -/
def provides (lang : Lang) (o : Opts) (inc : Str) (f : Fac) : Bool :=
  stdProvides inc f
  || (!o.omitSer && inc ∈ o.support.map (punct o) && supportProvides lang f)
  || (inc ≠ [] && inc = o.vlaInc && (f = xVla || f = xMemory))
  || (inc ≠ [] && inc = o.allocInc && (f = xAlloc || f = xUtility || f = xMemory))

/-- The facility is available in a translation unit that consists of the listed includes. -/
def covered (lang : Lang) (o : Opts) (incs : List Str) (f : Fac) : Bool := incs.any (fun i => provides lang o i f)

/-! ## Names: include guards, C++ namespace brackets -/

/-- `{{T.full_name | macrofy}}_{{major}}_{{minor}}<suffix>` with `mac` = the result of `macrofy` on the full name
(`_INCLUDED_` in C, `_HPP_INCLUDED` in C++). -/
def includeGuard (mac : Str) (major minor : Nat) (suffix : Str) : Str :=
  NunavutVerif.Namespace.shortVer ⟨[], mac, major, minor⟩ ++ suffix

def nl : Str := ['\n']

/-- `filter_open_namespace(full_namespace)` (bracket on the next line, `\n`). `names` are the components after
`filter_id` (or unchanged without stropping). -/
def openNamespace : List Str → Str
  | [] => []
  | [n] => lit "namespace " ++ n ++ nl ++ ['{']
  | n :: rest => lit "namespace " ++ n ++ nl ++ ['{'] ++ nl ++ openNamespace rest

/-- `filter_close_namespace(full_namespace)` over the already reversed component list. -/
def closeNamespaceRev : List Str → Str
  | [] => []
  | [n] => ['}'] ++ lit " // namespace " ++ n
  | n :: rest => ['}'] ++ lit " // namespace " ++ n ++ nl ++ closeNamespaceRev rest

def closeNamespace (names : List Str) : Str := closeNamespaceRev names.reverse

/-- Remove `//` comments (to the end of the line). -/
def stripLineComments : Str → Str
  | [] => []
  | '/' :: '/' :: rest => skipLine rest
  | c :: rest => c :: stripLineComments rest
where
  skipLine : Str → Str
    | [] => []
    | '\n' :: rest => '\n' :: stripLineComments rest
    | _ :: rest => skipLine rest

/-- Bracket depth after reading the text, `none` if it ever closes more than it opened. -/
def depthAfter : Str → Nat → Option Nat
  | [], d => some d
  | '{' :: rest, d => depthAfter rest (d + 1)
  | '}' :: rest, d => match d with
    | 0 => none
    | d' + 1 => depthAfter rest d'
  | _ :: rest, d => depthAfter rest d

end NunavutVerif.Deps
