import NunavutVerif.Model.Options
/-!
# The comparison the option guard compiles to (C / C++ integer constant expressions, LP64)

The type headers emit `static_assert( ⟨name⟩ == ⟨numeral⟩, "…" );` and the support header gives `⟨name⟩` a meaning:

* C:   `#define ⟨name⟩ ⟨numeral⟩`                       — the name is replaced by the numeral's text
* C++: `constexpr std::uint32_t ⟨name⟩ = ⟨numeral⟩;`    — an object of type `unsigned int` initialised from the numeral

`⟨numeral⟩` is what Python prints for an `int` (`str(int)`): decimal digits, a leading `-` for negative numbers.
This file models how a C11 / C++14 compiler evaluates that expression: the type of an unsuffixed decimal literal,
unary minus, the conversion on initialisation, the usual arithmetic conversions of `==`.  `Model/Options.lean :: cmp` is
the closed form; `Properties/C17.lean` proves the two agree and that the closed form is equality of unsigned 32-bit
values.  The statement *forms* (`DefForm`, `CmpOp`) are what `translate/optionemit.py` recognises in the templates; a
form it does not recognise is carried as `other` and has no semantics here (`evalAssert = none`).
-/
namespace NunavutVerif.Options

/-- The integer types that occur: `int` (32 bit), `unsigned int` (= `std::uint32_t`), `long` (64 bit; `long long`
has the same range on LP64). -/
inductive ITy where
  | int | uint | long
  deriving DecidableEq, Repr

structure IVal where
  ty : ITy
  val : Int
  deriving DecidableEq, Repr

/-- Type of an unsuffixed decimal literal (C11 6.4.4.1 §5; C++14 [lex.icon] table 5): the first of `int`, `long`
(`long long`) that can represent it — never an unsigned type.  `none`: no standard type (ill-formed / extended type). -/
def litTy (n : Nat) : Option ITy :=
  if n < 2147483648 then some .int
  else if n < 9223372036854775808 then some .long
  else none

/-- `str(int)` read back by the compiler: `123` is a literal; `-123` is unary minus applied to the literal `123` (the
result has the operand's type; it cannot overflow because `-n` is representable whenever `n` is). -/
def numeral (v : Int) : Option IVal :=
  match litTy v.natAbs with
  | some t => some ⟨t, v⟩
  | none => none

/-- Conversion to `t`.  To an unsigned type: modulo 2^32.  To a signed type it is only used on representable values
(see `usual`) and preserves them. -/
def convert (t : ITy) (x : Int) : Int :=
  match t with
  | .uint => x % 4294967296
  | .int => x
  | .long => x

/-- The usual arithmetic conversions (after integer promotion, which changes none of the three types):
`long` wins over everything (it represents all `unsigned int` values), `unsigned int` wins over `int`. -/
def usual : ITy → ITy → ITy
  | .long, _ => .long
  | _, .long => .long
  | .uint, _ => .uint
  | _, .uint => .uint
  | .int, .int => .int

/-- `a == b` -/
def eqExpr (a b : IVal) : Bool :=
  convert (usual a.ty b.ty) a.val == convert (usual a.ty b.ty) b.val

/-- The declared type of a `constexpr` definition. -/
inductive CType where
  | uint32                    -- `std::uint32_t`
  | other (text : String)     -- anything else, e.g. a class type with its own `operator==`
  deriving DecidableEq, Repr

/-- Statement form of the support side. -/
inductive DefForm where
  | macro                         -- `#define ⟨name⟩ ⟨value⟩`
  | constexprVar (ty : CType)     -- `constexpr ⟨ty⟩ ⟨name⟩ = ⟨value⟩;`
  | other (text : String)
  deriving DecidableEq, Repr

/-- Comparison operator of the type side (`static_assert( ⟨name⟩ ⟨op⟩ ⟨value⟩, … )`). -/
inductive CmpOp where
  | eq
  | other (text : String)
  deriving DecidableEq, Repr

/-- What the name denotes inside the assertion's expression, given the numeral `d` the support header was generated
with. -/
def operand : DefForm → Int → Option IVal
  | .macro, d => numeral d
  | .constexprVar .uint32, d => (numeral d).map fun x => ⟨.uint, convert .uint x.val⟩
  | .constexprVar (.other _), _ => none
  | .other _, _ => none

/-- `static_assert( ⟨name⟩ ⟨op⟩ ⟨v⟩ )` with `⟨name⟩` defined from the numeral `d`: `some true` = passes, `some false` =
"static assertion failed", `none` = outside the model (unrecognised form, numeral beyond `long`). -/
def evalAssert (df : DefForm) (op : CmpOp) (d v : Int) : Option Bool :=
  match op, operand df d, numeral v with
  | .eq, some a, some b => some (eqExpr a b)
  | _, _, _ => none

/-- The support-side form each language is modelled with (what `cmp` is the closed form of). -/
def defFormOf : Lang → DefForm
  | .c => .macro
  | .cpp => .constexprVar .uint32

end NunavutVerif.Options
