import NunavutVerif.Model.Html
/-!
# Model for C20 (round 2) — the reference inventory of the generated HTML pages

Core Lean only.  Which `id`s a page defines and which references it makes (every `href`, `data-target`, `onclick`,
`aria-controls`, `for` attribute and the id selector of the inline script), in document order, as a function of the
namespace tree of a generation run.  Transcribed from `Namespace.j2`, `sidebar.j2`, `namespace_info.j2`, `type_info.j2`,
`type_base.j2` and `namespace_base.js`; the translator regenerates the table of all such attributes from the templates
(`Gen/HtmlRefs.lean`) and `Properties/C20.lean` proves that table equal to `expectedRefs` below, so a reference added to or
changed in a template breaks the tie.  Parts:

* row types of the generated tables (`RefRow`, `TagFact`, …) and the facts demanded of them;
* `Ent`/`NsD` — a run as the templates see it; `entItems`/`sidebarItems`/`nsInfoItems`/`nsPageItems`/`typePageItems`;
* `pages` — the files a run writes, each with its inventory; `Resolves` — what it means for a reference to have a target;
* `Source`/`srcNs`/`assign` — where each id of a page comes from (flat, in document order, `make_unique` state threaded);
  `simpleRun` — the decidable sufficient condition under which all ids of a page are pairwise distinct;
* `isCssIdent`, `urlSafe` — the contexts in which ids and links are used besides HTML text.
-/
namespace NunavutVerif.Html

/-! ## Rows of the generated tables -/

/-- An attribute that defines an anchor or refers to one (or an event handler), as it stands in a template. -/
structure RefRow where
  scope : String            -- `root:<template>` (text of a page template, includes followed) or `macro:<name>`
  tag : String
  attr : String
  guards : List String      -- tests of the enclosing `if` branches
  parts : List HPart
  deriving DecidableEq, Repr

/-- A tag of the constant template text. -/
structure TagFact where
  scope : String
  kind : String             -- `open` | `void` | `selfclose` | `close`
  name : String
  attrs : List (String × String)   -- (attribute name, quoting: `dq` | `sq` | `bare` = no value)
  deriving DecidableEq, Repr

/-- A DOM lookup in a script of the templates (bundled third-party assets excluded). -/
structure JsLookup where
  tpl : String
  func : String             -- `getElementById` | `querySelector` | `querySelectorAll`
  quote : String            -- the quote of the literal argument, `""` when the argument is not a literal
  parts : List HPart
  deriving DecidableEq, Repr

/-- A raw-text element (`script` / `style`) of a page template. -/
structure RawText where
  scope : String
  tpl : String
  tag : String
  length : Nat
  holes : Nat               -- `{{ }}` expressions inside
  commentOpen : Bool        -- contains `<!--` (would switch an HTML tokenizer to the script-data-escaped states)
  asset : Bool              -- bundled third-party file
  deriving DecidableEq, Repr

/-- The head of a page template. -/
structure PageHead where
  root : String
  empty : Bool              -- the template has no text at all (the page is an empty file)
  doctype : Bool            -- exactly one declaration, `<!DOCTYPE html>`, before the first tag
  firstTags : List String
  title : Bool
  charset : Bool            -- a `<meta charset=…>`
  deriving DecidableEq, Repr

def voidElements : List String :=
  ["area", "base", "br", "col", "embed", "hr", "img", "input", "link", "meta", "param", "source", "track", "wbr"]

/-- Requirements on one tag of the constant text: attribute names are unique, every value is quoted, a void element is
never closed and only a void element is written self-closing, end tags carry no attributes. -/
def TagFact.ok (t : TagFact) : Bool :=
  (t.attrs.map (·.1)).eraseDups.length == t.attrs.length &&
  t.attrs.all (fun a => a.2 == "dq" || a.2 == "sq" || a.2 == "bare") &&
  (match t.kind with
   | "open" => !voidElements.contains t.name
   | "void" => voidElements.contains t.name
   | "selfclose" => voidElements.contains t.name
   | "close" => !voidElements.contains t.name && t.attrs.isEmpty
   | _ => false)

/-- The named character references the constant text may use (all with the terminating `;`). -/
def knownEntities : List String := ["&amp;", "&lt;", "&gt;", "&quot;", "&apos;", "&larr;", "&rarr;", "&nbsp;", "&copy;", "&hellip;"]

def isDigitStr (s : List Char) : Bool := !s.isEmpty && s.all Char.isDigit

/-- An `&` of the constant text: `(where, text)`; `text` is the `&`, the name characters after it, a `;` if present and
the next character.  In element text it must be a complete known reference; inside an attribute value it may also be the
parameter separator of a URL query (`&name=`), which no tokenizer decodes. -/
def charRefOk (r : String × String) : Bool :=
  let t := r.2.toList
  knownEntities.any (fun e => e.toList.isPrefixOf t) ||
  (match t with
   | '&' :: '#' :: rest => isDigitStr (rest.takeWhile (· ≠ ';')) && rest.contains ';'
   | _ => false) ||
  (r.1 != "data" && t.getLast? == some '=' && !t.contains ';')

/-- A page template is either empty (the generator then writes an empty file) or starts
`<!DOCTYPE html><html><head>` and has a `<title>` and a character-encoding declaration (the files are written as UTF-8
and documentation comments may contain any Unicode text). -/
def PageHead.ok (h : PageHead) : Bool :=
  if h.empty then !h.doctype && h.firstTags.isEmpty
  else h.doctype && h.firstTags.take 2 == ["html", "head"] && h.title && h.charset

/-- Raw-text elements: third-party assets contain no expression and no `<!--`; own scripts/styles no `<!--`. -/
def RawText.ok (r : RawText) : Bool := !r.commentOpen && (!r.asset || r.holes == 0)

/-! ## A generation run as the templates see it -/

/-- An entry rendered by `generate_type_info`: a composite type (with those of its attributes that get an entry of
their own: array- and composite-typed ones, in order; `service` = it is a `ServiceType`, whose attributes are its request
and response types) or an array type (with its element type if that is composite). -/
inductive Ent
  | comp (ct : CType) (service : Bool) (attrs : List Ent)
  | arr (elemStr : Str) (el : List Ent)
  deriving Repr

/-- A namespace: name components, the types directly in it and the nested namespaces, both in the order the
`natural_sort_*` filters put them. -/
inductive NsD
  | node (name : List Str) (types : List Ent) (children : List NsD)
  deriving Repr

/-- One attribute of the inventory. -/
inductive Item
  | id (s : Str)                               -- `id="s"`
  | href (h : Str)                             -- `href="h"`
  | dataTarget (s : Str)                       -- `data-target="#s"`
  | onclick (s : Str) (root : Option Str)      -- `onclick="toggleCollapse(event, 's')"` / `…, 's', 'root')"`
  | aria (s : Str)                             -- `aria-controls="s"`
  | for_ (s : Str)                             -- `<label for="s">`
  | jsSel (s : Str)                            -- inline script: `document.querySelector("#s")`
  deriving DecidableEq, Repr

/-- `filter_tag_id` of whatever the entry shows. -/
def Ent.tag : Ent → Str
  | .comp ct _ _ => tagId ct
  | .arr es _ => tagIdArray es

def CType.shortName (t : CType) : Str := t.comps.getLastD []

/-- `type.short_name != "_"`: arrays have no short name and are never listed at namespace level. -/
def Ent.listed : Ent → Bool
  | .comp ct _ _ => ct.shortName ≠ ['_']
  | .arr _ _ => true

def sidebarSuffix : Str := "_sidebar".toList

/-- The collapse control that precedes every entry (`type_info.j2` / `namespace_info.j2`): the `<a>` with
`href`, `data-target`, `onclick`, `aria-controls`, in attribute order. -/
def ctl (voidHref : String) (i : Str) : List Item :=
  [.href voidHref.toList, .dataTarget i, .onclick i none, .aria i]

/-- The id of an entry: `t | tag_id`, passed through `make_unique` when the entry is nested. -/
def entId (nested : Bool) (seen : List Str) (base : Str) : Str × List Str :=
  if nested then makeUnique seen base else (base, seen)

/-- the link of a nested entry to the type's own entry: `{% if nested and t.short_name != "_" %}` -/
def entLink (up : Str) (nested : Bool) (ct : CType) : List Item :=
  if nested && ct.shortName ≠ ['_'] then [Item.href (up ++ urlFromType ct)] else []

mutual
/-- `generate_type_info(t, attr_name, nested, up)`; the `UniqueNameGenerator` state of the page is threaded. -/
def entItems (up : Str) (nested : Bool) (seen : List Str) : Ent → List Item × List Str
  | .comp ct _ attrs =>
    (ctl "javascript:void" (entId nested seen (tagId ct)).1 ++ entLink up nested ct ++ [.id (entId nested seen (tagId ct)).1] ++
      (entsItems up (entId nested seen (tagId ct)).2 attrs).1, (entsItems up (entId nested seen (tagId ct)).2 attrs).2)
  | .arr es el =>
    (ctl "javascript:void" (entId nested seen (tagIdArray es)).1 ++ [.id (entId nested seen (tagIdArray es)).1] ++
      (entsItems up (entId nested seen (tagIdArray es)).2 el).1, (entsItems up (entId nested seen (tagIdArray es)).2 el).2)
/-- the entries of the attributes (always `nested = True`) -/
def entsItems (up : Str) (seen : List Str) : List Ent → List Item × List Str
  | [] => ([], seen)
  | e :: es =>
    ((entItems up true seen e).1 ++ (entsItems up (entItems up true seen e).2 es).1,
     (entsItems up (entItems up true seen e).2 es).2)
end

/-- the listed types of a namespace, top-level entries (`nested = False`) -/
def topItems (up : Str) (seen : List Str) : List Ent → List Item × List Str
  | [] => ([], seen)
  | e :: es =>
    if e.listed then
      ((entItems up false seen e).1 ++ (topItems up (entItems up false seen e).2 es).1,
       (topItems up (entItems up false seen e).2 es).2)
    else topItems up seen es

mutual
/-- `generate_namespace_info(t, up)` -/
def nsInfoItems (up : Str) (seen : List Str) : NsD → List Item × List Str
  | .node name types children =>
    (ctl "javascript:void;" (nsId name) ++ [.id (nsId name)] ++ (topItems up seen types).1 ++
      (nsInfoItemsL up (topItems up seen types).2 children).1, (nsInfoItemsL up (topItems up seen types).2 children).2)
def nsInfoItemsL (up : Str) (seen : List Str) : List NsD → List Item × List Str
  | [] => ([], seen)
  | n :: l =>
    ((nsInfoItems up seen n).1 ++ (nsInfoItemsL up (nsInfoItems up seen n).2 l).1,
     (nsInfoItemsL up (nsInfoItems up seen n).2 l).2)
end

/-- the sidebar line of one listed type -/
def sideType (e : Ent) : List Item := [.id (e.tag ++ sidebarSuffix), .href ('#' :: e.tag)]

mutual
/-- `generate_sidebar_view(t)` -/
def sidebarItems : NsD → List Item
  | .node name types children =>
    [.dataTarget (nsId name ++ sidebarSuffix), .onclick (nsId name ++ sidebarSuffix) (some "sidebar".toList),
     .aria (nsId name ++ sidebarSuffix), .href ('#' :: nsId name), .id (nsId name ++ sidebarSuffix)] ++
    (types.filter Ent.listed).flatMap sideType ++ sidebarItemsL children
def sidebarItemsL : List NsD → List Item
  | [] => []
  | n :: l => sidebarItems n ++ sidebarItemsL l
end

def NsD.name : NsD → List Str
  | .node name _ _ => name

def NsD.types : NsD → List Ent
  | .node _ types _ => types

/-- The constant part of a namespace page before the sidebar tree (`Namespace.j2` head, `sidebar.j2` controls). -/
def nsPageHead : List Item :=
  [.href "https://fonts.googleapis.com".toList, .href "https://fonts.gstatic.com".toList,
   .href "https://fonts.googleapis.com/css2?family=Ubuntu+Mono:ital,wght@0,400;0,700;1,400;1,700&display=swap".toList,
   .id "sidebar-container".toList, .id "search".toList,
   .id "hideDeprecated".toList, .for_ "hideDeprecated".toList, .id "showBitLength".toList, .for_ "showBitLength".toList,
   .id "showExtent".toList, .for_ "showExtent".toList, .id "showDocs".toList, .for_ "showDocs".toList,
   .id "collapseOther".toList, .for_ "collapseOther".toList, .id "sidebar".toList]

def nsPageMid : List Item := [.id "sidebar-spacer".toList, .id "namespaceinfo".toList]

/-- The whole inventory of the page of namespace `tr` (`Namespace.j2` rendered with `T = tr`), in document order. -/
def nsPageItems (tr : NsD) : List Item :=
  nsPageHead ++ sidebarItems tr ++ nsPageMid ++ (nsInfoItems (upPrefix (joinWith '.' tr.name)) [] tr).1 ++
    [.jsSel (nsId tr.name)]

/-- Before the fix the inline script selected `"#" + T.full_name` (dots kept). -/
def nsPageItemsBeforeFix (tr : NsD) : List Item :=
  nsPageHead ++ sidebarItems tr ++ nsPageMid ++ (nsInfoItems (upPrefix (joinWith '.' tr.name)) [] tr).1 ++
    [.jsSel (joinWith '.' tr.name)]

/-- The inventory of a type page (`type_base.j2`): the back link. -/
def typePageItems (ct : CType) : List Item := [.href (backHref ct)]

/-! ## What the attributes mean -/

def idsOf : List Item → List Str
  | [] => []
  | .id s :: l => s :: idsOf l
  | _ :: l => idsOf l

/-- The id on the same page an attribute refers to. -/
def Item.sameRef : Item → Option Str
  | .dataTarget s => some s
  | .onclick s _ => some s
  | .aria s => some s
  | .for_ s => some s
  | .jsSel s => some s
  | .href ('#' :: s) => some s
  | _ => none

/-- The element `toggleCollapse(e, type_tag, root = "namespaceinfo")` looks up with `getElementById(root)`. -/
def Item.rootRef : Item → Option Str
  | .onclick _ (some r) => some r
  | .onclick _ none => some "namespaceinfo".toList
  | _ => none

/-- `toggleCollapse` with the default root additionally looks up `#<type_tag>_sidebar` (and `scrollSidebar` the same id). -/
def Item.twinRef : Item → Option Str
  | .onclick s none => some (s ++ sidebarSuffix)
  | _ => none

def isExternal (h : Str) : Bool :=
  "https://".toList.isPrefixOf h || "http://".toList.isPrefixOf h || "javascript:".toList.isPrefixOf h

/-- An `href` that names another file of the output tree. -/
def Item.relLink : Item → Option Str
  | .href h => if isExternal h || h.head? == some '#' then none else some h
  | _ => none

/-! ## The files of a run -/

def Ent.ctype? : Ent → Option CType
  | .comp ct _ _ => some ct
  | .arr _ _ => none

/-- The page of a type: `type_base.j2` for structures, unions and delimited types; `ServiceType.j2` is an empty
template, the page of a service is an empty file. -/
def typePagesOf : List Ent → List (List Str × List Item)
  | [] => []
  | .comp ct service _ :: l => (typePagePath ct, if service then [] else typePageItems ct) :: typePagesOf l
  | .arr _ _ :: l => typePagesOf l

mutual
/-- Every file the generator writes for a namespace tree (`Namespace.get_all_types`): the page of each namespace and
the page of each type, with the page's inventory. -/
def pages : NsD → List (List Str × List Item)
  | .node name types children =>
    (nsPagePath name, nsPageItems (.node name types children)) :: typePagesOf types ++ pagesL children
def pagesL : List NsD → List (List Str × List Item)
  | [] => []
  | n :: l => pages n ++ pagesL l
end

/-- all output files of several runs into one output directory -/
def site (runs : List NsD) : List (List Str × List Item) := runs.flatMap pages

/-- A relative link on the page at `path` has a target in `files`: it resolves to the path of one of the files, and
its fragment (if any) is an id of that file. -/
def Resolves (files : List (List Str × List Item)) (path : List Str) (h : Str) : Prop :=
  ∃ p frag, resolve path h = some (p, frag) ∧ ∃ items, (p, items) ∈ files ∧ (frag = [] ∨ frag ∈ idsOf items)

/-- executable form for the driver: `some (target path, fragment, fragment found)` -/
def resolveIn (files : List (List Str × List Item)) (path : List Str) (h : Str) : Option (List Str × Str × Bool) :=
  match resolve path h with
  | none => none
  | some (p, frag) =>
    match files.find? (fun f => f.1 == p) with
    | none => none
    | some f => some (p, frag, frag.isEmpty || (idsOf f.2).contains frag)

/-- every relative link of a set of files with the verdict of `resolveIn`: `(page, href, target exists)` -/
def siteLinkVerdicts (files : List (List Str × List Item)) : List (List Str × Str × Bool) :=
  files.flatMap fun f => f.2.filterMap fun it =>
    it.relLink.map fun h => (f.1, h, match resolveIn files f.1 h with | some (_, _, ok) => ok | none => false)

mutual
/-- the composite types that get a link (`nested and t.short_name != "_"`) below an entry -/
def linkedOf (nested : Bool) : Ent → List CType
  | .comp ct _ attrs => (if nested && ct.shortName ≠ ['_'] then [ct] else []) ++ linkedOfL attrs
  | .arr _ el => linkedOfL el
def linkedOfL : List Ent → List CType
  | [] => []
  | e :: es => linkedOf true e ++ linkedOfL es
end

def linkedTop : List Ent → List CType
  | [] => []
  | e :: es => (if e.listed then linkedOf false e else []) ++ linkedTop es

mutual
/-- every type that the page of a namespace links to -/
def linkedNs : NsD → List CType
  | .node _ types children => linkedTop types ++ linkedNsL children
def linkedNsL : List NsD → List CType
  | [] => []
  | n :: l => linkedNs n ++ linkedNsL l
end

mutual
/-- the composite types listed (with an entry of their own, `nested = False`) on the page of a namespace -/
def listedTypes : NsD → List CType
  | .node _ types children => (types.filter Ent.listed).filterMap Ent.ctype? ++ listedTypesL children
def listedTypesL : List NsD → List CType
  | [] => []
  | n :: l => listedTypes n ++ listedTypesL l
end

mutual
/-- the ids that other parts of a namespace page refer to: the entry of every namespace of the tree and of every listed
type (the entries rendered with `nested = False`) -/
def topTargets : NsD → List Str
  | .node name types children => nsId name :: (types.filter Ent.listed).map Ent.tag ++ topTargetsL children
def topTargetsL : List NsD → List Str
  | [] => []
  | n :: l => topTargets n ++ topTargetsL l
end

mutual
/-- all namespaces of a tree (the nodes), root first -/
def subtrees : NsD → List NsD
  | .node name types children => .node name types children :: subtreesL children
def subtreesL : List NsD → List NsD
  | [] => []
  | n :: l => subtrees n ++ subtreesL l
end

mutual
/-- The tree is laid out as the front end lays it out: every type sits in the namespace its name says, every nested
namespace extends its parent's name by one component. -/
def NsD.wf : NsD → Bool
  | .node name types children =>
    types.all (fun e => match e with | .comp ct _ _ => ct.comps.dropLast == name && !ct.hasParentService | .arr _ _ => false) &&
    wfL name children
def wfL (parent : List Str) : List NsD → Bool
  | [] => true
  | n :: l => (n.name.dropLast == parent && n.name != []) && n.wf && wfL parent l
end

/-! ## Writing the files of a run into an output directory that already has content -/

/-- an output directory: path ↦ content -/
abbrev OutDir (α : Type) := List (List Str × α)

/-- `open(path, "w")` + write: whatever was at the path is replaced by exactly the new content -/
def writeFile {α : Type} (fs : OutDir α) (p : List Str) (c : α) : OutDir α := (p, c) :: fs.filter (fun f => f.1 != p)

def readFile {α : Type} (fs : OutDir α) (p : List Str) : Option α := (fs.find? (fun f => f.1 == p)).map (·.2)

/-- a generation run writes its files one after the other -/
def writeAll {α : Type} (fs : OutDir α) (files : List (List Str × α)) : OutDir α :=
  files.foldl (fun fs f => writeFile fs f.1 f.2) fs

/-- what an opener without `O_TRUNC` does to a file that is already there: the new bytes overwrite the front, the rest stays -/
def overwriteInPlace (old new : Str) : Str := new ++ old.drop new.length

/-! ## Executable forms of the hypotheses of the link theorem -/

deriving instance DecidableEq for CType

/-- executable forms of the hypotheses of the link theorem (for the driver and the examples) -/
def validCompB (c : Str) : Bool := !c.isEmpty && c.all isNameChar

def runOkB (run : NsD) : Bool :=
  run.wf && (subtrees run).all fun m => !m.name.isEmpty && m.name.all validCompB

def closedB (runs : List NsD) : Bool :=
  runs.all fun run => (linkedNs run).all fun ct =>
    validCompB ct.rootNamespace && runs.any fun tgt => tgt.name == [ct.rootNamespace] && (listedTypes tgt).contains ct.entry

/-! ## Where the ids of a page come from; when they cannot coincide -/

/-- where an id of the `namespaceinfo` part comes from, in document order -/
inductive Source
  | ns (name : List Str)      -- the entry of a namespace
  | top (ct : CType)          -- the entry of a listed type (`nested = False`)
  | topA (es : Str)           -- (an array rendered with `nested = False`: the templates never do this)
  | nestC (ct : CType)        -- a nested composite entry: id through `make_unique`
  | nestA (es : Str)          -- a nested array entry: id through `make_unique`
  deriving DecidableEq, Repr

/-- `(nested?, t | tag_id)` -/
def Source.entry : Source → Bool × Str
  | .ns n => (false, nsId n)
  | .top ct => (false, tagId ct)
  | .topA es => (false, tagIdArray es)
  | .nestC ct => (true, tagId ct)
  | .nestA es => (true, tagIdArray es)

mutual
def srcEnt (nested : Bool) : Ent → List Source
  | .comp ct _ attrs => (if nested then Source.nestC ct else .top ct) :: srcEnts attrs
  | .arr es el => (if nested then Source.nestA es else .topA es) :: srcEnts el
def srcEnts : List Ent → List Source
  | [] => []
  | e :: es => srcEnt true e ++ srcEnts es
end

def srcTop : List Ent → List Source
  | [] => []
  | e :: es => if e.listed then srcEnt false e ++ srcTop es else srcTop es

mutual
def srcNs : NsD → List Source
  | .node name types children => .ns name :: srcTop types ++ srcNsL children
def srcNsL : List NsD → List Source
  | [] => []
  | n :: l => srcNs n ++ srcNsL l
end

/-- ids handed out along a list of `(nested?, base)` with the `UniqueNameGenerator` state threaded -/
def assign (seen : List Str) : List (Bool × Str) → List Str × List Str
  | [] => ([], seen)
  | e :: l => ((entId e.1 seen e.2).1 :: (assign (entId e.1 seen e.2).2 l).1, (assign (entId e.1 seen e.2).2 l).2)

/-- the id of the entry of a namespace or of a listed type (what the sidebar and other pages point to) -/
def Source.plain : Source → Option Str
  | .ns n => some (nsId n)
  | .top ct => some (tagId ct)
  | .topA es => some (tagIdArray es)
  | _ => none

def pageConsts : List Str := idsOf nsPageHead

def pageMid : List Str := idsOf nsPageMid

/-- all `(nested?, base)` pairs of a namespace page in document order: constant ids, sidebar twins, the entries -/
def pageEntries (tr : NsD) : List (Bool × Str) :=
  (pageConsts ++ (topTargets tr).map (· ++ sidebarSuffix) ++ pageMid).map (fun s => (false, s)) ++ (srcNs tr).map Source.entry

def plainComp (c : Str) : Bool := c.all Char.isAlphanum && (match c with | d :: _ => d.isAlpha | [] => false)

def isArrayGroup (g : Str) : Bool := "array".toList.isPrefixOf g && (g.drop 5).all Char.isDigit

def nsCompOk (c : Str) : Bool := plainComp c && c != "sidebar".toList && !isArrayGroup c

def Source.nested : Source → Option Str
  | .nestC ct => some (tagId ct)
  | .nestA es => some (tagIdArray es)
  | _ => none

/-- a composite type with plain names and a one-digit minor version -/
def ctOk (ct : CType) : Bool := !ct.comps.isEmpty && ct.comps.all plainComp && decide (ct.minor < 10)

def Source.ok : Source → Bool
  | .ns n => !n.isEmpty && n.all nsCompOk && !(pageConsts ++ pageMid).contains (nsId n)
  | .top ct => ctOk ct && !ct.hasParentService
  | .topA _ => false
  | .nestC ct => ctOk ct
  | .nestA es => es.all fun ch => isNameOrDot ch || ch = ' '

def Source.isTop (s : Source) : Bool := s.plain.isSome

/-- The sufficient condition for unique ids on the page of `tr`: every name component is alphanumeric and starts with a
letter (in particular: no underscore), no namespace component is `sidebar` or `array<digits>`, no namespace id is one of
the page's constant ids, every minor version is below 10, and the namespaces / listed types are pairwise different. -/
def simpleRun (tr : NsD) : Bool := (srcNs tr).all Source.ok && decide ((srcNs tr).filter Source.isTop).Nodup

/-! ## Ids as CSS identifiers, links as URLs -/

/-- `#` + this string is an id selector for exactly this id (CSS `<ident-token>` without escapes, ASCII): the scripts
build selectors by plain concatenation (`querySelector(\`#${type_tag}\`)`). -/
def isCssIdent : Str → Bool
  | [] => false
  | c :: s =>
    (c.isAlpha || c = '_' || (c = '-' && (match s with | d :: _ => d.isAlpha || d = '_' || d = '-' | [] => false))) &&
    s.all fun d => d.isAlphanum || d = '_' || d = '-'

/-- Characters that stand for themselves in the path or fragment of a URL (RFC 3986 unreserved, plus the `/` and `#`
the link is built with): nothing to percent-encode, nothing HTML escaping changes, no `:` that could form a scheme. -/
def urlSafeChar (c : Char) : Bool := c.isAlphanum || c = '_' || c = '.' || c = '-' || c = '~' || c = '/' || c = '#'

def urlSafe (s : Str) : Bool := s.all urlSafeChar

/-! ## The expected tables (what the model above implements) -/

def exT : String := "t.full_name.replace(\".\",\"_\")"
def exId : String := "(t|tag_id|make_unique / t|tag_id)"
def exBack : List HPart := [.lit "index.html#", .ex "T.full_namespace.replace(\".\",\"_\")"]
def guardListed : String := "type.short_name ne \"_\""

/-- Every anchor / reference / URL / event-handler attribute of the templates, as `nsPageItems` and `typePageItems`
implement them (after the fixes). -/
def expectedRefs : List RefRow := [
  ⟨"root:DelimitedType.j2", "a", "href", [], exBack⟩,
  ⟨"root:Namespace.j2", "link", "href", [], [.lit "https://fonts.googleapis.com"]⟩,
  ⟨"root:Namespace.j2", "link", "href", [], [.lit "https://fonts.gstatic.com"]⟩,
  ⟨"root:Namespace.j2", "link", "href", [],
    [.lit "https://fonts.googleapis.com/css2?family=Ubuntu+Mono:ital,wght@0,400;0,700;1,400;1,700&display=swap"]⟩,
  ⟨"root:Namespace.j2", "div", "id", [], [.lit "sidebar-container"]⟩,
  ⟨"root:Namespace.j2", "input", "id", [], [.lit "search"]⟩,
  ⟨"root:Namespace.j2", "input", "id", [], [.lit "hideDeprecated"]⟩,
  ⟨"root:Namespace.j2", "label", "for", [], [.lit "hideDeprecated"]⟩,
  ⟨"root:Namespace.j2", "input", "id", [], [.lit "showBitLength"]⟩,
  ⟨"root:Namespace.j2", "label", "for", [], [.lit "showBitLength"]⟩,
  ⟨"root:Namespace.j2", "input", "id", [], [.lit "showExtent"]⟩,
  ⟨"root:Namespace.j2", "label", "for", [], [.lit "showExtent"]⟩,
  ⟨"root:Namespace.j2", "input", "id", [], [.lit "showDocs"]⟩,
  ⟨"root:Namespace.j2", "label", "for", [], [.lit "showDocs"]⟩,
  ⟨"root:Namespace.j2", "input", "id", [], [.lit "collapseOther"]⟩,
  ⟨"root:Namespace.j2", "label", "for", [], [.lit "collapseOther"]⟩,
  ⟨"root:Namespace.j2", "div", "id", [], [.lit "sidebar"]⟩,
  ⟨"root:Namespace.j2", "div", "id", [], [.lit "sidebar-spacer"]⟩,
  ⟨"root:Namespace.j2", "div", "id", [], [.lit "namespaceinfo"]⟩,
  ⟨"root:StructureType.j2", "a", "href", [], exBack⟩,
  ⟨"root:UnionType.j2", "a", "href", [], exBack⟩,
  ⟨"macro:generate_type_info", "a", "href", [], [.lit "javascript:void"]⟩,
  ⟨"macro:generate_type_info", "a", "data-target", [], [.lit "#", .ex exId]⟩,
  ⟨"macro:generate_type_info", "a", "onclick", [], [.lit "toggleCollapse(event, '", .ex exId, .lit "')"]⟩,
  ⟨"macro:generate_type_info", "a", "aria-controls", [], [.ex exId]⟩,
  ⟨"macro:generate_type_info", "a", "href", ["not t is ArrayType", "(nested and t.short_name ne \"_\")"],
    [.ex "up", .ex "t|url_from_type"]⟩,
  ⟨"macro:generate_type_info", "div", "id", [], [.ex exId]⟩,
  ⟨"macro:generate_namespace_info", "a", "href", [], [.lit "javascript:void;"]⟩,
  ⟨"macro:generate_namespace_info", "a", "data-target", [], [.lit "#", .ex exT]⟩,
  ⟨"macro:generate_namespace_info", "a", "onclick", [], [.lit "toggleCollapse(event, '", .ex exT, .lit "')"]⟩,
  ⟨"macro:generate_namespace_info", "a", "aria-controls", [], [.ex exT]⟩,
  ⟨"macro:generate_namespace_info", "div", "id", [], [.ex exT]⟩,
  ⟨"macro:generate_sidebar_view", "a", "data-target", [], [.lit "#", .ex exT, .lit "_sidebar"]⟩,
  ⟨"macro:generate_sidebar_view", "a", "onclick", [], [.lit "toggleCollapse(event, '", .ex exT, .lit "_sidebar', 'sidebar')"]⟩,
  ⟨"macro:generate_sidebar_view", "a", "aria-controls", [], [.ex exT, .lit "_sidebar"]⟩,
  ⟨"macro:generate_sidebar_view", "a", "href", [], [.lit "#", .ex exT]⟩,
  ⟨"macro:generate_sidebar_view", "div", "id", [], [.ex exT, .lit "_sidebar"]⟩,
  ⟨"macro:generate_sidebar_view", "a", "id", [guardListed], [.ex "type|tag_id", .lit "_sidebar"]⟩,
  ⟨"macro:generate_sidebar_view", "a", "href", [guardListed], [.lit "#", .ex "type|tag_id"]⟩]

/-- The DOM lookups of the templates' own scripts whose argument depends on a page: the id selectors built from the
argument of `toggleCollapse` / `scrollSidebar` (`Item.sameRef`, `Item.twinRef` of an `onclick`), the location hash, and
the selector of the inline script (`Item.jsSel`; after the fix the dots of the name are replaced like in the id). -/
def expectedDynamicLookups : List JsLookup := [
  ⟨"namespace_base.js", "querySelector", "`", [.lit "#${type_tag}"]⟩,
  ⟨"namespace_base.js", "getElementById", "", [.lit "root"]⟩,
  ⟨"namespace_base.js", "querySelector", "`", [.lit "#${type_tag}_sidebar"]⟩,
  ⟨"namespace_base.js", "getElementById", "`", [.lit "${type}_sidebar"]⟩,
  ⟨"Namespace.j2", "querySelector", "", [.lit "window.location.hash"]⟩,
  ⟨"Namespace.j2", "querySelector", "\"", [.lit "#", .ex "T.full_name.replace(\".\",\"_\")"]⟩,
  ⟨"Namespace.j2", "querySelector", "", [.lit "window.location.hash"]⟩]

/-- a lookup with a constant argument: the id (for `getElementById`) it needs -/
def JsLookup.constId (l : JsLookup) : Option String :=
  match l.func, l.quote, l.parts with
  | "getElementById", "\"", [.lit s] => some s
  | "getElementById", "'", [.lit s] => some s
  | _, _, _ => none

/-- a lookup is *dynamic* if its argument is not a constant string, or is a selector that starts with `#` -/
def JsLookup.dynamic (l : JsLookup) : Bool :=
  match l.parts with
  | [.lit s] => l.quote == "" || l.quote == "`" || "#".toList.isPrefixOf s.toList
  | _ => true

/-- The signature of `toggleCollapse` (default root) the model's `Item.rootRef` implements. -/
def expectedToggleSignature : String := "e, type_tag, root = \"namespaceinfo\""

end NunavutVerif.Html
