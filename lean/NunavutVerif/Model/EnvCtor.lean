import NunavutVerif.Model.Resolve
import NunavutVerif.Gen.EnvCtor
/-!
The construction of the template environment as a state machine over the statement list regenerated from the source
(`Gen/EnvCtor.lean`, translate/env_ctor.py): `CodeGenEnvironment.__init__` (`ctorSteps`), then what the generator adds
after `create()` (`dsdlGeneratorSteps` / `supportGeneratorSteps`).

The state is the three collections and `_allow_replacements` (`none` until it is assigned: a collision met before that
is an `AttributeError`, not a `RuntimeError`).  The flag is whatever the regenerated right-hand side evaluates to over
the constructor's inputs: the argument `allow_filter_test_or_use_query_overwrite`, the loader object (its boolean
attributes, as `getattr(loader, name, default)` sees them) and — for a right-hand side the translator did not
understand — an arbitrary boolean per source text.

Core Lean only (linked into the `resolve` driver).
-/
namespace NunavutVerif.Resolve

open Gen.EnvCtor (AllowExpr Step)

/-- The loader handed to the constructor, as far as a flag expression can see it. -/
structure LoaderView where
  attrs : List (Name × Bool)     -- boolean attributes the object has; any other name is absent

/-- Everything a construction depends on besides the built-in names (`SMCfg`). -/
structure CtorInputs where
  allowArg : Bool                -- `allow_filter_test_or_use_query_overwrite`
  loader   : LoaderView          -- which loader configuration the environment is created over
  unknown  : Name → Bool         -- value of a flag expression the translator did not understand (arbitrary)
  ug : List (Name × Owner)       -- additional_globals
  uf : List (Name × Owner)       -- additional_filters
  ut : List (Name × Owner)       -- additional_tests

def attrGet : List (Name × Bool) → Name → Bool → Bool
  | [], _, d => d
  | (k, v) :: rest, n, d => if k = n then v else attrGet rest n d

def evalAllow (i : CtorInputs) : AllowExpr → Bool
  | .ctorArg => i.allowArg
  | .const b => b
  | .or a b => evalAllow i a || evalAllow i b
  | .and a b => evalAllow i a && evalAllow i b
  | .not a => !evalAllow i a
  | .loaderAttr n d => attrGet i.loader.attrs n d
  | .unknown s => i.unknown s

/-- The built-in names by the statement that installs them. -/
structure SMCfg where
  jinjaFilters : Coll
  jinjaTests   : Coll
  jinjaGlobals : Coll
  reservedNs    : List Name
  reservedNames : List Name
  langGlobals : List (Name × Owner)                 -- `target_language.get_globals()`
  langFilters : List (Name × Owner)                 -- language modules (`ln.<lang>.<x>`, `<x>` for the target)
  langTests   : List (Name × Owner)
  ownFilters  : List (Name × Owner)                 -- the environment's own `filter_*` / `is_*` methods
  ownTests    : List (Name × Owner)
  instanceTests    : List (Kind × Name × Owner)     -- `_create_all_dsdl_tests()` through `add_test`
  generatorMethods : List (Kind × Name × Owner)     -- the generator's own `filter_*` / `is_*` methods

/-- The same names as `construct` wants them (filters before tests within the pre-phase; the collections are
independent, so only which of two simultaneous built-in collisions is reported could differ). -/
def SMCfg.toEnvCfg (c : SMCfg) (post : List (Kind × Name × Owner)) : EnvCfg where
  jinjaFilters := c.jinjaFilters
  jinjaTests := c.jinjaTests
  jinjaGlobals := c.jinjaGlobals
  reservedNs := c.reservedNs
  reservedNames := c.reservedNames
  langGlobals := c.langGlobals
  preFilters := c.langFilters ++ c.ownFilters
  preTests := c.langTests ++ c.ownTests
  post := post

inductive SMErr
  | env (e : Err)
  | flagUnset (n : Name)          -- `_add_to_environment` met a collision before `_allow_replacements` was assigned
deriving DecidableEq, Repr

structure SMState where
  allow : Option Bool
  env   : Env

/-- The regenerated guard of `_add_to_environment`: may a name already present be replaced, the flag being `flag`? -/
def guardOf (i : CtorInputs) (flag : Bool) : Bool := evalAllow { i with allowArg := flag } Gen.EnvCtor.addGuard

/-- Run a flag-reading installation.  With the flag unassigned the control flow is that of `allow = false`; the collision
surfaces as an `AttributeError` instead of the `RuntimeError`. -/
def withFlag {α : Type} (i : CtorInputs) (allow : Option Bool) (f : Bool → Except Err α) : Except SMErr α :=
  match allow with
  | some a =>
    match f (guardOf i a) with
    | .ok x => .ok x
    | .error e => .error (.env e)
  | none =>
    match f false with
    | .ok x => .ok x
    | .error (.alreadyDefined n) => .error (.flagUnset n)
    | .error e => .error (.env e)

def runStep (cfg : SMCfg) (i : CtorInputs) (s : SMState) : Step → Except SMErr SMState
  | .jinjaDefaults => .ok { s with env := ⟨cfg.jinjaFilters, cfg.jinjaTests, cfg.jinjaGlobals⟩ }
  | .setAllow e => .ok { s with allow := some (evalAllow i e) }
  | .userGlobals reservedCheck checked =>
    let reserved := if reservedCheck then cfg.reservedNs ++ cfg.reservedNames else []
    match (if checked then withFlag i s.allow fun a => addGlobals reserved a s.env.globals i.ug
           else withFlag i s.allow fun _ => addGlobalsBeforeFix reserved s.env.globals i.ug) with
    | .ok g => .ok { s with env := { s.env with globals := g } }
    | .error e => .error e
  | .reservedNamespaces =>
    .ok { s with env := { s.env with globals := setAll s.env.globals (cfg.reservedNs.map fun n => (n, Owner.reserved)) } }
  | .assignGlobal n => .ok { s with env := { s.env with globals := cset s.env.globals n .reserved } }
  | .langGlobals overwrite =>
    let g := if overwrite then setAll s.env.globals cfg.langGlobals else setDefaultAll s.env.globals cfg.langGlobals
    .ok { s with env := { s.env with globals := g } }
  | .langSupport =>
    match withFlag i s.allow fun a => addAll a s.env.filters cfg.langFilters with
    | .error e => .error e
    | .ok f =>
      match withFlag i s.allow fun a => addAll a s.env.tests cfg.langTests with
      | .error e => .error e
      | .ok t => .ok { s with env := { s.env with filters := f, tests := t } }
  | .nunavutNamespace => .ok s
  | .ownMethods =>
    match withFlag i s.allow fun a => addAll a s.env.filters cfg.ownFilters with
    | .error e => .error e
    | .ok f =>
      match withFlag i s.allow fun a => addAll a s.env.tests cfg.ownTests with
      | .error e => .error e
      | .ok t => .ok { s with env := { s.env with filters := f, tests := t } }
  | .userFilters =>
    match withFlag i s.allow fun a => addAll a s.env.filters (conv i.uf) with
    | .error e => .error e
    | .ok f => .ok { s with env := { s.env with filters := f } }
  | .userTests =>
    match withFlag i s.allow fun a => addAll a s.env.tests (conv i.ut) with
    | .error e => .error e
    | .ok t => .ok { s with env := { s.env with tests := t } }
  | .instanceTests =>
    match withFlag i s.allow fun a => addPost a s.env cfg.instanceTests with
    | .error e => .error e
    | .ok e => .ok { s with env := e }
  | .generatorMethods =>
    match withFlag i s.allow fun a => addPost a s.env cfg.generatorMethods with
    | .error e => .error e
    | .ok e => .ok { s with env := e }

def runSteps (cfg : SMCfg) (i : CtorInputs) : SMState → List Step → Except SMErr SMState
  | s, [] => .ok s
  | s, st :: rest =>
    match runStep cfg i s st with
    | .ok s' => runSteps cfg i s' rest
    | .error e => .error e

/-- Before the constructor runs: nothing installed, the flag not assigned. -/
def smInit : SMState := ⟨none, ⟨[], [], []⟩⟩

/-- Run a statement list from scratch; the finished environment and the value the flag ended with. -/
def constructSM (cfg : SMCfg) (i : CtorInputs) (steps : List Step) : Except SMErr SMState :=
  runSteps cfg i smInit steps

/-- The statement lists of the three ways an environment comes to be (regenerated): a `DSDLCodeGenerator`, a
`SupportGenerator`, a bare `CodeGenEnvironmentBuilder.create()`. -/
def stepsDsdlGenerator : List Step := Gen.EnvCtor.ctorSteps ++ Gen.EnvCtor.dsdlGeneratorSteps
def stepsSupportGenerator : List Step := Gen.EnvCtor.ctorSteps ++ Gen.EnvCtor.supportGeneratorSteps
def stepsBuilder : List Step := Gen.EnvCtor.ctorSteps

end NunavutVerif.Resolve
