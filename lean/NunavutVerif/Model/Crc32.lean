/-!
# CRC-32 (ISO-HDLC, the one `zlib.crc32` / `binascii.crc32` compute) — table-free, bit by bit

`filter_to_static_assertion_value` (src/nunavut/lang/c/__init__.py) turns a string option into
`zlib.crc32(bytearray(obj, "utf-8"))`.  This file is the executable model of that expression:
reflected polynomial `0xEDB88320`, initial value and final xor `0xFFFFFFFF`, bytes processed in order,
least significant bit first.  Core Lean only; everything is structural so the kernel can evaluate it.
-/
namespace NunavutVerif.Crc32

/-- One shift of the reflected CRC register. -/
def step (c : Nat) : Nat :=
  if c % 2 = 1 then (c >>> 1) ^^^ 0xEDB88320 else c >>> 1

/-- Feed one byte: xor it into the low byte of the register, then eight shifts. -/
def feed (c b : Nat) : Nat :=
  step (step (step (step (step (step (step (step (c ^^^ b))))))))

/-- `zlib.crc32(bytes)` for a list of byte values. -/
def crc32 (bs : List Nat) : Nat :=
  (bs.foldl feed 0xFFFFFFFF) ^^^ 0xFFFFFFFF

/-- UTF-8 encoding of one Unicode scalar value (as Python's `str.encode("utf-8")`; Lean `Char`s are scalar
values, so the lone-surrogate `UnicodeEncodeError` of Python has no counterpart here). -/
def utf8Char (c : Nat) : List Nat :=
  if c < 0x80 then [c]
  else if c < 0x800 then [0xC0 + c / 64, 0x80 + c % 64]
  else if c < 0x10000 then [0xE0 + c / 4096, 0x80 + c / 64 % 64, 0x80 + c % 64]
  else [0xF0 + c / 262144, 0x80 + c / 4096 % 64, 0x80 + c / 64 % 64, 0x80 + c % 64]

/-- `bytearray(s, "utf-8")` -/
def utf8 (s : String) : List Nat :=
  s.toList.flatMap fun ch => utf8Char ch.toNat

/-- `zlib.crc32(bytearray(s, "utf-8"))` -/
def crc32Str (s : String) : Nat := crc32 (utf8 s)

end NunavutVerif.Crc32
