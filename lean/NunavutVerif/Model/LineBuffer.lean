/-
Model of `CodeGenerator._generate_with_line_buffer`, `_filter_and_write_line`
(src/nunavut/jinja/__init__.py) and of the line post-processors
`TrimTrailingWhitespace`, `LimitEmptyLines` (src/nunavut/_postprocessors.py).

Core Lean only (this file is linked into the correspondence driver).
Strings are `List Char` (Python `str` = sequence of Unicode scalars).
-/
namespace NunavutVerif.LineBuffer

abbrev Str := List Char

/-- One call of a line post-processor: `(line, newline_chars)`. -/
structure Line where
  content : Str
  term    : Str
deriving DecidableEq, Repr, Inhabited

def LF : Str := ['\n']
def CRLF : Str := ['\r', '\n']

/-- The `while True` loop over one `part`: leftmost search for `\n|\r\n`, text before the match
is appended to the line buffer, the buffer is emitted with the matched terminator.  Returns the
emitted lines and the new line buffer.  (A regex search that advances from `match.end()` is a
left-to-right scan; a `\r` not followed by `\n` is ordinary content.) -/
def scan : Str → Str → List Line × Str
  | buf, [] => ([], buf)
  | buf, [c] => if c = '\n' then ([⟨buf, LF⟩], []) else ([], buf ++ [c])
  | buf, c :: d :: rest =>
      if c = '\n' then
        let r := scan [] (d :: rest)
        (⟨buf, LF⟩ :: r.1, r.2)
      else if c = '\r' ∧ d = '\n' then
        let r := scan [] rest
        (⟨buf, CRLF⟩ :: r.1, r.2)
      else scan (buf ++ [c]) (d :: rest)

/-- The definition of "the lines of the complete text": scan the whole text at once, then flush a
non-empty remainder with an empty terminator. -/
def flush (buf : Str) : List Line := if buf = [] then [] else [⟨buf, []⟩]

def specLines (text : Str) : List Line :=
  let r := scan [] text
  r.1 ++ flush r.2

/-! ### The generator loop as it is in the code -/

/-- State carried from chunk to chunk: the line buffer and (since the `fix:` commit for the split
CRLF defect) whether a trailing carriage return of the previous chunk is being held back. -/
structure GenState where
  buf  : Str
  pend : Bool
deriving DecidableEq, Repr

/-- Split off a final `\r` (Python: `part.endswith("\r")`, `part[:-1]`). -/
def chopCR : Str → Str × Bool
  | [] => ([], false)
  | c :: rest =>
      if rest = [] ∧ c = '\r' then ([], true)
      else let r := chopCR rest; (c :: r.1, r.2)

/-- One iteration of `for part in template_gen`. -/
def procChunk (st : GenState) (part : Str) : List Line × GenState :=
  let part1 := if st.pend then '\r' :: part else part
  let cp := chopCR part1
  let r := scan st.buf cp.1
  (r.1, ⟨r.2, cp.2⟩)

def procChunks : GenState → List Str → List Line × GenState
  | st, [] => ([], st)
  | st, p :: ps =>
      let r := procChunk st p
      let r' := procChunks r.2 ps
      (r.1 ++ r'.1, r'.2)

/-- All `(line, terminator)` pairs handed to `_filter_and_write_line` for a chunk sequence. -/
def genLines (chunks : List Str) : List Line :=
  let r := procChunks ⟨[], false⟩ chunks
  r.1 ++ flush (r.2.buf ++ (if r.2.pend then ['\r'] else []))

/-! ### The loop before the fix (kept to record the defect) -/

def procChunksBeforeFix : Str → List Str → List Line × Str
  | buf, [] => ([], buf)
  | buf, p :: ps =>
      let r := scan buf p
      let r' := procChunksBeforeFix r.2 ps
      (r.1 ++ r'.1, r'.2)

def genLinesBeforeFix (chunks : List Str) : List Line :=
  let r := procChunksBeforeFix [] chunks
  r.1 ++ flush r.2

/-! ### Post-processors -/

/-- Python's `\s` for `str` patterns (`str.isspace` set): checked against `re` on all code points
by the correspondence check. -/
def isWs (c : Char) : Bool :=
  let n := c.toNat
  (9 ≤ n && n ≤ 13) || (28 ≤ n && n ≤ 32) || n = 0x85 || n = 0xA0 || n = 0x1680 ||
  (0x2000 ≤ n && n ≤ 0x200A) || n = 0x2028 || n = 0x2029 || n = 0x202F || n = 0x205F || n = 0x3000

/-- `re.search(r"\s+$", s)` then `s[:match.start()]`: drop the maximal whitespace suffix.
(`$` could also match before a final `\n`, but line contents never contain `\n`.) -/
def trimStr : Str → Str
  | [] => []
  | c :: rest =>
      let r := trimStr rest
      if r = [] ∧ isWs c then [] else c :: r

def trim (l : Line) : Line := ⟨trimStr l.content, l.term⟩

/-- `LimitEmptyLines.__call__` with its counter made explicit. -/
def limitStep (n : Nat) (cnt : Nat) (l : Line) : Line × Nat :=
  let cnt' := if l.content = [] then cnt + 1 else 0
  (if cnt' > n then ⟨[], []⟩ else l, cnt')

/-- A line processor with explicit state. -/
inductive PP where
  | trim
  | limit (n : Nat)
deriving DecidableEq, Repr

/-- State of a processor list: one counter per processor (unused for `trim`). -/
def ppStep : PP → Nat → Line → Line × Nat
  | .trim, s, l => (trim l, s)
  | .limit n, s, l => limitStep n s l

/-- `_filter_and_write_line`: run every processor in order on one line. -/
def pipeLine : List PP → List Nat → Line → Line × List Nat
  | p :: ps, s :: ss, l =>
      let r := ppStep p s l
      let r' := pipeLine ps ss r.1
      (r'.1, r.2 :: r'.2)
  | _, ss, l => (l, ss)

def pipeLines (pps : List PP) : List Nat → List Line → List Line
  | _, [] => []
  | ss, l :: ls =>
      let r := pipeLine pps ss l
      r.1 :: pipeLines pps r.2 ls

/-- What is written to the file. -/
def write : List Line → Str
  | [] => []
  | l :: ls => l.content ++ l.term ++ write ls

/-- The file produced for a chunk sequence through a processor list whose counters start at `ss`. -/
def output (pps : List PP) (ss : List Nat) (chunks : List Str) : Str :=
  write (pipeLines pps ss (genLines chunks))

/-- Running a single limiter over a list of lines. -/
def limitLines (n : Nat) : Nat → List Line → List Line
  | _, [] => []
  | cnt, l :: ls =>
      let r := limitStep n cnt l
      r.1 :: limitLines n r.2 ls

/-! ### Several files through one processor list (`_generate_code` called once per file)

The processor objects are shared by all files of a run.  Since the `fix:` commit that gave `LinePostProcessor` a
`reset()` hook, `_generate_code` resets every line processor before the first line of each file. -/

/-- `pipeLines` that also returns the processors' state after the last line. -/
def pipeLinesSt (pps : List PP) : List Nat → List Line → List Line × List Nat
  | ss, [] => ([], ss)
  | ss, l :: ls =>
      let r := pipeLine pps ss l
      let r' := pipeLinesSt pps r.2 ls
      (r.1 :: r'.1, r'.2)

/-- `pp.reset()` for every processor. -/
def resetAll (ss : List Nat) : List Nat := ss.map (fun _ => 0)

/-- The text of one file and the processor state it leaves behind. -/
def genFile (pps : List PP) (ss : List Nat) (chunks : List Str) : Str × List Nat :=
  let r := pipeLinesSt pps ss (genLines chunks)
  (write r.1, r.2)

/-- A run: the files in order, state threaded through, reset at the start of each file. -/
def genFiles (pps : List PP) : List Nat → List (List Str) → List Str
  | _, [] => []
  | ss, f :: fs =>
      let r := genFile pps (resetAll ss) f
      r.1 :: genFiles pps r.2 fs

/-- The same loop before the `reset()` hook existed (kept to record the defect). -/
def genFilesBeforeFix (pps : List PP) : List Nat → List (List Str) → List Str
  | _, [] => []
  | ss, f :: fs =>
      let r := genFile pps ss f
      r.1 :: genFilesBeforeFix pps r.2 fs

/-! ### How the generator assembles its processor list (`CodeGenerator._handle_post_processors`)

The caller's optional list is augmented from the language configuration: a `LimitEmptyLines(limit_empty_lines)` if that
key exists and the list holds no limiter, then a `TrimTrailingWhitespace()` if `trim_trailing_whitespace` is true and
the list holds no trimmer. -/

/-- A post-processor as the assembly sees it (`other k`: any user object, file post-processors included). -/
inductive Item where
  | trim
  | limit (n : Nat)
  | other (k : Nat)
deriving DecidableEq, Repr

def Item.isLimit : Item → Bool | .limit _ => true | _ => false
def Item.isTrim : Item → Bool | .trim => true | _ => false

def augmentLimit (given : Option (List Item)) (n : Nat) : Option (List Item) :=
  match given with
  | none => some [.limit n]
  | some l => if l.any Item.isLimit then some l else some (l ++ [.limit n])

def augmentTrim (given : Option (List Item)) : Option (List Item) :=
  match given with
  | none => some [.trim]
  | some l => if l.any Item.isTrim then some l else some (l ++ [.trim])

/-- `_handle_post_processors`: `cfgLimit = none` is the `KeyError` branch. -/
def assemble (given : Option (List Item)) (cfgLimit : Option Nat) (cfgTrim : Bool) : Option (List Item) :=
  let g1 := match cfgLimit with
    | some n => augmentLimit given n
    | none => given
  if cfgTrim then augmentTrim g1 else g1

/-- `ArgparseRunner._build_post_processor_list_from_args`: `--pp-trim-trailing-whitespace`, `--pp-max-emptylines N`
(any `N`, zero included), `--pp-run-program` (`other 1`), and always a final `SetFileMode` (`other 0`). -/
def cliList (trim : Bool) (maxEmpty : Option Nat) (prog : Bool) : List Item :=
  (if trim then [Item.trim] else []) ++
  (match maxEmpty with | some n => [Item.limit n] | none => []) ++
  (if prog then [Item.other 1] else []) ++ [Item.other 0]

/-- The processor list of a CLI run: the CLI's list augmented from the language configuration. -/
def cliProcessors (trim : Bool) (maxEmpty : Option Nat) (prog : Bool) (cfgLimit : Option Nat) (cfgTrim : Bool) :
    List Item :=
  (assemble (some (cliList trim maxEmpty prog)) cfgLimit cfgTrim).getD []

/-- The limit the first limiter of a list enforces. -/
def firstLimit : List Item → Option Nat
  | [] => none
  | .limit n :: _ => some n
  | _ :: rest => firstLimit rest

/-! ### Vocabulary for stating the limiter contract -/

/-- The elided line `("", "")`: writes nothing. -/
def Line.elided (l : Line) : Bool := l.content = [] ∧ l.term = []

/-- Lines that contribute something to the file. -/
def visible : List Line → List Line
  | [] => []
  | l :: ls => if l.elided then visible ls else l :: visible ls

/-- Lines with non-empty content. -/
def nonEmpty : List Line → List Line
  | [] => []
  | l :: ls => if l.content = [] then nonEmpty ls else l :: nonEmpty ls

/-- `emptyRunsLe n cur ls`: in `ls`, preceded by a run of `cur` empty-content lines, no run of
consecutive empty-content lines is longer than `n`. -/
def emptyRunsLe (n : Nat) : Nat → List Line → Bool
  | _, [] => true
  | cur, l :: ls =>
      if l.content = [] then decide (cur + 1 ≤ n) && emptyRunsLe n (cur + 1) ls
      else emptyRunsLe n 0 ls

end NunavutVerif.LineBuffer
