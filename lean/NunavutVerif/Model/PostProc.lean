import NunavutVerif.Model.LineBuffer
/-!
# C15 (round 2) — the public surface of `nunavut/_postprocessors.py` and the glue around the line buffer

Core Lean only (linked into the `linebuf` driver).  On top of `Model/LineBuffer.lean`:

* line post-processor **objects** as the generator sees them (`LinePostProcessor.__call__` / `reset`): `Proc`, with
  the two built-in classes (`LimitEmptyLines` with its limit as an arbitrary Python `int` — `argparse type=int` and
  `int(config value)` both deliver negative numbers too) and a few user-defined subclasses used by the correspondence;
  `_filter_and_write_line` with its `None` → `ValueError` branch; `_generate_code` per file with `reset()`;
* `SupportGenerator._copy_header` over an explicit destination state (absent / present with some text), the
  `is_dryrun` / `allow_overwrite` flags, `shutil.copy` for an empty line-processor list, otherwise the resource's lines
  (a text file opened with `newline=""` is iterated with universal line ends, untranslated) through the line buffer;
  histories of several runs into one directory;
* the command line → processor list mapping (`ArgparseRunner._build_post_processor_list_from_args`) with integer
  limits, followed by `_handle_post_processors` — which both generators of a run apply to the *same* list object.
-/
namespace NunavutVerif.LineBuffer

/-! ## `LimitEmptyLines` as an object -/

/-- `LimitEmptyLines`: `_max_empty_lines` exactly as handed to the constructor, `_empty_line_count`. -/
structure LimitObj where
  max   : Int
  count : Nat
deriving DecidableEq, Repr

/-- `LimitEmptyLines(max_empty_lines)` -/
def LimitObj.new (n : Int) : LimitObj := ⟨n, 0⟩

/-- `LimitEmptyLines.reset` -/
def LimitObj.reset (o : LimitObj) : LimitObj := ⟨o.max, 0⟩

/-- `LimitEmptyLines.__call__` -/
def LimitObj.call (o : LimitObj) (l : Line) : Line × LimitObj :=
  let c := if l.content.length = 0 then o.count + 1 else 0
  (if (c : Int) > o.max then ⟨[], []⟩ else l, ⟨o.max, c⟩)

/-! ## Line post-processor objects in general -/

/-- A `LinePostProcessor` object: `__call__` (result `none` = the method returned `None`) and `reset`, over a state
that is a natural number (the built-in classes need no more; it is the counter of `LimitEmptyLines`). -/
structure Proc where
  call  : Nat → Line → Option Line × Nat
  reset : Nat → Nat

/-- `TrimTrailingWhitespace`: stateless, inherits the do-nothing `reset` of the base class. -/
def Proc.trim : Proc := ⟨fun s l => (some (LineBuffer.trim l), s), id⟩

/-- `LimitEmptyLines(n)`, any integer `n`. -/
def Proc.limit (n : Int) : Proc :=
  ⟨fun s l => let r := LimitObj.call ⟨n, s⟩ l; (some r.1, r.2.count), fun s => (LimitObj.reset ⟨n, s⟩).count⟩

/-- `PP` (the processors of `Model/LineBuffer.lean`) as objects. -/
def PP.toProc : PP → Proc
  | .trim => Proc.trim
  | .limit n => Proc.limit n

/-- User-defined subclasses used by the correspondence check (harness/c15.py defines the same four classes):
* `0` the documentation's `CommentItAllOut('/*', '*/')`;
* `1` a processor that returns `None` for the line `x` (a programming error the generator must report);
* `2` a stateful processor (marks every second call) that does **not** override `reset`;
* `3` the same with `reset` overridden as the base class documents. -/
def Proc.custom : Nat → Proc
  | 0 => ⟨fun s l => (some (if l.content.length > 0 then ⟨['/', '*', ' '] ++ l.content ++ [' ', '*', '/'], l.term⟩
                            else ⟨[], []⟩), s), id⟩
  | 1 => ⟨fun s l => (if l.content = ['x'] then none else some l, s), id⟩
  | 2 => ⟨fun s l => (some ⟨(if (s + 1) % 2 = 1 then ['#'] else []) ++ l.content, l.term⟩, s + 1), id⟩
  | _ => ⟨fun s l => (some ⟨(if (s + 1) % 2 = 1 then ['#'] else []) ++ l.content, l.term⟩, s + 1), fun _ => 0⟩

/-- `_filter_and_write_line` up to the write: every processor in order; `none` = `ValueError` raised (the processors
called so far keep their new state). -/
def filterLine : List Proc → List Nat → Line → Option Line × List Nat
  | p :: ps, s :: ss, l =>
      match p.call s l with
      | (none, s') => (none, s' :: ss)
      | (some l', s') =>
        let r := filterLine ps ss l'
        (r.1, s' :: r.2)
  | _, ss, l => (some l, ss)

/-- What ends up in the file for a list of lines: the text written, whether `ValueError` ended the writing, and the
processors' state afterwards. -/
def writeLines (ps : List Proc) : List Nat → List Line → Str × Bool × List Nat
  | ss, [] => ([], false, ss)
  | ss, l :: ls =>
      match filterLine ps ss l with
      | (none, ss') => ([], true, ss')
      | (some l', ss') =>
        let r := writeLines ps ss' ls
        (l'.content ++ l'.term ++ r.1, r.2.1, r.2.2)

/-- `pp.reset()` for every processor of the list. -/
def resetProcs : List Proc → List Nat → List Nat
  | p :: ps, s :: ss => p.reset s :: resetProcs ps ss
  | _, ss => ss

/-- One file through `_generate_code` with line processors: reset, then the chunks through the line buffer. -/
def genOutP (ps : List Proc) (ss : List Nat) (chunks : List Str) : Str × Bool × List Nat :=
  writeLines ps (resetProcs ps ss) (genLines chunks)

/-- A run: the files in order through one list of processor objects; a `ValueError` ends the run (the partly written
file is the last entry). -/
def genFilesP (ps : List Proc) : List Nat → List (List Str) → List (Str × Bool)
  | _, [] => []
  | ss, f :: fs =>
      let r := genOutP ps ss f
      if r.2.1 then [(r.1, true)] else (r.1, false) :: genFilesP ps r.2.2 fs

/-- A processor honours the documented `reset` contract: it returns to its initial state. -/
def Proc.ResetsTo (p : Proc) (init : Nat) : Prop := ∀ s, p.reset s = init

/-! ## `SupportGenerator._copy_header` -/

/-- Iteration over a text file opened with `newline=""`: universal line ends (`\n`, `\r\n`, lone `\r`), returned
untranslated and attached to their line; a last line without one is returned as it is. -/
def fileLinesAux : Str → Str → List Str
  | cur, [] => if cur = [] then [] else [cur]
  | cur, [c] => [cur ++ [c]]
  | cur, c :: d :: rest =>
      if c = '\n' then (cur ++ [c]) :: fileLinesAux [] (d :: rest)
      else if c = '\r' then
        if d = '\n' then (cur ++ [c, d]) :: fileLinesAux [] rest
        else (cur ++ [c]) :: fileLinesAux [] (d :: rest)
      else fileLinesAux (cur ++ [c]) (d :: rest)

def fileLines (text : Str) : List Str := fileLinesAux [] text

/-- One run of the support generator as far as a copied (non-template) resource is concerned. -/
structure CopyRun where
  pps   : List PP        -- the run's line post-processors (file post-processors do not touch the text)
  start : List Nat       -- the state the processor objects happen to be in
  dry   : Bool           -- `is_dryrun`
  allow : Bool           -- `allow_overwrite`
deriving DecidableEq, Repr

/-- `_copy_header`: `none` = `PermissionError` from `_handle_overwrite`; otherwise the destination afterwards
(`none` = no such file). -/
def copyHeader (run : CopyRun) (resource : Str) (dst : Option Str) : Option (Option Str) :=
  if run.dry then some dst
  else if dst.isSome ∧ run.allow = false then none
  else if run.pps.length = 0 then some (some resource)            -- shutil.copy
  else some (some (genFile run.pps (resetAll run.start) (fileLines resource)).1)

/-- Several runs into the same output directory; a failed run leaves the file as it was.  Returns what each run
reported and the destination after the last one. -/
def copyHistory (resource : Str) : Option Str → List CopyRun → List (Option (Option Str)) × Option Str
  | dst, [] => ([], dst)
  | dst, r :: rs =>
      let res := copyHeader r resource dst
      let dst' := match res with | some d => d | none => dst
      let rest := copyHistory resource dst' rs
      (res :: rest.1, rest.2)

/-- The property's statement for a copied resource: the processors applied line by line to its text (with no
processor this is the text itself). -/
def linewise (pps : List PP) (text : Str) : Str :=
  write (pipeLines pps (List.replicate pps.length 0) (specLines text))

/-! ## command line → processor list -/

/-- A post-processor as the assembly sees it, with integer limits. -/
inductive CItem where
  | trim
  | limit (n : Int)
  | prog (nargs : Nat)      -- `ExternalProgramEditInPlace([program] + nargs arguments)`
  | mode (m : Nat)          -- `SetFileMode(file_mode)`
  | other (k : Nat)         -- any other object of an API caller
deriving DecidableEq, Repr

def CItem.isLimit : CItem → Bool | .limit _ => true | _ => false
def CItem.isTrim : CItem → Bool | .trim => true | _ => false
def CItem.isLine : CItem → Bool | .trim => true | .limit _ => true | _ => false

/-- The parsed command line as far as post-processing goes. -/
structure PPArgs where
  trim     : Bool               -- `--pp-trim-trailing-whitespace`
  maxEmpty : Option Int         -- `--pp-max-emptylines N` (`type=int`)
  prog     : Option Nat         -- `--pp-run-program P` with this many `--pp-run-program-arg`
  fileMode : Nat                -- `--file-mode` (default 0o444)
deriving DecidableEq, Repr

/-- `ArgparseRunner._build_post_processor_list_from_args` -/
def cliListZ (a : PPArgs) : List CItem :=
  (if a.trim then [CItem.trim] else []) ++
  (match a.maxEmpty with | some n => [CItem.limit n] | none => []) ++
  (match a.prog with | some k => [CItem.prog k] | none => []) ++ [CItem.mode a.fileMode]

/-- `_handle_post_processors` (`cfgLimit = none`: `KeyError`; the value is `int(...)` of the configured text). -/
def assembleZ (given : Option (List CItem)) (cfgLimit : Option Int) (cfgTrim : Bool) : Option (List CItem) :=
  let g1 := match cfgLimit with
    | some n =>
      (match given with
       | none => some [CItem.limit n]
       | some l => if l.any CItem.isLimit then some l else some (l ++ [CItem.limit n]))
    | none => given
  if cfgTrim then
    (match g1 with
     | none => some [CItem.trim]
     | some l => if l.any CItem.isTrim then some l else some (l ++ [CItem.trim]))
  else g1

/-- The processor list of a CLI run. -/
def cliProcessorsZ (a : PPArgs) (cfgLimit : Option Int) (cfgTrim : Bool) : List CItem :=
  (assembleZ (some (cliListZ a)) cfgLimit cfgTrim).getD []

/-- The line processors of a list, in order — what a generated text goes through. -/
def lineProcs : List CItem → List CItem
  | [] => []
  | i :: is => if i.isLine then i :: lineProcs is else lineProcs is

end NunavutVerif.LineBuffer
