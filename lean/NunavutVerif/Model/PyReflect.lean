import NunavutVerif.Model.PyObj
/-!
# C18, statement 3 — which model object ends up behind `get_model(C)`

The part of "the type model embedded in each class equals the source DSDL model" that is *logic* of Nunavut
(as opposed to `pickle`/`gzip`/`base85` of the Python runtime):

* `DSDLCodeGenerator.generate_all` / `_generate_type` / `_generate_code` / `_handle_overwrite`
  (`jinja/__init__.py`): every `(type, output path)` of the run is rendered and written — unconditionally when
  `allow_overwrite`, `PermissionError` for an existing file otherwise; nothing else is consulted;
* `base.j2` `data_schema(name, type, parent)`: the class body binds `_MODEL_ = _restore_constant_({{ type | pickle }})`
  where `type` is the macro *argument* (`T` for `StructureType.j2`/`UnionType.j2`/`DelimitedType.j2`;
  `T.request_type` / `T.response_type` for the nested `Request` / `Response` classes of `ServiceType.j2`, whose outer
  class binds `T`);
* `Namespace.j2`: `from <full_reference_name> import <short_reference_name> as <short_reference_name>` for every type
  of the namespace, then `<Name>_<major> = <short_reference_name of the newest minor>`;
* `nunavut_support.get_model`: `class_or_instance._MODEL_`; attribute lookup on a package (`pkg.Name_M`).

`filter_pickle` = base85 ∘ gzip ∘ pickle and `_restore_constant_` = its inverse enter as an abstract `Codec` with the
single law `dec (enc m) = some m` (trusted; tied by executing the generated modules: the harness compares
`get_model(C)` structurally with the PyDSDL model on every class).  Models `M` and blobs `B` are opaque.
-/
namespace NunavutVerif.PyReflect
open NunavutVerif.PyObj

/-- Dotted path of a generated module (`["ns", "geo", "Point_1_0"]`) or package (`["ns", "geo"]` = its `__init__`). -/
abbrev Path := List String

/-- `filter_pickle` / `_restore_constant_`. -/
structure Codec (M B : Type) where
  enc : M → B
  dec : B → Option M
  inv : ∀ m, dec (enc m) = some m

/-- One stage of the blob pipeline (`pickle.dumps`/`loads`, `gzip.compress`/`decompress`, `b85encode`/`b85decode`):
an abstract pair with its round-trip law (trusted, runtime library). -/
structure Stage (A B : Type) where
  f : A → B
  g : B → Option A
  inv : ∀ a, g (f a) = some a

/-- `map("".join, itertools.zip_longest(*([iter(pck)] * n), fillvalue=""))`: consecutive segments of `n` characters,
the last one shorter (`fuel` = an upper bound of the number of segments). -/
def segmentsAux (n : Nat) : Nat → List Char → List (List Char)
  | 0, _ => []
  | fuel + 1, s => if s.isEmpty then [] else s.take n :: segmentsAux n fuel (s.drop n)

def segments (n : Nat) (s : List Char) : List (List Char) := segmentsAux n s.length s

/-- `filter_pickle`: `b85encode(gzip.compress(pickle.dumps(x)))` cut into segments of 100 characters, one string
literal per line (`"\n".join(repr(x) for x in segment_gen)`; the base85 alphabet has no quote or backslash). -/
def filterPickle {M Y : Type} (pk : Stage M Y) (gz : Stage Y Y) (b85 : Stage Y (List Char)) (m : M) : List (List Char) :=
  segments 100 (b85.f (gz.f (pk.f m)))

/-- `_restore_constant_(<adjacent string literals>)`: Python concatenates the literals, then
`pickle.loads(gzip.decompress(base64.b85decode(s)))`. -/
def restoreConstant {M Y : Type} (pk : Stage M Y) (gz : Stage Y Y) (b85 : Stage Y (List Char)) (lits : List (List Char)) :
    Option M :=
  ((b85.g lits.flatten).bind gz.g).bind pk.g

/-- One definition as the templates see it (`T`): namespace components *as generated* (stropped), short name,
version, its PyDSDL model, and for a service type the models of the request and response types. -/
structure Def (M : Type) where
  ns : List String
  name : String
  major : Nat
  minor : Nat
  model : M
  svc : Option (M × M) := none

/-- `short_reference_name`: `Name_major_minor`. -/
def shortRef {M : Type} (d : Def M) : String := s!"{d.name}_{d.major}_{d.minor}"

/-- The module generated for a definition (`full_reference_name`). -/
def modulePath {M : Type} (d : Def M) : Path := d.ns ++ [shortRef d]

/-- What a generated file means to the importing interpreter, as far as `_MODEL_` is concerned.
`module`: class path inside the module ↦ the blob its body hands to `_restore_constant_`;
`package`: the `from … import … as …` lines and the alias assignments that follow them. -/
inductive File (B : Type)
  | module (classes : List (List String × B))
  | package (imports : List (Path × String)) (aliases : List (String × String))

/-- `StructureType.j2` / `UnionType.j2` / `DelimitedType.j2` (one class bound to `T`) and `ServiceType.j2`
(`Request` ↦ `T.request_type`, `Response` ↦ `T.response_type`, then the outer class ↦ `T`). -/
def renderType {M B : Type} (c : Codec M B) (d : Def M) : File B :=
  match d.svc with
  | none => .module [([shortRef d], c.enc d.model)]
  | some (rq, rs) =>
    .module [([shortRef d, "Request"], c.enc rq), ([shortRef d, "Response"], c.enc rs), ([shortRef d], c.enc d.model)]

def tyId {M : Type} (d : Def M) : TyId := ⟨d.name, d.major, d.minor, false⟩

/-- The alias assignments `Name_M = Name_M_m` of `Namespace.j2` (`newest_minor_version_aliases`). -/
def aliasTable {M : Type} (here : List (Def M)) : List (String × String) :=
  (aliases (here.map tyId)).map fun t => (aliasName t.name t.major, s!"{t.name}_{t.major}_{t.minor}")

/-- `Namespace.j2` for the package `ns` (after `fix: a Python package alias no longer rebinds the name of a generated
class`): an alias whose name is the `short_reference_name` of a type of the namespace is not emitted. -/
def renderPackage {M B : Type} (defs : List (Def M)) (ns : List String) : File B :=
  let here := defs.filter (fun d => d.ns = ns)
  .package (here.map fun d => (modulePath d, shortRef d))
    ((aliasTable here).filter fun a => !(here.map shortRef).contains a.1)

/-- `Namespace.j2` as shipped before the fix: every alias is assigned, also over an imported class
(`Foo_1.2.0` next to `Foo.1.2`: `Foo_1_2 = Foo_1_2_0`). -/
def renderPackageBeforeFix {M B : Type} (defs : List (Def M)) (ns : List String) : File B :=
  let here := defs.filter (fun d => d.ns = ns)
  .package (here.map fun d => (modulePath d, shortRef d)) (aliasTable here)

/-- The output directory: what is stored under each path. -/
abbrev FS (B : Type) := Path → Option (File B)

def write {B : Type} (fs : FS B) (p : Path) (f : File B) : FS B := fun q => if q = p then some f else fs q

/-- `PermissionError` of `_handle_overwrite`. -/
inductive GenErr | exists
  deriving DecidableEq, Repr

/-- `_generate_code` for each `(output path, rendered text)` in order: `_handle_overwrite` (an existing file is
made writable when `allow_overwrite`, else `PermissionError`), then `open(path, "w")`.  The previous content,
its age, and whatever else lies in the directory are not consulted. -/
def writeAll {B : Type} (allow : Bool) : FS B → List (Path × File B) → Except GenErr (FS B)
  | fs, [] => .ok fs
  | fs, (p, f) :: rest =>
    if (fs p).isSome && !allow then .error .exists else writeAll allow (write fs p f) rest

/-- All prefixes of a namespace path, shortest first (every parent package gets an `__init__`). -/
def prefixes : List String → List (List String)
  | [] => []
  | c :: cs => [c] :: (prefixes cs).map (c :: ·)

/-- Remove repeated paths (keeps the last occurrence). -/
def dedup : List Path → List Path
  | [] => []
  | p :: ps => if p ∈ dedup ps then dedup ps else p :: dedup ps

def packages {M : Type} (defs : List (Def M)) : List Path := dedup (defs.flatMap fun d => prefixes d.ns)

/-- Everything one run writes: a module per definition, an `__init__` per namespace. -/
def outputs {M B : Type} (c : Codec M B) (defs : List (Def M)) : List (Path × File B) :=
  (defs.map fun d => (modulePath d, renderType c d)) ++ (packages defs).map fun ns => (ns, renderPackage defs ns)

/-- `generate_all` of the Python target into a directory whose current content is `fs`. -/
def generateAll {M B : Type} (c : Codec M B) (allow : Bool) (fs : FS B) (defs : List (Def M)) : Except GenErr (FS B) :=
  writeAll allow fs (outputs c defs)

/-- A sequence of runs into the same directory (each with overwriting allowed, the default). -/
def regenerate {M B : Type} (c : Codec M B) : FS B → List (List (Def M)) → FS B
  | fs, [] => fs
  | fs, defs :: more =>
    match generateAll c true fs defs with
    | .ok fs' => regenerate c fs' more
    | .error _ => regenerate c fs more

/-- `get_model(C)` for the class at `cls` (e.g. `["Svc_1_0", "Request"]`) of the module at `mod`, in a fresh
interpreter: import the module, walk the attributes, read `_MODEL_` (= `_restore_constant_(blob)`). -/
def classModel {M B : Type} (c : Codec M B) (fs : FS B) (mod : Path) (cls : List String) : Option M :=
  match fs mod with
  | some (.module classes) => (classes.lookup cls).bind c.dec
  | _ => none

/-- Attribute `attr` of the package at `pkg`, resolved to `(module, class name)`: the alias assignments run after the
imports, so an alias name shadows an imported class of the same name. -/
def packageAttr {B : Type} (fs : FS B) (pkg : Path) (attr : String) : Option (Path × String) :=
  match fs pkg with
  | some (.package imports als) =>
    let cls := (als.lookup attr).getD attr
    imports.find? (fun mc => mc.2 = cls)
  | _ => none

/-- `get_model(pkg.attr)`. -/
def getModelVia {M B : Type} (c : Codec M B) (fs : FS B) (pkg : Path) (attr : String) : Option M :=
  (packageAttr fs pkg attr).bind fun mc => classModel c fs mc.1 [mc.2]

def emptyFS {B : Type} : FS B := fun _ => none

/-- The codec the driver runs: models and blobs are opaque digests, `enc = id`. -/
def idCodec : Codec String String := ⟨id, some, fun _ => rfl⟩

end NunavutVerif.PyReflect
