import NunavutVerif.Model.Dsdl
import NunavutVerif.Model.BitsPy
import NunavutVerif.Model.PyObj
/-!
# Implementation-shaped model of the generated Python codecs (refinement layer of C01 / C02 / C18, Python target)

Transcription of what `lang/py/templates/serialization.j2`, `deserialization.j2` and `base.j2` *emit* (the
`_serialize_` / `_deserialize_` methods of a generated class) and of `serialize` / `deserialize` /
`Serializer.fork_bytes` / `Deserializer.fork_bytes` / `ZeroExtendingBuffer.fork_bytes` of `nunavut_support.j2`.
The bit-level primitives (`add_aligned_*`, `add_unaligned_*`, `fetch_*`, `pad_to_alignment`, `skip_bits`,
`_unsigned_to_bytes`, `ZeroExtendingBuffer`) are **not** re-modelled: every call goes to `Model/BitsPy.lean`, whose
contracts are C14's theorems.

What is transcribed
* the template's *generation-time* choice between the `aligned` and the `unaligned` method family
  (`offset|alignment_prefix`, `offset.is_aligned_at_byte()`): the template threads a PyDSDL `BitLengthSet` through
  the fields; here the set is abstracted to what that one query inspects — the residue of the offset modulo 8 if it is
  the same for every value of the preceding fields (`AOff = Option Nat`; two or more residues never collapse to one
  again before the next `pad_to_alignment(8)`).  The residue summary of a *type's* bit length set is the **oracle**
  `Env.lr` (a parameter; PyDSDL in reality).  The refinement theorems need it *sound* (`LrSound`: a claimed residue is
  the residue of every serialized length); `lenRes` is the concrete analysis the driver runs, proved sound;
* integer fields (`max(min(x, hi), lo)` saturation text, `add_aligned_{u,i}{8,16,32,64}` for standard widths at an
  aligned offset, otherwise `add_{aligned,unaligned}_{unsigned,signed}(x, n)`), bool (`add_unaligned_bit`), void
  (`skip_bits`, relying on the zero-initialised buffer), float (the emitted `isfinite`/compare saturation text around
  `_float_to_bytes`, `struct.pack` with the `OverflowError` fallback — Python float semantics enter as oracle
  functions of `Env`, law `FloatSound`);
* fixed arrays: `assert len == n`, the bulk paths `add_*_array_of_bits` (NumPy `packbits`, modelled in BitsPy) and
  `add_*_array_of_standard_bit_length_primitives` (`x.view(Byte)` — NumPy oracle `Env.viewBytes`), else the element
  loop with the element offset `offset + element.bit_length_set.repeat_range(n - 1)`;
* variable arrays: `assert len <= cap`, the length prefix through the integer macro, same three element paths with
  the offsets the template uses;
* `pad_to_alignment` before (and, for arrays of composites, after) every field of alignment 8;
* nested sealed composites (`_serialize_` on the same serializer, alignment assertions, the final
  `pad_to_alignment(8)` and the `min <= length <= max` assertion);
* delimited composites: fixed-length inner type ⇒ constant header + in-place call; otherwise `fork_bytes` (a NumPy
  *view* of the parent's buffer: the forked serializer works on the sub-list and the result is written back into the
  parent — the functional rendering of aliasing), header reserved with `skip_bits(32)`, nested call, header
  back-patched with `add_aligned_u32`, `skip_bits`;
* unions: tag through the integer macro, `if … is not None` chain, `RuntimeError('Malformed union')`;
* decoding: the mirror image over `Deserializer`/`ZeroExtendingBuffer` (implicit zero extension inside the
  primitives), `FormatError` at the three raise sites (array length prefix, union tag, delimiter header compared with
  `max(remaining_bit_length, 0)`), `Deserializer.fork_bytes` + `ZeroExtendingBuffer.fork_bytes` with their
  `ValueError`s, `numpy.empty` + element store (NumPy 2 raises `OverflowError` outside the dtype),
  `frombuffer` (oracle `Env.fromBuffer`), `unpackbits` (BitsPy), the call of the generated constructor with the
  decoded fields (`ctorOK`: the setter checks C18 models — integer range, float range, array length);
* `serialize(obj)`: `Serializer.new(_EXTENT_BYTES_)` (one spare byte), `_serialize_`, `buffer` =
  `_buf[:(bit_offset + 7) // 8]`; `deserialize(cls, fragments)`: `FormatError` ⇒ `None`.

Python objects are abstracted to `Dsdl.Val` (integers unbounded, floats as binary64 patterns, a union object as the
index of the one attribute that is not `None` — an index ≥ option count stands for "every attribute is `None`").
-/
namespace NunavutVerif.GenPy
open NunavutVerif.Dsdl
open NunavutVerif.Bits (Buf Err)
open NunavutVerif.Bits.Py

/-! ## Exceptions -/

/-- Exception raised by the generated code or the support library.  `format` carries the raise site. -/
inductive Exc
  /-- raised inside a `Serializer`/`Deserializer` primitive (C14's enum: IndexError, broadcast ValueError, failed
  assertion / ValueError on misuse, NumPy OverflowError on `uint8` store) -/
  | prim (e : Err)
  /-- an `assert` emitted by the templates failed (`AssertionError`) -/
  | assertion
  /-- `RuntimeError('Malformed union …')` -/
  | malformedUnion
  /-- `Deserializer.FormatError` -/
  | format (k : DeErr)
  /-- `ValueError` of `Serializer.fork_bytes` / `Deserializer.fork_bytes` / `ZeroExtendingBuffer.fork_bytes` -/
  | fork
  /-- `ValueError` raised by the generated constructor (setter refused a decoded value) -/
  | ctor
  /-- `OverflowError` storing a decoded element into a NumPy array / packing a float -/
  | overflow
  /-- the object does not have the attributes / element kinds of the type (not constructible through the generated
  classes; `AttributeError`/`TypeError` in reality) -/
  | shape
  deriving DecidableEq, Repr

def lift {α : Type} : Except Err α → Except Exc α
  | .ok a => .ok a
  | .error e => .error (.prim e)

def assertThat (c : Bool) : Except Exc Unit := if c then .ok () else .error .assertion

/-! ## The offset abstraction of the templates -/

/-- What `offset.is_aligned_at_byte()` needs to know of a `BitLengthSet`: `some r` — every member is `≡ r (mod 8)`;
`none` — members with different residues. -/
abbrev AOff := Option Nat

namespace AOff
/-- `offset.is_aligned_at_byte()` / `offset|alignment_prefix == 'aligned'` -/
def isAligned : AOff → Bool
  | some r => r % 8 == 0
  | none => false
/-- `offset + lengths` -/
def add : AOff → AOff → AOff
  | some a, some b => some ((a + b) % 8)
  | _, _ => none
/-- `offset.pad_to_alignment(a)` for `a` ∈ {1, 8} -/
def pad (a : Nat) (o : AOff) : AOff := if a = 8 then some 0 else o
/-- `lengths.repeat_range(k)`: 0 … k repetitions -/
def rep (r : AOff) (k : Nat) : AOff :=
  if k = 0 then some 0 else
  match r with
  | some x => if x % 8 = 0 then some 0 else none
  | none => none
end AOff

/-! ## Oracles -/

/-- Everything the generated code takes from outside the templates and the support library. -/
structure Env where
  /-- PyDSDL: residue summary of `t.bit_length_set` (nested position) -/
  lr : Ty → AOff
  /-- NumPy: `x.view(Byte)` of a one-dimensional array of `dtype(t)` holding `vs` (`none`: an element is not of that
  dtype) -/
  viewBytes : Ty → List Val → Option Buf
  /-- NumPy: `numpy.frombuffer(bytes, dtype(t), count)` as a list of values -/
  fromBuffer : Ty → Buf → Nat → List Val
  /-- CPython: `struct.pack('<e' | '<f' | '<d', x)` as a little-endian number (`none`: `OverflowError`) -/
  pack : Nat → Nat → Option Nat
  /-- CPython: `struct.unpack` (binary64 pattern of the result) -/
  unpack : Nat → Nat → Nat
  /-- `numpy.isfinite(x)` -/
  isFinite : Nat → Bool
  /-- `x > y` on Python floats (binary64 patterns) -/
  fgt : Nat → Nat → Bool
  /-- `x < y` -/
  flt : Nat → Nat → Bool

/-! ## Constants the templates render from the PyDSDL model -/

/-- `t.standard_bit_length` -/
def isStd (n : Nat) : Bool := n == 8 || n == 16 || n == 32 || n == 64

/-- width of the NumPy dtype chosen by `numpy_scalar_type` -/
def storageBits (n : Nat) : Nat := if n ≤ 8 then 8 else if n ≤ 16 then 16 else if n ≤ 32 then 32 else 64

/-- `t.element_type is BooleanType` -/
def isBoolTy : Ty → Bool
  | .bool => true
  | _ => false

/-- `t.element_type is PrimitiveType and t.element_type.standard_bit_length` (bool is handled before) -/
def isStdPrim : Ty → Bool
  | .uint n _ => isStd n
  | .sint n _ => isStd n
  | .float _ _ => true
  | _ => false

/-- bit width of a primitive -/
def primBits : Ty → Nat
  | .uint n _ => n
  | .sint n _ => n
  | .float n _ => n
  | .bool => 1
  | _ => 0

/-- binary64 pattern of the literal `{{ t.inclusive_value_range.max }}.0` of a float16 / float32 field -/
def fmaxLit (n : Nat) : Nat := if n = 16 then 0x40effc0000000000 else 0x47efffffe0000000

def negOf (x : Nat) : Nat := x + 2 ^ 63

def infPat : Nat := 0x7ff0000000000000

/-! ## Serialization: primitives -/

def addAlignedUW (W : Nat) (s : Ser) (x : Int) : Except Err Ser :=
  if W = 8 then addAlignedU8 s x else if W = 16 then addAlignedU16 s x
  else if W = 32 then addAlignedU32 s x else if W = 64 then addAlignedU64 s x else .error .usage

/-- which method family the integer macros pick (shared by `_serialize_integer` and `_deserialize_integer`) -/
inductive IntPath
  /-- `add_aligned_u8 … i64` / `fetch_aligned_u8 … i64` -/
  | alignedStd
  /-- `add_aligned_unsigned/signed(x, n)` / `fetch_aligned_unsigned/signed(n)` -/
  | aligned
  /-- `add_unaligned_unsigned/signed(x, n)` / `fetch_unaligned_unsigned/signed(n)` -/
  | unaligned
  deriving DecidableEq, Repr

/-- `{% if t.standard_bit_length and offset.is_aligned_at_byte() %} … {% else %} … offset|alignment_prefix` -/
def intPath (al : Bool) (n : Nat) : IntPath :=
  if isStd n && al then .alignedStd else if al then .aligned else .unaligned

/-- which of the three element paths the array macros pick -/
inductive ArrPath
  | bits      -- `…_array_of_bits`
  | std       -- `…_array_of_standard_bit_length_primitives`
  | loop      -- element by element
  deriving DecidableEq, Repr

def arrPath (t : Ty) : ArrPath := if isBoolTy t then .bits else if isStdPrim t then .std else .loop

/-- the argument text of `_serialize_integer`: `max(min(x, hi), lo)` when the type is saturated -/
def intArg (signed : Bool) (n : Nat) (m : Cast) (x : Int) : Int :=
  match m with
  | .sat => max (min x (PyObj.intHi signed n)) (PyObj.intLo signed n)
  | .trunc => x

/-- `_serialize_integer(t, ref, offset)` -/
def serInt (al signed : Bool) (n : Nat) (m : Cast) (s : Ser) (x : Int) : Except Exc Ser :=
  let x := intArg signed n m x
  lift <|
    match intPath al n with
    | .alignedStd => if signed then addAlignedI n s x else addAlignedUW n s x
    | .aligned => if signed then addAlignedSigned s x n else addAlignedUnsigned s x n
    | .unaligned => if signed then addUnalignedSigned s x n else addUnalignedUnsigned s x n

/-- `Serializer._float_to_bytes(fmt, x)`: the wire pattern -/
def floatToWire (env : Env) (n : Nat) (x : Nat) : Except Exc Nat :=
  match env.pack n x with
  | some w => .ok w
  | none =>
    match env.pack n (if env.fgt x 0 then infPat else negOf infPat) with
    | some w => .ok w
    | none => .error .overflow

/-- the value handed to `add_*_fN` by the emitted saturation text of `_serialize_float` -/
def floatArg (env : Env) (n : Nat) (m : Cast) (x : Nat) : Nat :=
  match m with
  | .trunc => x
  | .sat =>
    if n < 64 then
      if env.isFinite x then
        if env.fgt x (fmaxLit n) then fmaxLit n
        else if env.flt x (negOf (fmaxLit n)) then negOf (fmaxLit n)
        else x
      else x
    else x

/-- wire pattern of a float field: saturation text, then `_float_to_bytes` -/
def floatWire (env : Env) (n : Nat) (m : Cast) (x : Nat) : Except Exc Nat :=
  floatToWire env n (floatArg env n m x)

/-- `_serialize_float(t, ref, offset)` -/
def serFloat (env : Env) (al : Bool) (n : Nat) (m : Cast) (s : Ser) (x : Nat) : Except Exc Ser := do
  let w ← floatWire env n m x
  let bytes := bytesLoop w (n / 8)
  lift (if al then addAlignedBytes s bytes else addUnalignedBytes s bytes)

def asBool : Val → Option Bool
  | .bool b => some b
  | _ => none

/-- the three element paths share the loop -/
def serElemsWith (f : Ser → Val → Except Exc Ser) : Ser → List Val → Except Exc Ser
  | s, [] => .ok s
  | s, v :: vs =>
    match f s v with
    | .error e => .error e
    | .ok s1 => serElemsWith f s1 vs

/-- `add_{aligned,unaligned}_array_of_bits(ref)` -/
def serBitArray (al : Bool) (s : Ser) (vs : List Val) : Except Exc Ser :=
  match vs.mapM asBool with
  | none => .error .shape
  | some bits => lift (if al then addAlignedArrayOfBits s bits else addUnalignedArrayOfBits s bits)

/-- `add_{aligned,unaligned}_array_of_standard_bit_length_primitives(ref)` (little-endian platform) -/
def serStdArray (env : Env) (al : Bool) (t : Ty) (s : Ser) (vs : List Val) : Except Exc Ser :=
  match env.viewBytes t vs with
  | none => .error .shape
  | some bytes => lift (if al then addAlignedBytes s bytes else addUnalignedBytes s bytes)

/-- `pad_to_alignment(a)` emitted only when `a > 1` -/
def serPad (a : Nat) (s : Ser) : Except Exc Ser :=
  if a > 1 then lift (padToAlignment s a) else .ok s

/-! ## `Serializer.fork_bytes` -/

/-- the forked serializer: a view of `_buf[byte_offset:][:size + 1]` with its own cursor at 0 -/
def forkSer (s : Ser) (sizeBytes : Nat) : Except Exc Ser :=
  if s.off % 8 ≠ 0 then .error .fork
  else
    let fb := s.buf.drop (s.off / 8)
    let size := sizeBytes + 1
    if fb.length < size then .error .fork
    else .ok ⟨fb.take size, 0⟩

/-- what the parent's buffer holds after the fork has written through its view -/
def joinSer (s nested : Ser) : Ser :=
  ⟨s.buf.take (s.off / 8) ++ nested.buf ++ s.buf.drop (s.off / 8 + nested.buf.length), s.off⟩

/-! ## Serialization: the emitted methods

Every macro of `serialization.j2` is a combinator that receives the recursive renderings (`elem`, `obj`, `fields`,
`nth`) as functions; the mutual block below ties the knot by structural recursion over the type. -/

/-- the three element paths of both array macros; `al` is the claim the bulk methods use, `elem` the element
rendering with the element offset already applied -/
def serArrBody (env : Env) (elem : Ser → Val → Except Exc Ser) (t : Ty) (al : Bool) (s : Ser) (vs : List Val) :
    Except Exc Ser :=
  match arrPath t with
  | .bits => serBitArray al s vs
  | .std => serStdArray env al t s vs
  | .loop => serElemsWith elem s vs

/-- `_serialize_fixed_length_array(t, ref, offset)` inside `_serialize_any` (with the array's own padding) -/
def serArrWith (env : Env) (elem : AOff → Ser → Val → Except Exc Ser) (t : Ty) (n : Nat) (o : AOff) (s : Ser)
    (vs : List Val) : Except Exc Ser := do
  let s0 ← serPad (align t) s
  assertThat (vs.length == n)
  let s1 ← serArrBody env (elem (o.add ((env.lr t).rep (n - 1)))) t o.isAligned s0 vs
  serPad (align t) s1

/-- `_serialize_variable_length_array(t, ref, offset)` inside `_serialize_any` -/
def serVarrWith (env : Env) (elem : AOff → Ser → Val → Except Exc Ser) (t : Ty) (cap : Nat) (o : AOff) (s : Ser)
    (vs : List Val) : Except Exc Ser := do
  let s0 ← serPad (align t) s
  assertThat (decide (vs.length ≤ cap))
  let s1 ← serInt o.isAligned false (prefixBits cap) .trunc s0 (vs.length : Int)
  let s2 ← serArrBody env (elem (o.add (env.lr (.varr t cap)))) t (o.add (some (prefixBits cap))).isAligned s1 vs
  serPad (align t) s2

/-- `_serialize_any` of a sealed composite: pad, `ref._serialize_(_ser_)`, alignment assertion -/
def serNested (obj : Ser → Val → Except Exc Ser) (s : Ser) (v : Val) : Except Exc Ser := do
  let s0 ← serPad 8 s
  let s1 ← obj s0 v
  assertThat (s1.off % 8 == 0)
  .ok s1

/-- `_serialize_any` of a delimited composite; `mn`, `mx` = `inner_type.bit_length_set.min/max`
(`inner_type.extent = mx`) -/
def serDelimWith (mn mx : Nat) (obj : Ser → Val → Except Exc Ser) (s : Ser) (v : Val) : Except Exc Ser := do
  let s0 ← serPad 8 s
  let s3 ←
    if mn ≠ mx then do
      -- `nested_capacity_bytes = (inner.extent + 32) // 8`
      let nested ← forkSer s0 ((mx + headerBits) / 8)
      let n1 := skipBits nested headerBits
      assertThat (n1.off == headerBits)
      let n2 ← obj n1 v
      let nestedLength := n2.off - headerBits
      let s1 := joinSer s0 n2                                   -- `del _nested_`: only the bytes remain
      assertThat (decide (mn ≤ nestedLength ∧ nestedLength ≤ mx))
      assertThat (nestedLength % 8 == 0)
      let s2 ← lift (addAlignedU32 s1 ((nestedLength / 8 : Nat) : Int))
      pure (skipBits s2 nestedLength)
    else do
      let s1 ← lift (addAlignedU32 s0 ((mx / 8 : Nat) : Int))
      let s2 ← obj s1 v
      assertThat (s2.off - s1.off == mx)
      pure s2
  assertThat (s3.off % 8 == 0)
  .ok s3

/-- `_serialize_` of a structure class -/
def serStructWith (fs : List Ty) (fields : AOff → Ser → List Val → Except Exc Ser) (s : Ser) :
    Val → Except Exc Ser
  | .struct vs => do
    assertThat (s.off % 8 == 0)
    let s1 ← fields (some 0) s vs
    let s2 ← lift (padToAlignment s1 8)
    assertThat (decide (minBits (.struct fs) ≤ s2.off - s.off ∧ s2.off - s.off ≤ maxBits (.struct fs)))
    .ok s2
  | _ => .error .shape

/-- `_serialize_` of a union class -/
def serUnionWith (fs : List Ty) (nth : Nat → AOff → Ser → Val → Except Exc Ser) (s : Ser) :
    Val → Except Exc Ser
  | .union k v => do
    assertThat (s.off % 8 == 0)
    let s2 ←
      if k < fs.length then do
        let s1 ← serInt true false (tagBits fs.length) .trunc s (k : Int)
        nth k (some (tagBits fs.length % 8)) s1 v
      else .error .malformedUnion
    let s3 ← lift (padToAlignment s2 8)
    assertThat (decide (minBits (.union fs) ≤ s3.off - s.off ∧ s3.off - s.off ≤ maxBits (.union fs)))
    .ok s3
  | _ => .error .shape

mutual
/-- `_serialize_any(t, ref, offset)`; `o` is the template's `offset` (already padded to the field's alignment). -/
def serAny (env : Env) : Ty → AOff → Ser → Val → Except Exc Ser
  | .uint n m, o, s, .int x => serInt o.isAligned false n m s x
  | .sint n m, o, s, .int x => serInt o.isAligned true n m s x
  | .float n m, o, s, .float x => serFloat env o.isAligned n m s x
  | .bool, _, s, .bool b => lift (addUnalignedBit s b)
  | .void n, _, s, .void => .ok (skipBits s n)
  | .arr t n, o, s, .arr vs => serArrWith env (serAny env t) t n o s vs
  | .varr t cap, o, s, .arr vs => serVarrWith env (serAny env t) t cap o s vs
  | .struct fs, _, s, v => serNested (serStructWith fs (serFieldsPy env fs)) s v
  | .union fs, _, s, v => serNested (serUnionWith fs (serNthPy env fs)) s v
  | .delim _ inner, _, s, v => serDelimWith (minBits inner) (maxBits inner) (serObj env inner) s v
  | _, _, _, _ => .error .shape
/-- the generated method `_serialize_(self, _ser_)` of a class (`t` = the class's `inner_type`) -/
def serObj (env : Env) : Ty → Ser → Val → Except Exc Ser
  | .struct fs, s, v => serStructWith fs (serFieldsPy env fs) s v
  | .union fs, s, v => serUnionWith fs (serNthPy env fs) s v
  | _, _, _ => .error .shape
/-- the field loop of a structure (`iterate_fields_with_offsets`) -/
def serFieldsPy (env : Env) : List Ty → AOff → Ser → List Val → Except Exc Ser
  | [], _, s, [] => .ok s
  | f :: fs, o, s, v :: vs =>
    match serAny env f (o.pad (align f)) s v with
    | .error e => .error e
    | .ok s1 => serFieldsPy env fs ((o.pad (align f)).add (env.lr f)) s1 vs
  | _, _, _, _ => .error .shape
/-- the selected branch of the `if … is not None` chain of a union -/
def serNthPy (env : Env) : List Ty → Nat → AOff → Ser → Val → Except Exc Ser
  | [], _, _, _, _ => .error .malformedUnion
  | f :: _, 0, o, s, v => serAny env f o s v
  | _ :: fs, k + 1, o, s, v => serNthPy env fs k o s v
end

/-- `nunavut_support.serialize(obj)` joined into one byte string.  `t` is the (possibly delimited) top-level type. -/
def serializePy (env : Env) (t : Ty) (v : Val) : Except Exc Buf :=
  -- `Serializer.new(obj._EXTENT_BYTES_)`: `numpy.zeros(extent_bytes + 1)`
  let s0 : Ser := ⟨List.replicate (extent t / 8 + 1) 0, 0⟩
  match serObj env (topInner t) s0 v with
  | .error e => .error e
  | .ok s => .ok (s.buf.take ((s.off + 7) / 8))

/-! ## Deserialization: primitives -/

def asInt (r : Except Err (Nat × De)) : Except Err (Int × De) :=
  match r with
  | .ok (x, d) => .ok ((x : Int), d)
  | .error e => .error e

/-- `_deserialize_integer(t, ref, offset)` -/
def deInt (al signed : Bool) (n : Nat) (d : De) : Except Exc (Int × De) :=
  lift <|
    match intPath al n with
    | .alignedStd => if signed then fetchAlignedI n d else asInt (fetchAlignedU n d)
    | .aligned => if signed then fetchAlignedSigned d n else asInt (fetchAlignedUnsigned d n)
    | .unaligned => if signed then fetchUnalignedSigned d n else asInt (fetchUnalignedUnsigned d n)

/-- `fetch_{aligned,unaligned}_f{n}()` -/
def deFloat (env : Env) (al : Bool) (n : Nat) (d : De) : Except Exc (Val × De) := do
  let r ← lift (if al then fetchAlignedBytes d (n / 8) else fetchUnalignedBytes d (n / 8))
  .ok (.float (env.unpack n (Bits.leLoad r.1)), r.2)

def dePad (a : Nat) (d : De) : Except Exc De :=
  if a > 1 then lift (dePadToAlignment d a) else .ok d

/-- `fetch_{aligned,unaligned}_array_of_bits(count)` -/
def deBitArray (al : Bool) (count : Nat) (d : De) : Except Exc (Val × De) := do
  let r ← lift (if al then fetchAlignedArrayOfBits d count else fetchUnalignedArrayOfBits d count)
  .ok (.arr (r.1.map .bool), r.2)

/-- `fetch_{aligned,unaligned}_array_of_standard_bit_length_primitives(dtype, count)` (little-endian platform) -/
def deStdArray (env : Env) (al : Bool) (t : Ty) (count : Nat) (d : De) : Except Exc (Val × De) :=
  let itemsize := primBits t / 8
  if al then do
    lift (assertAligned d.off)
    let bs ← lift (getUnsignedSlice d.buf (d.off / 8) (d.off / 8 + count * itemsize))
    let out := env.fromBuffer t bs count
    assertThat (out.length == count)
    .ok (.arr out, ⟨d.buf, d.off + bs.length * 8⟩)
  else do
    let r ← lift (fetchUnalignedBytes d (itemsize * count))
    assertThat (decide (r.1.length ≥ count))
    .ok (.arr (env.fromBuffer t r.1 count), r.2)

/-- `ref[i] = e` into `numpy.empty(n, dtype)`: integers must fit the dtype (NumPy 2), everything else is stored as is -/
def npStore : Ty → Val → Except Exc Val
  | .uint n _, .int i => if 0 ≤ i ∧ i < 2 ^ storageBits n then .ok (.int i) else .error .overflow
  | .sint n _, .int i =>
    if -(2 ^ (storageBits n - 1)) ≤ i ∧ i < 2 ^ (storageBits n - 1) then .ok (.int i) else .error .overflow
  | _, v => .ok v

/-- `for i in range(count): <element>; ref[i] = e` -/
def deElemsWith (f : De → Except Exc (Val × De)) (store : Val → Except Exc Val) :
    Nat → De → Except Exc (List Val × De)
  | 0, d => .ok ([], d)
  | k + 1, d =>
    match f d with
    | .error e => .error e
    | .ok (v, d1) =>
      match store v with
      | .error e => .error e
      | .ok v1 =>
        match deElemsWith f store k d1 with
        | .error e => .error e
        | .ok (vs, d2) => .ok (v1 :: vs, d2)

/-- `ref = numpy.empty(count, dtype)` filled by the element loop -/
def deElemArray (f : De → Except Exc (Val × De)) (store : Val → Except Exc Val) (count : Nat) (d : De) :
    Except Exc (Val × De) :=
  match deElemsWith f store count d with
  | .error e => .error e
  | .ok (vs, d1) => .ok (.arr vs, d1)

/-! ## `Deserializer.fork_bytes` -/

def forkDe (d : De) (sizeBytes : Nat) : Except Exc De :=
  if d.off % 8 ≠ 0 then .error .fork
  else
    let remainingBits := d.buf.length * 8 - d.off          -- `max(self.remaining_bit_length, 0)`
    if remainingBits % 8 ≠ 0 then .error .assertion
    else if remainingBits / 8 < sizeBytes then .error .fork
    else
      -- `ZeroExtendingBuffer.fork_bytes(self._byte_offset, size)`
      let offsetBytes := if sizeBytes = 0 then min (d.off / 8) d.buf.length else d.off / 8
      if offsetBytes + sizeBytes > d.buf.length then .error .fork
      else .ok ⟨(d.buf.drop offsetBytes).take sizeBytes, 0⟩

/-! ## The generated constructor (C18) as far as decoding depends on it -/

/-- the float setter's check: finite values of a float16 / float32 field must lie inside `±max` -/
def floatCtorOK (env : Env) (n : Nat) (x : Nat) : Bool :=
  if n < 64 ∧ env.isFinite x then !(env.fgt x (fmaxLit n)) && !(env.flt x (negOf (fmaxLit n))) else true

/-- Does the property setter of a field of type `t` accept the decoded value?  (Integers: inclusive DSDL range
whatever the cast mode — `PyObj.intLo/intHi`, C18; arrays: the length, elements are not inspected; composites:
`isinstance`, true by construction.) -/
def ctorOK (env : Env) : Ty → Val → Bool
  | .uint n _, .int i => decide (PyObj.intLo false n ≤ i ∧ i ≤ PyObj.intHi false n)
  | .sint n _, .int i => decide (PyObj.intLo true n ≤ i ∧ i ≤ PyObj.intHi true n)
  | .float n _, .float x => floatCtorOK env n x
  | .arr _ n, .arr vs => vs.length == n
  | .varr _ cap, .arr vs => decide (vs.length ≤ cap)
  | _, _ => true

/-- `self = Cls(f1=…, f2=…)`: every non-padding field goes through its setter -/
def ctorFields (env : Env) : List Ty → List Val → Bool
  | f :: fs, v :: vs => ctorOK env f v && ctorFields env fs vs
  | _, _ => true

def ctorNth (env : Env) : List Ty → Nat → Val → Bool
  | [], _, _ => true
  | f :: _, 0, v => ctorOK env f v
  | _ :: fs, k + 1, v => ctorNth env fs k v

/-! ## Deserialization: the emitted methods -/

/-- the three element paths of both array macros -/
def deArrBody (env : Env) (elem : De → Except Exc (Val × De)) (t : Ty) (al : Bool) (count : Nat) (d : De) :
    Except Exc (Val × De) :=
  match arrPath t with
  | .bits => deBitArray al count d
  | .std => deStdArray env al t count d
  | .loop => deElemArray elem (npStore t) count d

/-- `_deserialize_fixed_length_array(t, ref, offset)` inside `_deserialize_any` -/
def deArrWith (env : Env) (elem : AOff → De → Except Exc (Val × De)) (t : Ty) (n : Nat) (o : AOff) (d : De) :
    Except Exc (Val × De) := do
  let d0 ← dePad (align t) d
  let r ← deArrBody env (elem (o.add ((env.lr t).rep (n - 1)))) t o.isAligned n d0
  let d2 ← dePad (align t) r.2
  .ok (r.1, d2)

/-- `_deserialize_variable_length_array(t, ref, offset)` inside `_deserialize_any` -/
def deVarrWith (env : Env) (elem : AOff → De → Except Exc (Val × De)) (t : Ty) (cap : Nat) (o : AOff) (d : De) :
    Except Exc (Val × De) := do
  let d0 ← dePad (align t) d
  let l ← deInt o.isAligned false (prefixBits cap) d0
  assertThat (decide (l.1 ≥ 0))
  if l.1 > (cap : Int) then .error (.format .badArrayLength)
  else do
    let count := l.1.toNat
    let r ← deArrBody env (elem (o.add (env.lr (.varr t cap)))) t (o.add (some (prefixBits cap))).isAligned count l.2
    let d2 ← dePad (align t) r.2
    .ok (r.1, d2)

/-- `_deserialize_any` of a sealed composite -/
def deNested (obj : De → Except Exc (Val × De)) (d : De) : Except Exc (Val × De) := do
  let d0 ← dePad 8 d
  let r ← obj d0
  assertThat (r.2.off % 8 == 0)
  .ok r

/-- `_deserialize_any` of a delimited composite -/
def deDelimWith (obj : De → Except Exc (Val × De)) (d : De) : Except Exc (Val × De) := do
  let d0 ← dePad 8 d
  let h ← lift (fetchAlignedU32 d0)
  let dh := h.1
  let d1 := h.2
  -- `if _dh_ * 8 > max(_des_.remaining_bit_length, 0): raise FormatError`
  if dh * 8 > d1.buf.length * 8 - d1.off then .error (.format .badDelimiterHeader)
  else do
    let nested ← forkDe d1 dh
    let d2 := deSkipBits d1 (dh * 8)
    let r ← obj nested
    assertThat (d2.off % 8 == 0)
    .ok (r.1, d2)

/-- `_deserialize_` of a structure class -/
def deStructWith (env : Env) (fs : List Ty) (fields : AOff → De → Except Exc (List Val × De)) (d : De) :
    Except Exc (Val × De) := do
  assertThat (d.off % 8 == 0)
  let r ← fields (some 0) d
  if ctorFields env fs r.1 then do
    let d2 ← lift (dePadToAlignment r.2 8)
    assertThat (decide (minBits (.struct fs) ≤ d2.off - d.off))
    .ok (.struct r.1, d2)
  else .error .ctor

/-- `_deserialize_` of a union class -/
def deUnionWith (env : Env) (fs : List Ty) (nth : Nat → AOff → De → Except Exc (Val × De)) (d : De) :
    Except Exc (Val × De) := do
  assertThat (d.off % 8 == 0)
  let tg ← deInt true false (tagBits fs.length) d
  if 0 ≤ tg.1 ∧ tg.1.toNat < fs.length then do
    let r ← nth tg.1.toNat (some (tagBits fs.length % 8)) tg.2
    if ctorNth env fs tg.1.toNat r.1 then do
      let d2 ← lift (dePadToAlignment r.2 8)
      assertThat (decide (minBits (.union fs) ≤ d2.off - d.off))
      .ok (.union tg.1.toNat r.1, d2)
    else .error .ctor
  else .error (.format .badUnionTag)

def deIntVal (al signed : Bool) (n : Nat) (d : De) : Except Exc (Val × De) :=
  match deInt al signed n d with
  | .error e => .error e
  | .ok r => .ok (.int r.1, r.2)

def deBoolVal (d : De) : Except Exc (Val × De) :=
  match lift (fetchUnalignedBit d) with
  | .error e => .error e
  | .ok r => .ok (.bool r.1, r.2)

mutual
/-- `_deserialize_any(t, ref, offset)` -/
def deAny (env : Env) : Ty → AOff → De → Except Exc (Val × De)
  | .uint n _, o, d => deIntVal o.isAligned false n d
  | .sint n _, o, d => deIntVal o.isAligned true n d
  | .float n _, o, d => deFloat env o.isAligned n d
  | .bool, _, d => deBoolVal d
  | .void n, _, d => .ok (.void, deSkipBits d n)
  | .arr t n, o, d => deArrWith env (deAny env t) t n o d
  | .varr t cap, o, d => deVarrWith env (deAny env t) t cap o d
  | .struct fs, _, d => deNested (deStructWith env fs (deFieldsPy env fs)) d
  | .union fs, _, d => deNested (deUnionWith env fs (deNthPy env fs)) d
  | .delim _ inner, _, d => deDelimWith (deObj env inner) d
/-- the generated static method `_deserialize_(_des_)` of a class (`t` = the class's `inner_type`) -/
def deObj (env : Env) : Ty → De → Except Exc (Val × De)
  | .struct fs, d => deStructWith env fs (deFieldsPy env fs) d
  | .union fs, d => deUnionWith env fs (deNthPy env fs) d
  | _, _ => .error .shape
def deFieldsPy (env : Env) : List Ty → AOff → De → Except Exc (List Val × De)
  | [], _, d => .ok ([], d)
  | f :: fs, o, d =>
    match deAny env f (o.pad (align f)) d with
    | .error e => .error e
    | .ok (v, d1) =>
      match deFieldsPy env fs ((o.pad (align f)).add (env.lr f)) d1 with
      | .error e => .error e
      | .ok (vs, d2) => .ok (v :: vs, d2)
def deNthPy (env : Env) : List Ty → Nat → AOff → De → Except Exc (Val × De)
  | [], _, _, _ => .error (.format .badUnionTag)
  | f :: _, 0, o, d => deAny env f o d
  | _ :: fs, k + 1, o, d => deNthPy env fs k o d
end

/-- `nunavut_support.deserialize(cls, [bytes])`: `none` = the function returned `None`; otherwise the object and
`min(_des_.consumed_bit_length, len(bytes)·8)` rounded up to bytes (the API does not return it; the tie reads the
cursor of the deserializer). -/
def deserializePy (env : Env) (t : Ty) (bytes : Buf) : Except Exc (Option (Val × Nat)) :=
  match deObj env (topInner t) ⟨bytes, 0⟩ with
  | .ok (v, d) => .ok (some (v, (min d.off (bytes.length * 8) + 7) / 8))
  | .error (.format _) => .ok none
  | .error e => .error e

/-! ## The concrete oracles the driver runs -/

/-- residue summary of PyDSDL's `bit_length_set` -/
def lenRes : Ty → AOff
  | .uint n _ => some (n % 8)
  | .sint n _ => some (n % 8)
  | .float n _ => some (n % 8)
  | .bool => some 1
  | .void n => some (n % 8)
  | .arr t n =>
    if n = 0 then some 0 else
    match lenRes t with
    | some r => some (n * r % 8)
    | none => none
  | .varr t cap =>
    if cap = 0 then some 0 else
    match lenRes t with
    | some r => if r % 8 = 0 then some 0 else none
    | none => none
  | .struct _ => some 0
  | .union _ => some 0
  | .delim _ _ => some 0

def isFinite64 (x : Nat) : Bool := (x >>> 52) % 2048 != 2047

/-- order key of a non-NaN binary64 pattern (monotone in the value; `-0 < +0` does not matter for the uses here) -/
def fkey (x : Nat) : Int := if x < 2 ^ 63 then (x : Int) else -((x - 2 ^ 63 : Nat) : Int)

def isZero64 (x : Nat) : Bool := x % 2 ^ 63 == 0

def fgt64 (x y : Nat) : Bool :=
  !isNaN64 x && !isNaN64 y && !(isZero64 x && isZero64 y) && decide (fkey x > fkey y)

def isInfW (n w : Nat) : Bool :=
  if n = 16 then w % 2 ^ 15 == 0x7c00 else if n = 32 then w % 2 ^ 31 == 0x7f800000 else false

/-- `struct.pack`: round to nearest even, `OverflowError` when a finite value rounds to infinity -/
def pack64 (n x : Nat) : Option Nat :=
  let w := narrow n .trunc x
  if isFinite64 x && isInfW n w then none else some w

/-- wire value of one element of a standard-width primitive array in NumPy's memory -/
def elemBits (t : Ty) (v : Val) : Option (List Bool) :=
  match serBits t v with
  | .ok bs => some bs
  | .error _ => none

def viewBytesStd (t : Ty) (vs : List Val) : Option Buf :=
  (vs.mapM (elemBits t)).map fun bss => packBytes bss.flatten

def fromBufferStd (t : Ty) (bytes : Buf) (count : Nat) : List Val :=
  match deAllWith (deBits t) count (unpackBytes bytes) with
  | .ok (vs, _) => vs
  | .error _ => []

/-- the environment of the driver: PyDSDL's analysis as `lenRes`, NumPy / CPython as IEEE little-endian -/
def stdEnv : Env where
  lr := lenRes
  viewBytes := viewBytesStd
  fromBuffer := fromBufferStd
  pack := pack64
  unpack := widen
  isFinite := isFinite64
  fgt := fgt64
  flt := fun x y => fgt64 y x

end NunavutVerif.GenPy
