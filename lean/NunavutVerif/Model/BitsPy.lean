import NunavutVerif.Model.Bits
/-!
# C14 — model of the Python `Serializer` / `Deserializer` / `ZeroExtendingBuffer` primitives

Transcription of `src/nunavut/lang/py/support/nunavut_support.j2` (rendered `nunavut_support.py`), integer/bit
part (the float methods only wrap `struct.pack` around `add_*_bytes` / `fetch_*_bytes`).

* `self._buf[i]` with an integer index raises `IndexError` outside the array: `get?`/`set?` → `Err.oob`;
* `self._buf[a : a + len(bs)] = bs` is NumPy slice assignment: the slice is clipped at the end of the array and a
  shape mismatch raises `ValueError` (`Err.oob`) — except that a one-element array broadcasts into an *empty*
  slice, which silently writes nothing (`setSlice`);
* `assert …` / `ValueError` on API misuse (negative value for an unsigned method, unaligned cursor for an
  `aligned` method, `bit_length < 1`, …) is `Err.usage`;
* NumPy `uint8` arithmetic is written with its truncations (`(b << left) & 0xFF`, `b >> right` with `right ≤ 8`);
* the deserializer reads through `ZeroExtendingBuffer`: `get_byte` past the end is `0`, `get_unsigned_slice` pads
  with zeros (that is the documented semantics, not a totalisation of the model).
-/
namespace NunavutVerif.Bits.Py
open NunavutVerif.Bits

/-! ## Serializer -/

structure Ser where
  buf : Buf     -- `_buf` (allocated with one extra byte by `Serializer.new`)
  off : Nat     -- `_bit_offset`
  deriving Repr, DecidableEq

/-- plain element-wise copy `buf[a], buf[a+1], … = bs` (all indices in range at the call site) -/
def writeAll (buf : Buf) (a : Nat) : Buf → Buf
  | [] => buf
  | b :: bs => writeAll (buf.set a b) (a + 1) bs

/-- `buf[a : a + len(bs)] = bs` (NumPy) -/
def setSlice (buf : Buf) (a : Nat) (bs : Buf) : Except Err Buf :=
  let m := min bs.length (buf.length - a)        -- length of the clipped slice
  if bs.length = m then .ok (writeAll buf a bs)
  else if bs.length = 1 then .ok buf             -- shape (1,) broadcasts into shape (0,): nothing is written
  else .error .oob                               -- ValueError: could not broadcast

/-- the `for b in value:` loop of `add_unaligned_bytes` -/
def addUnalignedBytesLoop (left right : Nat) : Ser → Buf → Except Err Ser
  | s, [] => .ok s
  | s, b :: bs => do
    let cur ← get? s.buf (s.off / 8)
    let buf1 ← set? s.buf (s.off / 8) (cur ||| ((b <<< left) &&& 255))
    let off1 := s.off + 8
    let buf2 ← set? buf1 (off1 / 8) (b >>> right)
    addUnalignedBytesLoop left right ⟨buf2, off1⟩ bs

def addUnalignedBytes (s : Ser) (value : Buf) : Except Err Ser :=
  let left := s.off % 8
  let right := 8 - left
  addUnalignedBytesLoop left right s value

/-- `for i in range(num_bytes): out[i] = value & 0xFF; value >>= 8` -/
def bytesLoop : Nat → Nat → Buf
  | _, 0 => []
  | v, n + 1 => (v &&& 255) :: bytesLoop (v >>> 8) n

/-- `Serializer._unsigned_to_bytes` -/
def unsignedToBytes (value bitLength : Nat) : Except Err Buf :=
  if bitLength < 1 then .error .usage
  else
    let value := value &&& (2 ^ bitLength - 1)
    let numBytes := (bitLength + 7) / 8
    .ok (bytesLoop value numBytes)

def ensureNotNegative (x : Int) : Except Err Nat :=
  if x < 0 then .error .usage else .ok x.toNat

def addUnalignedUnsigned (s : Ser) (value : Int) (bitLength : Nat) : Except Err Ser := do
  let v ← ensureNotNegative value
  let bs ← unsignedToBytes v bitLength
  let backtrack ← sub? (bs.length * 8) bitLength       -- assert backtrack >= 0
  let s1 ← addUnalignedBytes s bs
  let off ← sub? s1.off backtrack
  .ok ⟨s1.buf, off⟩

def addUnalignedSigned (s : Ser) (value : Int) (bitLength : Nat) : Except Err Ser :=
  if bitLength < 2 then .error .usage
  else addUnalignedUnsigned s (if value < 0 then 2 ^ bitLength + value else value) bitLength

def addUnalignedBit (s : Ser) (x : Bool) : Except Err Ser := do
  let cur ← get? s.buf (s.off / 8)
  let buf1 ← set? s.buf (s.off / 8) (cur ||| ((if x then 1 else 0) <<< (s.off % 8)))
  .ok ⟨buf1, s.off + 1⟩

/-- `numpy.packbits(x, bitorder="little")` -/
def packBitsAux : List Bool → Nat → Nat → Buf
  | [], k, cur => if k = 0 then [] else [cur]
  | b :: bs, k, cur =>
    let cur' := cur ||| ((if b then 1 else 0) <<< k)
    if k = 7 then cur' :: packBitsAux bs 0 0 else packBitsAux bs (k + 1) cur'

def packBits (x : List Bool) : Buf := packBitsAux x 0 0

def addUnalignedArrayOfBits (s : Ser) (x : List Bool) : Except Err Ser := do
  let packed := packBits x
  let backtrack ← sub? (packed.length * 8) x.length
  let s1 ← addUnalignedBytes s packed
  let off ← sub? s1.off backtrack
  .ok ⟨s1.buf, off⟩

def assertAligned (off : Nat) : Except Err Unit :=
  if off % 8 = 0 then .ok () else .error .usage

def addAlignedBytes (s : Ser) (x : Buf) : Except Err Ser := do
  assertAligned s.off
  let buf1 ← setSlice s.buf (s.off / 8) x
  .ok ⟨buf1, s.off + x.length * 8⟩

def addAlignedArrayOfBits (s : Ser) (x : List Bool) : Except Err Ser := do
  assertAligned s.off
  let packed := packBits x
  if packed.length * 8 < x.length then .error .usage
  else
    let buf1 ← setSlice s.buf (s.off / 8) packed
    .ok ⟨buf1, s.off + x.length⟩

/-- `add_aligned_u8` (storing a Python int ≥ 256 into a `uint8` array raises `OverflowError` in NumPy 2) -/
def addAlignedU8 (s : Ser) (x : Int) : Except Err Ser := do
  assertAligned s.off
  let v ← ensureNotNegative x
  if v ≥ 256 then .error .usage
  else
    let buf1 ← set? s.buf (s.off / 8) v
    .ok ⟨buf1, s.off + 8⟩

def addAlignedU16 (s : Ser) (x : Int) : Except Err Ser := do
  let v ← ensureNotNegative x
  let s1 ← addAlignedU8 s ((v &&& 255 : Nat) : Int)
  addAlignedU8 s1 (((v >>> 8) &&& 255 : Nat) : Int)

def addAlignedU32 (s : Ser) (x : Int) : Except Err Ser := do
  let s1 ← addAlignedU16 s x
  addAlignedU16 s1 (x >>> 16)

def addAlignedU64 (s : Ser) (x : Int) : Except Err Ser := do
  let s1 ← addAlignedU32 s x
  addAlignedU32 s1 (x >>> 32)

def addAlignedI (W : Nat) (s : Ser) (x : Int) : Except Err Ser :=
  let u := if x < 0 then 2 ^ W + x else x
  if W = 8 then addAlignedU8 s u else if W = 16 then addAlignedU16 s u
  else if W = 32 then addAlignedU32 s u else if W = 64 then addAlignedU64 s u else .error .usage

def addAlignedUnsigned (s : Ser) (value : Int) (bitLength : Nat) : Except Err Ser := do
  assertAligned s.off
  let v ← ensureNotNegative value
  let bs ← unsignedToBytes v bitLength
  let buf1 ← setSlice s.buf (s.off / 8) bs
  .ok ⟨buf1, s.off + bitLength⟩

def addAlignedSigned (s : Ser) (value : Int) (bitLength : Nat) : Except Err Ser :=
  if bitLength < 2 then .error .usage
  else addAlignedUnsigned s (if value < 0 then 2 ^ bitLength + value else value) bitLength

def skipBits (s : Ser) (n : Nat) : Ser := ⟨s.buf, s.off + n⟩

/-- `while self._bit_offset % bit_length != 0: self.add_unaligned_bit(False)` -/
def padLoop (n : Nat) : Nat → Ser → Except Err Ser
  | 0, s => if s.off % n ≠ 0 then .error .fuel else .ok s
  | fuel + 1, s =>
    if s.off % n ≠ 0 then do
      let s1 ← addUnalignedBit s false
      padLoop n fuel s1
    else .ok s

def padToAlignment (s : Ser) (n : Nat) : Except Err Ser :=
  if n = 0 then .error .usage          -- ZeroDivisionError
  else padLoop n n s

/-! ## ZeroExtendingBuffer / Deserializer -/

structure De where
  buf : Buf     -- the (concatenated) source bytes
  off : Nat     -- `_bit_offset`
  deriving Repr, DecidableEq

/-- `ZeroExtendingBuffer.get_byte` -/
def getByte (buf : Buf) (i : Nat) : Nat :=
  match buf[i]? with
  | some x => x
  | none => 0        -- except IndexError: return 0

/-- `ZeroExtendingBuffer.get_unsigned_slice(left, right)` -/
def getUnsignedSlice (buf : Buf) (left right : Nat) : Except Err Buf :=
  if ¬ left ≤ right then .error .usage
  else
    let count := right - left
    let out := (buf.drop left).take count
    .ok (if out.length < count then out ++ List.replicate (count - out.length) 0 else out)

def fetchAlignedBytes (d : De) (count : Nat) : Except Err (Buf × De) := do
  assertAligned d.off
  let out ← getUnsignedSlice d.buf (d.off / 8) (d.off / 8 + count)
  .ok (out, ⟨d.buf, d.off + count * 8⟩)

def fetchAlignedU8 (d : De) : Except Err (Nat × De) := do
  assertAligned d.off
  .ok (getByte d.buf (d.off / 8), ⟨d.buf, d.off + 8⟩)

def fetchAlignedU16 (d : De) : Except Err (Nat × De) := do
  let (a, d1) ← fetchAlignedU8 d
  let (b, d2) ← fetchAlignedU8 d1
  .ok (a ||| (b <<< 8), d2)

def fetchAlignedU32 (d : De) : Except Err (Nat × De) := do
  let (a, d1) ← fetchAlignedU16 d
  let (b, d2) ← fetchAlignedU16 d1
  .ok (a ||| (b <<< 16), d2)

def fetchAlignedU64 (d : De) : Except Err (Nat × De) := do
  let (a, d1) ← fetchAlignedU32 d
  let (b, d2) ← fetchAlignedU32 d1
  .ok (a ||| (b <<< 32), d2)

def fetchAlignedU (W : Nat) (d : De) : Except Err (Nat × De) :=
  if W = 8 then fetchAlignedU8 d else if W = 16 then fetchAlignedU16 d
  else if W = 32 then fetchAlignedU32 d else if W = 64 then fetchAlignedU64 d else .error .usage

/-- `fetch_aligned_i8/16/32/64`: `(x - 2**W) if x >= 2**(W-1) else x` -/
def fetchAlignedI (W : Nat) (d : De) : Except Err (Int × De) := do
  let (x, d1) ← fetchAlignedU W d
  .ok (if x ≥ 2 ^ (W - 1) then (x : Int) - 2 ^ W else (x : Int), d1)

/-- the `for i in range(last_byte_index): out |= int(x[i]) << (i * 8)` loop -/
def fromBytesLoop (x : Buf) : Nat → Nat → Except Err Nat
  | 0, _ => .ok 0
  | n + 1, i => do
    let b ← get? x i
    let rest ← fromBytesLoop x n (i + 1)
    .ok ((b <<< (i * 8)) ||| rest)

/-- `Deserializer._unsigned_from_bytes` -/
def unsignedFromBytes (x : Buf) (bitLength : Nat) : Except Err Nat :=
  if bitLength < 1 then .error .usage
  else
    let numBytes := (bitLength + 7) / 8
    let last := numBytes - 1
    if x.length < numBytes then .error .usage
    else do
      let low ← fromBytesLoop x last 0
      let msbMask := if bitLength % 8 ≠ 0 then 2 ^ (bitLength % 8) - 1 else 0xFF
      let lb ← get? x last
      .ok (low ||| ((lb &&& msbMask) <<< (last * 8)))

def fetchAlignedUnsigned (d : De) (bitLength : Nat) : Except Err (Nat × De) := do
  assertAligned d.off
  let bs ← getUnsignedSlice d.buf (d.off / 8) (d.off / 8 + (bitLength + 7) / 8)
  let v ← unsignedFromBytes bs bitLength
  .ok (v, ⟨d.buf, d.off + bitLength⟩)

def signOf (u bitLength : Nat) : Int :=
  if u ≥ 2 ^ (bitLength - 1) then (u : Int) - 2 ^ bitLength else (u : Int)

def fetchAlignedSigned (d : De) (bitLength : Nat) : Except Err (Int × De) :=
  if bitLength < 2 then .error .usage
  else do
    let (u, d1) ← fetchAlignedUnsigned d bitLength
    .ok (signOf u bitLength, d1)

/-- the `for i in range(count):` loop of the unaligned branch of `fetch_unaligned_bytes` -/
def fetchUnalignedLoop (buf : Buf) (left right : Nat) : Nat → Nat → Buf
  | 0, _ => []
  | n + 1, off =>
    let bo := off / 8
    (((getByte buf bo) >>> right) ||| (((getByte buf (bo + 1)) <<< left) &&& 0xFF))
      :: fetchUnalignedLoop buf left right n (off + 8)

def fetchUnalignedBytes (d : De) (count : Nat) : Except Err (Buf × De) :=
  if count > 0 then
    if d.off % 8 ≠ 0 then
      let right := d.off % 8
      let left := 8 - right
      .ok (fetchUnalignedLoop d.buf left right count d.off, ⟨d.buf, d.off + count * 8⟩)
    else fetchAlignedBytes d count
  else .ok ([], d)

def fetchUnalignedUnsigned (d : De) (bitLength : Nat) : Except Err (Nat × De) := do
  let byteLength := (bitLength + 7) / 8
  let (bs, d1) ← fetchUnalignedBytes d byteLength
  let backtrack ← sub? (byteLength * 8) bitLength
  let off ← sub? d1.off backtrack
  let v ← unsignedFromBytes bs bitLength
  .ok (v, ⟨d1.buf, off⟩)

def fetchUnalignedSigned (d : De) (bitLength : Nat) : Except Err (Int × De) :=
  if bitLength < 2 then .error .usage
  else do
    let (u, d1) ← fetchUnalignedUnsigned d bitLength
    .ok (signOf u bitLength, d1)

def fetchUnalignedBit (d : De) : Except Err (Bool × De) :=
  let mask := 1 <<< (d.off % 8)
  .ok ((getByte d.buf (d.off / 8) &&& mask) == mask, ⟨d.buf, d.off + 1⟩)

/-- `numpy.unpackbits(bs, bitorder="little")[:count]` -/
def unpackBits (bs : Buf) (count : Nat) : List Bool :=
  (List.range count).filterMap fun i =>
    match bs[i / 8]? with
    | some x => some (x.testBit (i % 8))
    | none => none

def fetchUnalignedArrayOfBits (d : De) (count : Nat) : Except Err (List Bool × De) := do
  let byteCount := (count + 7) / 8
  let (bs, d1) ← fetchUnalignedBytes d byteCount
  let backtrack ← sub? (byteCount * 8) count
  let off ← sub? d1.off backtrack
  .ok (unpackBits bs count, ⟨d1.buf, off⟩)

def fetchAlignedArrayOfBits (d : De) (count : Nat) : Except Err (List Bool × De) := do
  assertAligned d.off
  let bs ← getUnsignedSlice d.buf (d.off / 8) (d.off / 8 + (count + 7) / 8)
  .ok (unpackBits bs count, ⟨d.buf, d.off + count⟩)

def deSkipBits (d : De) (n : Nat) : De := ⟨d.buf, d.off + n⟩

/-- `while self._bit_offset % bit_length != 0: self._bit_offset += 1` -/
def dePadLoop (n : Nat) : Nat → Nat → Except Err Nat
  | 0, off => if off % n ≠ 0 then .error .fuel else .ok off
  | fuel + 1, off => if off % n ≠ 0 then dePadLoop n fuel (off + 1) else .ok off

def dePadToAlignment (d : De) (n : Nat) : Except Err De :=
  if n = 0 then .error .usage          -- ZeroDivisionError
  else do
    let off ← dePadLoop n n d.off
    .ok ⟨d.buf, off⟩

/-! ## specification devices (not part of the transcription) -/

/-- the field of `n` bits at the cursor of a deserializer, zero-extended beyond the buffer -/
def deField (d : De) (n : Nat) : Nat := fieldOf (fun i => bitAt d.buf (d.off + i)) n

/-- bit `i` of a NumPy bool array, `false` outside -/
def bitOf (x : List Bool) (i : Nat) : Bool := (x[i]?).getD false

/-- number of padding bits up to the next multiple of `n` -/
def padBits (off n : Nat) : Nat := (n - off % n) % n

/-- serializer invariant: the bytes are bytes and every bit at or above the cursor is zero
(true for `Serializer.new`, preserved by every `add_*`) -/
def Ser.Inv (s : Ser) : Prop := WF s.buf ∧ ∀ i, s.off ≤ i → bitAt s.buf i = false

/-- `s'` is `s` with exactly the `n` bits `bit 0 … bit (n-1)` appended at the cursor: the cursor advances by `n`,
the buffer keeps its size, everything below the old cursor is untouched, everything from the new cursor on is
still zero. -/
def Appends (s s' : Ser) (n : Nat) (bit : Nat → Bool) : Prop :=
  s'.off = s.off + n ∧ s'.buf.length = s.buf.length ∧ s'.Inv ∧
  ∀ i, bitAt s'.buf i = if i < s.off then bitAt s.buf i else (decide (i < s.off + n) && bit (i - s.off))

end NunavutVerif.Bits.Py
