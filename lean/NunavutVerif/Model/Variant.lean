/-
C04 — the C++14 built-in `VariantType` emitted by `lang/cpp/templates/_fields_as_union.j2`, as a state machine.

The *program* of one generated union (`Prog`) is data: the statement list of every special member function and
the `if (tag_ == k)` chains, regenerated from the real generator's output by `translate/variant_tables.py`
(`Gen/VariantTables.lean`).  This file is the interpreter: objects with a tag and per-member liveness, a world
of object slots (so that `a = b`, `a = a`, `a = std::move(a)` are expressible with their aliasing), and the
faults that the property forbids:

* `wildDestroy m`   a destructor call on member `m` while no object lives there (wild free);
* `typeConfusion m` a destructor / copy through a pointer cast to a type that is not the member's type;
* `leak m`          the storage is reused (placement new) or released (end of `~VariantType`) while member `m`,
                    whose type has a non-trivial destructor, is still live — its resources are never released;
* `readDead m`      a copy / move whose source member is not live (use after destroy);
* `badAlt`          a template index outside the alternative table (would not compile).

All members of `internal_union_t` share one storage: constructing any alternative ends the lifetime of whatever
lived there before (only harmless for trivially destructible members, hence `leak`).
Core Lean only.
-/
namespace NunavutVerif.Variant

/-- `std::numeric_limits<std::size_t>::max()` -/
def npos : Nat := 18446744073709551615

/-- One branch of an emitted `if (… tag_ == tag) { … member … }` chain.
    copy/move chains: `do_copy<alt>` / `do_emplace<alt>` from `rhs.internal_union_value_.member` read through a cast
    to type `ty`;  destroy chain: destructor of type `ty` on `internal_union_value_.member` (`alt` unused, = member). -/
structure Branch where
  tag : Nat
  alt : Nat
  member : Nat
  ty : Nat
  deriving Repr, DecidableEq, Inhabited

inductive Stmt where
  | destroyCurrent                 -- `destroy_current();`
  | setTagNpos                     -- mem-initializer `tag_(variant_npos)`
  | setTagConst (k : Nat)          -- mem-initializer `tag_(k)`
  | setTagRhs                      -- `tag_ = rhs.tag_;`
  | setTagI                        -- `tag_ = I;`
  | emplaceConst (k : Nat)         -- `emplace<k>();`  (the public emplace, from the default constructor)
  | constructI                     -- `… = do_emplace<I>(v...);`  placement-new of alternative I
  | copyChain (c : List Branch)    -- `if (rhs.tag_ == k) do_copy<alt>(rhs.member) else if …`
  | moveChain (c : List Branch)    -- `if (rhs.tag_ == k) do_emplace<alt>(std::forward(rhs.member)) else if …`
  deriving Repr, DecidableEq, Inhabited

/-- A member function body; `selfGuard` = the body is wrapped in `if (this != &rhs) { … }`. -/
structure Method where
  selfGuard : Bool
  body : List Stmt
  deriving Repr, DecidableEq, Inhabited

structure Prog where
  /-- declared type (id) of each member of `internal_union_t`, in declaration order -/
  memTy : List Nat
  /-- the member's type has a non-trivial destructor (it owns something) -/
  nontrivial : List Bool
  /-- `alternative<I>::pointer` → member index -/
  altMember : List Nat
  /-- `alternative<I>::type` (id) -/
  altTy : List Nat
  /-- the chain of `destroy_current()` -/
  destroy : List Branch
  defCtor : Method
  copyCtor : Method
  moveCtor : Method
  copyAssign : Method
  moveAssign : Method
  dtor : Method
  emplace : Method
  deriving Repr, DecidableEq, Inhabited

def Prog.n (p : Prog) : Nat := p.memTy.length

inductive Fault where
  | wildDestroy (m : Nat)
  | typeConfusion (m : Nat)
  | leak (m : Nat)
  | readDead (m : Nat)
  | badAlt
  deriving Repr, DecidableEq, Inhabited

structure Obj where
  tag : Nat
  live : List Bool
  deriving Repr, DecidableEq, Inhabited

/-- a slot holds a constructed object or nothing -/
abbrev World := List (Option Obj)

/-- `n` flags, only number `m` set -/
def unitVec : Nat → Nat → List Bool
  | 0, _ => []
  | n + 1, 0 => true :: List.replicate n false
  | n + 1, m + 1 => false :: unitVec n m

def noneLive (n : Nat) : List Bool := List.replicate n false

def setAt : List Bool → Nat → Bool → List Bool
  | [], _, _ => []
  | _ :: xs, 0, b => b :: xs
  | x :: xs, m + 1, b => x :: setAt xs m b

def getAt : List Bool → Nat → Bool
  | [], _ => false
  | x :: _, 0 => x
  | _ :: xs, m + 1 => getAt xs m

/-- first member that is live and owns something -/
def firstLeak : List Bool → List Bool → Nat → Option Nat
  | l :: ls, nt :: nts, i => if l && nt then some i else firstLeak ls nts (i + 1)
  | _, _, _ => none

def findBranch (c : List Branch) (tag : Nat) : Option Branch :=
  match c with
  | [] => none
  | b :: rest => if b.tag = tag then some b else findBranch rest tag

def getSlot (w : World) (i : Nat) : Option Obj :=
  match w, i with
  | [], _ => none
  | o :: _, 0 => o
  | _ :: rest, i + 1 => getSlot rest i

def setSlot (w : World) (i : Nat) (o : Option Obj) : World :=
  match w, i with
  | [], _ => []
  | _ :: rest, 0 => o :: rest
  | x :: rest, i + 1 => x :: setSlot rest i o

/-- placement new of alternative `alt` into the shared storage of `o` -/
def placeNew (p : Prog) (o : Obj) (alt : Nat) : Except Fault Obj :=
  match p.altMember[alt]? with
  | none => .error .badAlt
  | some m =>
    match firstLeak o.live p.nontrivial 0 with
    | some j => .error (.leak j)
    | none => .ok { o with live := unitVec p.n m }

/-- `destroy_current()` -/
def destroyCurrent (p : Prog) (o : Obj) : Except Fault Obj :=
  match findBranch p.destroy o.tag with
  | none => .ok o
  | some b =>
    if p.memTy[b.member]? ≠ some b.ty then .error (.typeConfusion b.member)
    else if getAt o.live b.member then .ok { o with live := setAt o.live b.member false }
    else .error (.wildDestroy b.member)

/-- one branch chain of a copy/move: reads `rhs` (slot `s`, as it is *now*), constructs into `this` (slot `d`) -/
def runChain (p : Prog) (c : List Branch) (self rhs : Obj) : Except Fault Obj :=
  match findBranch c rhs.tag with
  | none => .ok self
  | some b =>
    if p.memTy[b.member]? ≠ some b.ty then .error (.typeConfusion b.member)
    else if p.altTy[b.alt]? ≠ some b.ty then .error (.typeConfusion b.member)
    else if !getAt rhs.live b.member then .error (.readDead b.member)
    else placeNew p self b.alt

/-- the right-hand side of a copy/move: absent, the object itself (`a = a`), or another object -/
inductive Rhs where
  | none
  | self
  | other (r : Obj)
  deriving Repr, Inhabited

/-- what `rhs.` denotes when the statement runs: for a self-assignment the object *as it is now* -/
def Rhs.read (rhs : Rhs) (o : Obj) : Option Obj :=
  match rhs with
  | .none => Option.none
  | .self => some o
  | .other r => some r

/-- statements other than `emplace<k>()`; `I` is the template argument of `emplace<I>` -/
def execSimple (p : Prog) (I : Nat) (rhs : Rhs) (o : Obj) : Stmt → Except Fault Obj
  | .destroyCurrent => destroyCurrent p o
  | .setTagNpos => .ok { o with tag := npos }
  | .setTagConst k => .ok { o with tag := k }
  | .setTagRhs => match rhs.read o with | some r => .ok { o with tag := r.tag } | none => .ok o
  | .setTagI => .ok { o with tag := I }
  | .constructI => placeNew p o I
  | .copyChain c => match rhs.read o with | some r => runChain p c o r | none => .ok o
  | .moveChain c => match rhs.read o with | some r => runChain p c o r | none => .ok o
  | .emplaceConst _ => .error .badAlt

def execSimpleList (p : Prog) (I : Nat) (rhs : Rhs) (o : Obj) : List Stmt → Except Fault Obj
  | [] => .ok o
  | st :: rest =>
    match execSimple p I rhs o st with
    | .error f => .error f
    | .ok o' => execSimpleList p I rhs o' rest

/-- one statement; `emplace<k>()` runs the body of the public `emplace` with `I := k` -/
def execStmt (p : Prog) (I : Nat) (rhs : Rhs) (o : Obj) : Stmt → Except Fault Obj
  | .emplaceConst k => execSimpleList p k .none o p.emplace.body
  | st => execSimple p I rhs o st

def execList (p : Prog) (I : Nat) (rhs : Rhs) (o : Obj) : List Stmt → Except Fault Obj
  | [] => .ok o
  | st :: rest =>
    match execStmt p I rhs o st with
    | .error f => .error f
    | .ok o' => execList p I rhs o' rest

def isSelf : Rhs → Bool
  | .self => true
  | _ => false

def execMethod (p : Prog) (m : Method) (I : Nat) (rhs : Rhs) (o : Obj) : Except Fault Obj :=
  if m.selfGuard && isSelf rhs then .ok o else execList p I rhs o m.body

/-- end of the object's storage: anything that still owns something is leaked -/
def release (p : Prog) (o : Obj) : Except Fault Unit :=
  match firstLeak o.live p.nontrivial 0 with
  | some j => .error (.leak j)
  | none => .ok ()

/-- raw storage before a constructor body runs: `internal_union_value_()` — no member is live; the tag is set by
    the constructor's mem-initializer, which the translator puts first in the body -/
def rawObj (p : Prog) : Obj := { tag := 0, live := noneLive p.n }

inductive Op where
  | ctor (d : Nat)
  | copyCtor (d s : Nat)
  | moveCtor (d s : Nat)
  | emplace (d i : Nat)
  | copyAssign (d s : Nat)
  | moveAssign (d s : Nat)
  | dtor (d : Nat)
  deriving Repr, DecidableEq, Inhabited

def isSome' (o : Option Obj) : Bool := match o with | some _ => true | none => false

/-- Is the operation a legal use of the class by its client?  (constructing into a free slot that exists,
    using constructed objects, an alternative index the class has) — anything else does not compile or is the
    client's own lifetime error, and is skipped. -/
def applicable (p : Prog) (w : World) : Op → Bool
  | .ctor d => d < w.length && !isSome' (getSlot w d)
  | .copyCtor d s => d < w.length && !isSome' (getSlot w d) && isSome' (getSlot w s)
  | .moveCtor d s => d < w.length && !isSome' (getSlot w d) && isSome' (getSlot w s)
  | .emplace d i => isSome' (getSlot w d) && i < p.n
  | .copyAssign d s => isSome' (getSlot w d) && isSome' (getSlot w s)
  | .moveAssign d s => isSome' (getSlot w d) && isSome' (getSlot w s)
  | .dtor d => isSome' (getSlot w d)

/-- the right-hand side of `d = s` -/
def rhsOf (w : World) (d s : Nat) : Rhs :=
  if s = d then .self else match getSlot w s with | some r => .other r | none => .none

def step (p : Prog) (w : World) (op : Op) : Except Fault World :=
  if !applicable p w op then .ok w else
  match op with
  | .ctor d => (execMethod p p.defCtor 0 .none (rawObj p)).map fun o => setSlot w d (some o)
  | .copyCtor d s => (execMethod p p.copyCtor 0 (rhsOf w d s) (rawObj p)).map fun o => setSlot w d (some o)
  | .moveCtor d s => (execMethod p p.moveCtor 0 (rhsOf w d s) (rawObj p)).map fun o => setSlot w d (some o)
  | .emplace d i =>
    match getSlot w d with
    | none => .ok w
    | some o => (execMethod p p.emplace i .none o).map fun o => setSlot w d (some o)
  | .copyAssign d s =>
    match getSlot w d with
    | none => .ok w
    | some o => (execMethod p p.copyAssign 0 (rhsOf w d s) o).map fun o => setSlot w d (some o)
  | .moveAssign d s =>
    match getSlot w d with
    | none => .ok w
    | some o => (execMethod p p.moveAssign 0 (rhsOf w d s) o).map fun o => setSlot w d (some o)
  | .dtor d =>
    match getSlot w d with
    | none => .ok w
    | some o =>
      match execMethod p p.dtor 0 .none o with
      | .error f => .error f
      | .ok o' =>
        match release p o' with
        | .error f => .error f
        | .ok _ => .ok (setSlot w d none)

def run (p : Prog) : World → List Op → Except Fault World
  | w, [] => .ok w
  | w, op :: rest =>
    match step p w op with
    | .error f => .error f
    | .ok w' => run p w' rest

/-! ### well-formedness of a generated program (decidable, checked on every generated table) -/

/-- the chain `if (rhs.tag_ == i) …<i>(rhs.member_i as type_i)` for members `i, i+1, …` -/
def idBranches : Nat → List Nat → List Branch
  | _, [] => []
  | i, t :: ts => { tag := i, alt := i, member := i, ty := t } :: idBranches (i + 1) ts

/-- every branch of the destroy chain names its own tag's member with the member's type -/
def destroyOk (p : Prog) : Bool :=
  p.destroy.all fun b => decide (b.tag = b.member) && decide (b.member < p.n) && decide (p.memTy[b.member]? = some b.ty)

/-- every member that owns something has a branch -/
def destroyCovers (p : Prog) : Bool :=
  (List.range p.n).all fun i => !(getAt p.nontrivial i) || (findBranch p.destroy i).isSome

/-- The shape of the repaired template: the default constructor starts from "no alternative" so that the
    `destroy_current()` inside `emplace<0>()` finds nothing to destroy; both assignments are guarded against
    self-assignment; every copy / move chain is the identity chain over all alternatives. -/
def Prog.wf (p : Prog) : Bool :=
  decide (1 ≤ p.n) && decide (p.n < npos)
  && decide (p.nontrivial.length = p.n)
  && decide (p.altMember = List.range p.n)
  && decide (p.altTy = p.memTy)
  && destroyOk p && destroyCovers p
  && decide (p.defCtor = ⟨false, [.setTagNpos, .emplaceConst 0]⟩)
  && decide (p.emplace = ⟨false, [.destroyCurrent, .constructI, .setTagI]⟩)
  && decide (p.dtor = ⟨false, [.destroyCurrent]⟩)
  && decide (p.copyCtor = ⟨false, [.setTagNpos, .copyChain (idBranches 0 p.memTy), .setTagRhs]⟩)
  && decide (p.moveCtor = ⟨false, [.setTagNpos, .moveChain (idBranches 0 p.memTy), .setTagRhs]⟩)
  && decide (p.copyAssign = ⟨true, [.destroyCurrent, .copyChain (idBranches 0 p.memTy), .setTagRhs]⟩)
  && decide (p.moveAssign = ⟨true, [.destroyCurrent, .moveChain (idBranches 0 p.memTy), .setTagRhs]⟩)

/-- the invariant: the tag names an alternative, and exactly that alternative is live -/
def objInv (p : Prog) (o : Obj) : Bool := decide (o.tag < p.n) && decide (o.live = unitVec p.n o.tag)

def worldInv (p : Prog) (w : World) : Bool :=
  w.all fun s => match s with | none => true | some o => objInv p o

/-- no slot holds an object any more -/
def allGone (w : World) : Bool := w.all fun s => !isSome' s

/-- destroy the objects of slots `k-1 … 0` (reverse order of declaration, as at the end of a C++ scope) -/
def dtorAll : Nat → List Op
  | 0 => []
  | k + 1 => .dtor k :: dtorAll k

def emptyWorld (k : Nat) : World := List.replicate k none

/-! ### the template before the repair (kept for the regression examples of Properties/C04) -/

/-- what the unrepaired `_fields_as_union.j2` emits for `@union { uint8 a; uint8[<=4] b }`: `destroy_current()`
    numbers its branches by `loop.index0` of the loop *filtered* to the non-primitive fields, so the only branch
    tests tag 0 (which is `a`) and destroys `b`; the default constructor starts from `tag_(0)`; the assignments have
    no self-assignment guard. -/
def pvBeforeFix : Prog :=
  { memTy := [0, 1], nontrivial := [false, true], altMember := [0, 1], altTy := [0, 1],
    destroy := [⟨0, 1, 1, 1⟩],
    defCtor := ⟨false, [.setTagConst 0, .emplaceConst 0]⟩,
    copyCtor := ⟨false, [.setTagNpos, .copyChain [⟨0, 0, 0, 0⟩, ⟨1, 1, 1, 1⟩], .setTagRhs]⟩,
    moveCtor := ⟨false, [.setTagNpos, .moveChain [⟨0, 0, 0, 0⟩, ⟨1, 1, 1, 1⟩], .setTagRhs]⟩,
    copyAssign := ⟨false, [.destroyCurrent, .copyChain [⟨0, 0, 0, 0⟩, ⟨1, 1, 1, 1⟩], .setTagRhs]⟩,
    moveAssign := ⟨false, [.destroyCurrent, .moveChain [⟨0, 0, 0, 0⟩, ⟨1, 1, 1, 1⟩], .setTagRhs]⟩,
    dtor := ⟨false, [.destroyCurrent]⟩,
    emplace := ⟨false, [.destroyCurrent, .constructI, .setTagI]⟩ }

/-- the same union with only the branch numbering of `destroy_current()` repaired: the default constructor still
    runs `destroy_current()` with `tag_ == 0` before anything lives, and `a = a` still destroys its own source -/
def vpIndexFixedOnly : Prog :=
  { memTy := [0, 1], nontrivial := [true, false], altMember := [0, 1], altTy := [0, 1],
    destroy := [⟨0, 0, 0, 0⟩],
    defCtor := ⟨false, [.setTagConst 0, .emplaceConst 0]⟩,
    copyCtor := ⟨false, [.setTagNpos, .copyChain [⟨0, 0, 0, 0⟩, ⟨1, 1, 1, 1⟩], .setTagRhs]⟩,
    moveCtor := ⟨false, [.setTagNpos, .moveChain [⟨0, 0, 0, 0⟩, ⟨1, 1, 1, 1⟩], .setTagRhs]⟩,
    copyAssign := ⟨false, [.destroyCurrent, .copyChain [⟨0, 0, 0, 0⟩, ⟨1, 1, 1, 1⟩], .setTagRhs]⟩,
    moveAssign := ⟨false, [.destroyCurrent, .moveChain [⟨0, 0, 0, 0⟩, ⟨1, 1, 1, 1⟩], .setTagRhs]⟩,
    dtor := ⟨false, [.destroyCurrent]⟩,
    emplace := ⟨false, [.destroyCurrent, .constructI, .setTagI]⟩ }

/-- a world in which slot 0 holds a correctly constructed object with alternative `k` active (the state after
    `set_<k>()` on the real class when construction happened to be harmless) -/
def worldWith (p : Prog) (k : Nat) : World := [some { tag := k, live := unitVec p.n k }]

end NunavutVerif.Variant
