/-!
# Specification model of DSDL (Cyphal) serialization  — spec layer of C01, C02, C03, C05

Core Lean only.  Written from the *rules* (PyDSDL's `_serializable/*.py`: alignment, length-prefix /
tag / delimiter-header widths, extent, bit length sets; the property statements; the documentation of the
generated code), **not** from the templates: this is the oracle the generated C / C++ / Python codecs are
compared with.

Conventions
* a serialized representation is a `List Bool`; element `i` of the list is bit `i` of the stream, and
  bit `i` of the stream is bit `i % 8` (counted from the least significant) of byte `i / 8`
  (`packBytes` / `unpackBytes`).  An `N`-bit number is `N` consecutive stream bits, least significant first.
* alignment is 1 or 8 bits (`align`); composites are 8-bit aligned and padded with zeros to a multiple
  of 8, so the context-free functions below never need the absolute offset: every object of alignment 8
  starts at a multiple of 8 of the enclosing object.
* floats are IEEE-754 *bit patterns* end to end (in memory: binary64 pattern as a `Nat < 2^64`).
* `serBits`/`deBits` describe an object in *nested* position (a delimited composite carries its 32-bit
  delimiter header); `serTop`/`deTop` are the top-level routines (no header at top level).
-/
namespace NunavutVerif.Dsdl

/-! ## Types and values -/

/-- Cast mode of a primitive. -/
inductive Cast where
  | sat
  | trunc
  deriving DecidableEq, Repr

/-- DSDL serializable types.  Field names do not matter for the wire format. -/
inductive Ty where
  /-- `uintN`, `N` = 1..64 (also `byte`, `utf8`). -/
  | uint (n : Nat) (m : Cast)
  /-- `intN`, two's complement, `N` = 2..64.  (PyDSDL accepts the saturated mode only.) -/
  | sint (n : Nat) (m : Cast)
  /-- `floatN`, `N` ∈ {16, 32, 64}. -/
  | float (n : Nat) (m : Cast)
  | bool
  /-- `voidN` padding. -/
  | void (n : Nat)
  /-- `T[n]`. -/
  | arr (t : Ty) (n : Nat)
  /-- `T[<=cap]`. -/
  | varr (t : Ty) (cap : Nat)
  /-- sealed structure. -/
  | struct (fs : List Ty)
  /-- sealed tagged union. -/
  | union (fs : List Ty)
  /-- delimited (non-sealed) composite with extent `ext` bits around a struct or union. -/
  | delim (ext : Nat) (inner : Ty)
  deriving Repr, Inhabited

/-- In-memory values.  Integers are unbounded (the storage-type value handed to the serializer);
floats are binary64 bit patterns. -/
inductive Val where
  | int (i : Int)
  | bool (b : Bool)
  | float (x : Nat)
  | void
  /-- fixed and variable-length arrays. -/
  | arr (vs : List Val)
  | struct (vs : List Val)
  /-- option index and the option's value. -/
  | union (k : Nat) (v : Val)
  deriving Repr, Inhabited

mutual
/-- Decidable equality of values (the deriving handler does not cover nested inductives). -/
def Val.decEq : (a b : Val) → Decidable (a = b)
  | .int i, .int j => if h : i = j then isTrue (by rw [h]) else isFalse (by intro e; cases e; exact h rfl)
  | .bool i, .bool j => if h : i = j then isTrue (by rw [h]) else isFalse (by intro e; cases e; exact h rfl)
  | .float i, .float j => if h : i = j then isTrue (by rw [h]) else isFalse (by intro e; cases e; exact h rfl)
  | .void, .void => isTrue rfl
  | .arr as, .arr bs =>
    match Val.decEqList as bs with
    | isTrue h => isTrue (by rw [h])
    | isFalse h => isFalse (by intro e; cases e; exact h rfl)
  | .struct as, .struct bs =>
    match Val.decEqList as bs with
    | isTrue h => isTrue (by rw [h])
    | isFalse h => isFalse (by intro e; cases e; exact h rfl)
  | .union k a, .union l b =>
    if hk : k = l then
      match Val.decEq a b with
      | isTrue h => isTrue (by rw [hk, h])
      | isFalse h => isFalse (by intro e; cases e; exact h rfl)
    else isFalse (by intro e; cases e; exact hk rfl)
  | .int _, .bool _ | .int _, .float _ | .int _, .void | .int _, .arr _ | .int _, .struct _
  | .int _, .union _ _ => isFalse (by intro e; cases e)
  | .bool _, .int _ | .bool _, .float _ | .bool _, .void | .bool _, .arr _ | .bool _, .struct _
  | .bool _, .union _ _ => isFalse (by intro e; cases e)
  | .float _, .int _ | .float _, .bool _ | .float _, .void | .float _, .arr _ | .float _, .struct _
  | .float _, .union _ _ => isFalse (by intro e; cases e)
  | .void, .int _ | .void, .bool _ | .void, .float _ | .void, .arr _ | .void, .struct _
  | .void, .union _ _ => isFalse (by intro e; cases e)
  | .arr _, .int _ | .arr _, .bool _ | .arr _, .float _ | .arr _, .void | .arr _, .struct _
  | .arr _, .union _ _ => isFalse (by intro e; cases e)
  | .struct _, .int _ | .struct _, .bool _ | .struct _, .float _ | .struct _, .void | .struct _, .arr _
  | .struct _, .union _ _ => isFalse (by intro e; cases e)
  | .union _ _, .int _ | .union _ _, .bool _ | .union _ _, .float _ | .union _ _, .void
  | .union _ _, .arr _ | .union _ _, .struct _ => isFalse (by intro e; cases e)
def Val.decEqList : (as bs : List Val) → Decidable (as = bs)
  | [], [] => isTrue rfl
  | [], _ :: _ => isFalse (by intro e; cases e)
  | _ :: _, [] => isFalse (by intro e; cases e)
  | a :: as, b :: bs =>
    match Val.decEq a b with
    | isTrue h =>
      match Val.decEqList as bs with
      | isTrue hs => isTrue (by rw [h, hs])
      | isFalse hs => isFalse (by intro e; cases e; exact hs rfl)
    | isFalse h => isFalse (by intro e; cases e; exact h rfl)
end

instance : DecidableEq Val := Val.decEq

/-! ## Errors -/

/-- Serialization outcomes other than success. -/
inductive SerErr where
  /-- variable-length array longer than its capacity -/
  | badArrayLength
  /-- union option index ≥ option count -/
  | badUnionTag
  /-- output buffer smaller than the maximal serialized size (`serBuf` only) -/
  | bufferTooSmall
  /-- the value does not have the shape of the type (cannot be expressed in a generated object;
      the driver answers `bad-op`) -/
  | illTyped
  deriving DecidableEq, Repr

/-- The three representation errors of deserialization. -/
inductive DeErr where
  | badArrayLength
  | badUnionTag
  | badDelimiterHeader
  deriving DecidableEq, Repr

instance {ε α : Type} [DecidableEq ε] [DecidableEq α] : DecidableEq (Except ε α)
  | .ok a, .ok b => if h : a = b then isTrue (by rw [h]) else isFalse (by intro e; cases e; exact h rfl)
  | .error a, .error b =>
    if h : a = b then isTrue (by rw [h]) else isFalse (by intro e; cases e; exact h rfl)
  | .ok _, .error _ => isFalse (by intro e; cases e)
  | .error _, .ok _ => isFalse (by intro e; cases e)

/-! ## Bits and bytes -/

/-- The `n` low bits of `x`, least significant first. -/
def natToBits : Nat → Nat → List Bool
  | 0, _ => []
  | n + 1, x => (x % 2 == 1) :: natToBits n (x / 2)

/-- Little-endian bit list to number. -/
def bitsToNat : List Bool → Nat
  | [] => 0
  | b :: bs => b.toNat + 2 * bitsToNat bs

def zeros (n : Nat) : List Bool := List.replicate n false

/-- Read an `n`-bit unsigned number at the head of `bs`; bits past the end read as zero
(implicit zero extension). -/
def readNat (n : Nat) (bs : List Bool) : Nat := bitsToNat (bs.take n)

/-- Number of zero bits needed to bring offset `off` to a multiple of `a`. -/
def padLen (a off : Nat) : Nat := (a - off % a) % a

def padTo (a off : Nat) : Nat := off + padLen a off

/-- Pack a bit stream into bytes (the last byte zero padded). -/
def packBytes : List Bool → List Nat
  | [] => []
  | b0 :: b1 :: b2 :: b3 :: b4 :: b5 :: b6 :: b7 :: rest =>
    bitsToNat [b0, b1, b2, b3, b4, b5, b6, b7] :: packBytes rest
  | bs => [bitsToNat bs]

def unpackBytes : List Nat → List Bool
  | [] => []
  | x :: xs => natToBits 8 x ++ unpackBytes xs

/-! ## Widths, alignment, bounds (PyDSDL's rules) -/

/-- Smallest of 8/16/32/64 bits that holds values up to `maxVal`
(`2 ** ceil(log2(max(8, maxVal.bit_length())))`). -/
def stdWidth (maxVal : Nat) : Nat :=
  if maxVal < 2 ^ 8 then 8 else if maxVal < 2 ^ 16 then 16 else if maxVal < 2 ^ 32 then 32 else 64

/-- Width of the implicit length prefix of `T[<=cap]`. -/
def prefixBits (cap : Nat) : Nat := stdWidth cap

/-- Width of the implicit union tag for `count` options (holds `count - 1`). -/
def tagBits (count : Nat) : Nat := stdWidth (count - 1)

/-- Width of the delimiter header. -/
def headerBits : Nat := 32

/-- Alignment requirement in bits: 8 for composites, the element's for arrays, 1 otherwise. -/
def align : Ty → Nat
  | .arr t _ => align t
  | .varr t _ => align t
  | .struct _ => 8
  | .union _ => 8
  | .delim _ _ => 8
  | _ => 1

mutual
/-- Largest serialized length in bits (`bit_length_set.max`; a nested delimited object counts with its
header and its whole extent, as PyDSDL does). -/
def maxBits : Ty → Nat
  | .uint n _ => n
  | .sint n _ => n
  | .float n _ => n
  | .bool => 1
  | .void n => n
  | .arr t n => n * maxBits t
  | .varr t cap => prefixBits cap + cap * maxBits t
  | .struct fs => padTo 8 (maxFields fs 0)
  | .union fs => padTo 8 (tagBits fs.length + maxOpts fs)
  | .delim ext _ => headerBits + ext
/-- End offset of the fields when every field has its maximal length. -/
def maxFields : List Ty → Nat → Nat
  | [], off => off
  | f :: fs, off => maxFields fs (padTo (align f) off + maxBits f)
def maxOpts : List Ty → Nat
  | [] => 0
  | f :: fs => max (maxBits f) (maxOpts fs)
end

mutual
/-- Smallest serialized length in bits (`bit_length_set.min`). -/
def minBits : Ty → Nat
  | .uint n _ => n
  | .sint n _ => n
  | .float n _ => n
  | .bool => 1
  | .void n => n
  | .arr t n => n * minBits t
  | .varr _ cap => prefixBits cap
  | .struct fs => padTo 8 (minFields fs 0)
  | .union fs => padTo 8 (tagBits fs.length + minOpts fs)
  | .delim _ _ => headerBits
def minFields : List Ty → Nat → Nat
  | [], off => off
  | f :: fs, off => minFields fs (padTo (align f) off + minBits f)
/-- Minimum over the options (`0` for the empty list, which is not a legal union). -/
def minOpts : List Ty → Nat
  | [] => 0
  | f :: fs => if fs.isEmpty then minBits f else min (minBits f) (minOpts fs)
end

/-- Extent in bits: declared for delimited types, the (padded) maximal length for sealed ones. -/
def extent : Ty → Nat
  | .delim ext _ => ext
  | t => maxBits t

/-- The type whose body a top-level routine handles (no delimiter header at top level). -/
def topInner : Ty → Ty
  | .delim _ inner => inner
  | t => t

/-- `bounds` of a top-level type: min, max (what the serialization buffer must hold), extent. -/
def boundsTop (t : Ty) : Nat × Nat × Nat := (minBits (topInner t), maxBits (topInner t), extent t)

/-! ## Cast-mode adjustment of primitives -/

/-- Wire value of an unsigned field: saturate to `[0, 2^n-1]` or keep the `n` low bits. -/
def castU (n : Nat) (m : Cast) (i : Int) : Nat :=
  match m with
  | .sat => if i < 0 then 0 else if i ≥ (2 : Int) ^ n then 2 ^ n - 1 else i.toNat
  | .trunc => (i % (2 : Int) ^ n).toNat

/-- Saturation of a signed value to `[-2^(n-1), 2^(n-1)-1]`. -/
def clampS (n : Nat) (i : Int) : Int :=
  if i < -((2 : Int) ^ (n - 1)) then -((2 : Int) ^ (n - 1))
  else if i ≥ (2 : Int) ^ (n - 1) then (2 : Int) ^ (n - 1) - 1 else i

/-- Wire value (two's complement, as an unsigned `n`-bit number) of a signed field.  The truncated mode
(not accepted by PyDSDL for signed integers) keeps the `n` low bits of the two's complement form. -/
def castS (n : Nat) (m : Cast) (i : Int) : Nat :=
  match m with
  | .sat => (clampS n i % (2 : Int) ^ n).toNat
  | .trunc => (i % (2 : Int) ^ n).toNat

/-- Sign extension of an `n`-bit two's complement number. -/
def signExtend (n : Nat) (w : Nat) : Int :=
  if w < 2 ^ (n - 1) then (w : Int) else (w : Int) - (2 : Int) ^ n

/-! ### IEEE-754 narrowing and widening on bit patterns

Formats: `(eb, mb)` exponent and fraction widths: binary16 `(5, 10)`, binary32 `(8, 23)`,
binary64 `(11, 52)`. -/

/-- Round `sig / 2^sh` to the nearest integer, ties to even. -/
def rne (sig sh : Nat) : Nat :=
  let q := sig >>> sh
  let r := sig % 2 ^ sh
  let half := 2 ^ (sh - 1)
  if sh = 0 then sig
  else if r > half ∨ (r = half ∧ q % 2 = 1) then q + 1 else q

/-- Narrow a binary64 pattern to the format `(eb, mb)` (`mb < 52`, `eb < 11`), round to nearest even.
Out of range finite values become infinity in the truncated mode (IEEE overflow) and the largest finite
value in the saturated mode; infinities stay infinities; NaN stays NaN with the sign kept, the quiet bit
set and, for binary32, the leading payload bits kept (what IEEE hardware does), for binary16 the payload
dropped (payloads are outside the specification). -/
def narrowTo (eb mb : Nat) (m : Cast) (x : Nat) : Nat :=
  let s := (x >>> 63) % 2
  let e := (x >>> 52) % 2048
  let f := x % 2 ^ 52
  let sign := s <<< (eb + mb)
  let inf := (2 ^ eb - 1) <<< mb
  if e = 2047 then
    if f = 0 then sign + inf
    else sign + inf + 2 ^ (mb - 1) + (if mb = 23 then (f >>> (52 - mb)) % 2 ^ (mb - 1) else 0)
  else
    let d := 1023 - (2 ^ (eb - 1) - 1)           -- difference of the biases
    let sig := if e = 0 then f else 2 ^ 52 + f
    let e1 := if e = 0 then 1 else e
    -- magnitude pattern: the hidden bit of the rounded significand adds into the exponent field
    let mag :=
      if e1 > d then (e1 - d - 1) <<< mb + rne sig (52 - mb)
      else rne sig ((52 - mb) + (d + 1 - e1))
    if mag ≥ inf then
      match m with
      | .trunc => sign + inf
      | .sat => sign + (inf - 1)
    else sign + mag

/-- Widen a pattern of format `(eb, mb)` to binary64 (exact). -/
def widenFrom (eb mb : Nat) (w : Nat) : Nat :=
  let s := (w >>> (eb + mb)) % 2
  let e := (w >>> mb) % 2 ^ eb
  let f := w % 2 ^ mb
  let sign := s <<< 63
  let d := 1023 - (2 ^ (eb - 1) - 1)
  if e = 2 ^ eb - 1 then sign + (2047 <<< 52) + (f <<< (52 - mb))
  else if e = 0 then
    if f = 0 then sign
    else
      -- subnormal: f = 2^k·(1+…); value f·2^(1-bias-mb); the hidden bit adds into the exponent field
      let k := Nat.log2 f
      sign + ((k + d - mb) <<< 52) + (f <<< (52 - k))
  else sign + ((e + d) <<< 52) + (f <<< (52 - mb))

/-- Wire pattern of a float field of `n` bits holding the binary64 pattern `x`. -/
def narrow (n : Nat) (m : Cast) (x : Nat) : Nat :=
  if n = 16 then narrowTo 5 10 m x
  else if n = 32 then narrowTo 8 23 m x
  else x % 2 ^ 64

/-- Binary64 pattern of the wire pattern `w` of a float field of `n` bits. -/
def widen (n : Nat) (w : Nat) : Nat :=
  if n = 16 then widenFrom 5 10 w
  else if n = 32 then widenFrom 8 23 w
  else w

/-- Is the binary64 pattern a NaN? -/
def isNaN64 (x : Nat) : Bool := (x >>> 52) % 2048 == 2047 && x % 2 ^ 52 != 0

/-! ## Well-typedness and cast adjustment of values -/

mutual
/-- `v` has the shape of `t`.  A variable-length array may be longer than its capacity and a union
value may name an option that does not exist: such values exist in memory and must be *rejected* by the
serializer. -/
def hasTy : Ty → Val → Bool
  | .uint _ _, .int _ => true
  | .sint _ _, .int _ => true
  | .float _ _, .float x => decide (x < 2 ^ 64)
  | .bool, .bool _ => true
  | .void _, .void => true
  | .arr t n, .arr vs => vs.length == n && vs.all (hasTy t)
  | .varr t _, .arr vs => vs.all (hasTy t)
  | .struct fs, .struct vs => hasTyFields fs vs
  | .union fs, .union k v => hasTyNth fs k v
  | .delim _ inner, v => hasTy inner v
  | _, _ => false
def hasTyFields : List Ty → List Val → Bool
  | [], [] => true
  | f :: fs, v :: vs => hasTy f v && hasTyFields fs vs
  | _, _ => false
/-- The option value has the type of option `k`; no constraint when `k` is out of range. -/
def hasTyNth : List Ty → Nat → Val → Bool
  | [], _, _ => true
  | f :: _, 0, v => hasTy f v
  | _ :: fs, k + 1, v => hasTyNth fs k v
end

mutual
/-- The value a round trip returns: every primitive replaced by what its wire representation denotes. -/
def castAdjust : Ty → Val → Val
  | .uint n m, .int i => .int (castU n m i)
  | .sint n m, .int i => .int (signExtend n (castS n m i))
  | .float n m, .float x => .float (widen n (narrow n m x))
  | .arr t _, .arr vs => .arr (vs.map (castAdjust t))
  | .varr t _, .arr vs => .arr (vs.map (castAdjust t))
  | .struct fs, .struct vs => .struct (adjFields fs vs)
  | .union fs, .union k v => .union k (adjNth fs k v)
  | .delim _ inner, v => castAdjust inner v
  | _, v => v
def adjFields : List Ty → List Val → List Val
  | f :: fs, v :: vs => castAdjust f v :: adjFields fs vs
  | _, vs => vs
def adjNth : List Ty → Nat → Val → Val
  | [], _, v => v
  | f :: _, 0, v => castAdjust f v
  | _ :: fs, k + 1, v => adjNth fs k v
end

/-! ## Serialization -/

/-- Array elements one after the other with the element serializer `f` (elements of alignment 8 have
lengths that are multiples of 8, so no padding is needed in between). -/
def serAllWith (f : Val → Except SerErr (List Bool)) : List Val → Except SerErr (List Bool)
  | [] => .ok []
  | v :: vs =>
    match f v with
    | .error e => .error e
    | .ok a =>
      match serAllWith f vs with
      | .error e => .error e
      | .ok b => .ok (a ++ b)

mutual
/-- Serialized representation of `v : t` in nested position. -/
def serBits : Ty → Val → Except SerErr (List Bool)
  | .uint n m, .int i => .ok (natToBits n (castU n m i))
  | .sint n m, .int i => .ok (natToBits n (castS n m i))
  | .float n m, .float x => .ok (natToBits n (narrow n m x))
  | .bool, .bool b => .ok [b]
  | .void n, .void => .ok (zeros n)
  | .arr t n, .arr vs => if vs.length = n then serAllWith (serBits t) vs else .error .illTyped
  | .varr t cap, .arr vs =>
    if vs.length > cap then .error .badArrayLength
    else (serAllWith (serBits t) vs).map (natToBits (prefixBits cap) vs.length ++ ·)
  | .struct fs, .struct vs =>
    (serFields fs vs 0).map fun bs => bs ++ zeros (padLen 8 bs.length)
  | .union fs, .union k v =>
    if k ≥ fs.length then .error .badUnionTag
    else (serNth fs k v).map fun bs =>
      let body := natToBits (tagBits fs.length) k ++ bs
      body ++ zeros (padLen 8 body.length)
  | .delim _ inner, v =>
    (serBits inner v).map fun bs => natToBits headerBits (bs.length / 8) ++ bs
  | _, _ => .error .illTyped
/-- Fields of a structure starting at offset `off` of the structure: zero padding up to the field's
alignment, then the field. -/
def serFields : List Ty → List Val → Nat → Except SerErr (List Bool)
  | [], [], _ => .ok []
  | f :: fs, v :: vs, off =>
    match serBits f v with
    | .error e => .error e
    | .ok a =>
      match serFields fs vs (padTo (align f) off + a.length) with
      | .error e => .error e
      | .ok b => .ok (zeros (padLen (align f) off) ++ a ++ b)
  | _, _, _ => .error .illTyped
/-- The selected option of a union. -/
def serNth : List Ty → Nat → Val → Except SerErr (List Bool)
  | [], _, _ => .error .badUnionTag
  | f :: _, 0, v => serBits f v
  | _ :: fs, k + 1, v => serNth fs k v
end

/-- Top-level serialization: no delimiter header; bits (a multiple of 8 for composites). -/
def serTop (t : Ty) (v : Val) : Except SerErr (List Bool) := serBits (topInner t) v

/-- `ser`: the bytes of the top-level object. -/
def serBytes (t : Ty) (v : Val) : Except SerErr (List Nat) := (serTop t v).map packBytes

/-- `serbuf`: serialization into a buffer of `cap` bytes; the generated code refuses up front every
buffer that could not hold the largest representation. -/
def serBuf (t : Ty) (v : Val) (cap : Nat) : Except SerErr (List Nat) :=
  if cap * 8 < maxBits (topInner t) then .error .bufferTooSmall else serBytes t v

/-! ## Deserialization -/

/-- `k` consecutive elements with the element decoder `f`. -/
def deAllWith (f : List Bool → Except DeErr (Val × Nat)) : Nat → List Bool → Except DeErr (List Val × Nat)
  | 0, _ => .ok ([], 0)
  | k + 1, bs =>
    match f bs with
    | .error e => .error e
    | .ok (v, n) =>
      match deAllWith f k (bs.drop n) with
      | .error e => .error e
      | .ok (vs, m) => .ok (v :: vs, n + m)

mutual
/-- Decode an object of type `t` at the head of `bs` (nested position).  Result: the value and the
number of bits the object occupies (the *virtual* offset: it may exceed `bs.length`, the missing bits
having been read as zeros). -/
def deBits : Ty → List Bool → Except DeErr (Val × Nat)
  | .uint n _, bs => .ok (.int (readNat n bs), n)
  | .sint n _, bs => .ok (.int (signExtend n (readNat n bs)), n)
  | .float n _, bs => .ok (.float (widen n (readNat n bs)), n)
  | .bool, bs => .ok (.bool (readNat 1 bs == 1), 1)
  | .void n, _ => .ok (.void, n)
  | .arr t n, bs =>
    match deAllWith (deBits t) n bs with
    | .error e => .error e
    | .ok (vs, used) => .ok (.arr vs, used)
  | .varr t cap, bs =>
    let p := prefixBits cap
    let k := readNat p bs
    if k > cap then .error .badArrayLength
    else
      match deAllWith (deBits t) k (bs.drop p) with
      | .error e => .error e
      | .ok (vs, used) => .ok (.arr vs, p + used)
  | .struct fs, bs =>
    match deFields fs bs 0 with
    | .error e => .error e
    | .ok (vs, off) => .ok (.struct vs, padTo 8 off)
  | .union fs, bs =>
    let p := tagBits fs.length
    let k := readNat p bs
    if k ≥ fs.length then .error .badUnionTag
    else
      match deNth fs k (bs.drop p) with
      | .error e => .error e
      | .ok (v, used) => .ok (.union k v, padTo 8 (p + used))
  | .delim _ inner, bs =>
    let h := readNat headerBits bs
    let rest := bs.drop headerBits
    -- the header counts bytes and may not exceed the data that is really there
    if 8 * h > rest.length then .error .badDelimiterHeader
    else
      -- the nested object sees exactly `h` bytes: shorter ⇒ zero extended, longer ⇒ the tail is skipped
      match deBits inner (rest.take (8 * h)) with
      | .error e => .error e
      | .ok (v, _) => .ok (v, headerBits + 8 * h)
/-- Fields of a structure whose bits are `bs`, continuing at offset `off`; returns the end offset. -/
def deFields : List Ty → List Bool → Nat → Except DeErr (List Val × Nat)
  | [], _, off => .ok ([], off)
  | f :: fs, bs, off =>
    let o := padTo (align f) off
    match deBits f (bs.drop o) with
    | .error e => .error e
    | .ok (v, n) =>
      match deFields fs bs (o + n) with
      | .error e => .error e
      | .ok (vs, e) => .ok (v :: vs, e)
def deNth : List Ty → Nat → List Bool → Except DeErr (Val × Nat)
  | [], _, _ => .error .badUnionTag
  | f :: _, 0, bs => deBits f bs
  | _ :: fs, k + 1, bs => deNth fs k bs
end

/-- Top-level deserialization: value and *consumed* bits as the generated code reports them
(`min(offset, supplied)`). -/
def deTop (t : Ty) (bs : List Bool) : Except DeErr (Val × Nat) :=
  match deBits (topInner t) bs with
  | .error e => .error e
  | .ok (v, n) => .ok (v, min n bs.length)

/-- `de`: from bytes; consumed size in bytes. -/
def deBytes (t : Ty) (bytes : List Nat) : Except DeErr (Val × Nat) :=
  match deTop t (unpackBytes bytes) with
  | .error e => .error e
  | .ok (v, n) => .ok (v, (n + 7) / 8)

/-! ## Well-formed types (what PyDSDL guarantees and the theorems need) -/

def isComposite : Ty → Bool
  | .struct _ => true
  | .union _ => true
  | _ => false

mutual
/-- Side conditions under which the laws are stated: widths in range, capacities and option counts that
fit their prefix, a delimited type wraps a struct/union, its extent is a multiple of 8, at least the
inner type's maximal length (PyDSDL: `extent >= inner.extent`) and small enough for a 32-bit byte count. -/
def wf : Ty → Bool
  | .uint n _ => decide (1 ≤ n ∧ n ≤ 64)
  | .sint n _ => decide (1 ≤ n ∧ n ≤ 64)
  | .float n _ => decide (n = 16 ∨ n = 32 ∨ n = 64)
  | .bool => true
  | .void _ => true
  | .arr t _ => wf t
  | .varr t cap => decide (cap < 2 ^ 64) && wf t
  | .struct fs => wfAll fs
  | .union fs => decide (1 ≤ fs.length ∧ fs.length ≤ 2 ^ 64) && wfAll fs
  | .delim ext inner =>
    isComposite inner && decide (ext % 8 = 0 ∧ maxBits inner ≤ ext ∧ ext < 8 * 2 ^ 32) && wf inner
def wfAll : List Ty → Bool
  | [] => true
  | f :: fs => wf f && wfAll fs
end

end NunavutVerif.Dsdl
