import NunavutVerif.Model.LineBuffer
/-
Mini template language for the noninterference properties C07 / C10 and its rendering semantics.

The generated tables `Gen/TplFlows*.lean` (translate/tplflows.py) are values of `Tpl`: every built-in template, macro
and block of c, cpp, py, html is a *body*; every Jinja expression occurrence is a `Leaf` carrying the ambient source
classes it may read (`reads`) and the classes removed by sanitisers applied inside the expression (`removes`).

Rendering is defined over an arbitrary interpretation `I` of the leaves (the theorems quantify over all of them):
a leaf sees the declared inputs, the stack of loop items and the ambient state *masked* to the leaf's effective
classes.  Each sanitiser kind is justified separately by a concrete theorem (Lemmas/Tpl.lean, Properties/C07, C10):
`.name` on a path, `sort` on a hash-ordered collection, the per-file reset of the unique-name generator, memoisation.

Core Lean only (linked into the `tpl` driver).
-/
namespace NunavutVerif.Tpl

open LineBuffer (Str)

/-- Ambient source classes.  Everything else a leaf reads is a declared input
(T and the types it refers to, the options, the templates, the tool version). -/
inductive Src where
  | time | absPath | platform | hashOrder | random
  | siblings | psUniqueName | psMemo | psTemplateCache | psModelCache
  | psCompileFold     -- a stateful filter on constant arguments: Jinja may evaluate it when the template is COMPILED
  | psSharedMutable   -- an object handed out by a memoised function is mutated
deriving DecidableEq, Repr, Inhabited

/-- What a run may differ in for C07: clock, location/cwd, platform data, hash seed, random numbers. -/
def Src.c07 : List Src := [.time, .absPath, .platform, .hashOrder, .random]
/-- What a run may differ in for C10: sibling types and process-wide state left by earlier files / runs. -/
def Src.c10 : List Src :=
  [.siblings, .psUniqueName, .psMemo, .psTemplateCache, .psModelCache, .psCompileFold, .psSharedMutable]

structure Leaf where
  id      : Nat
  reads   : List Src
  removes : List Src
deriving DecidableEq, Repr, Inhabited

/-- Classes that reach the leaf's value. -/
def Leaf.effective (l : Leaf) : List Src := l.reads.filter fun s => !l.removes.contains s

inductive Cond where
  | audit                -- `nunavut.embed_auditing_info`
  | notAudit             -- `not nunavut.embed_auditing_info`
  | leaf (l : Leaf)
deriving DecidableEq, Repr, Inhabited

inductive Tpl where
  | nil
  | text (id : Nat)                     -- static template data (content is part of the declared inputs)
  | out (e : Leaf)                      -- `{{ e }}`
  | seq (a b : Tpl)
  | ite (c : Cond) (t e : Tpl)
  | loop (e : Leaf) (body : Tpl)        -- `for`; also macro argument binding (one-element iteration)
  | call (m : Nat)                      -- include / extends / macro / block, by index into the program
  | filterBlock (f : Leaf) (t : Tpl)    -- a function of the rendered text of `t`
deriving Repr, Inhabited

inductive FileKind where
  | type | «namespace» | support
deriving DecidableEq, Repr, Inhabited

/-- A template the generators can select for an output file. `body = none`: a support file that is copied, not
rendered.  `first`: the static text the rendering starts with, up to its first newline (clipped); `none` = starts
with something dynamic.  `last`: the static text the rendering ends with, from the line feed before its last line
(`some ""` = the template emits nothing at all); `none` = ends with something dynamic. -/
structure Root where
  name  : String
  kind  : FileKind
  body  : Option Nat
  first : Option String
  last  : Option String
deriving Repr, Inhabited

structure Lang where
  name    : String
  program : List Tpl
  roots   : List Root
deriving Repr, Inhabited

/-! ### Environments and interpretations -/

/-- The ambient state: one abstract value per source class. -/
abbrev Amb := Src → Nat

/-- A leaf only sees the classes in `cs`. -/
def mask (cs : List Src) (a : Amb) : Amb := fun s => if cs.contains s then a s else 0

/-- Interpretation of leaves over declared inputs `δ`: `locals` is the stack of enclosing loop items. -/
structure Interp (δ : Type) where
  text : Nat → Str
  out  : Nat → δ → List Nat → Amb → Str
  cond : Nat → δ → List Nat → Amb → Bool
  iter : Nat → δ → List Nat → Amb → List Nat
  filt : Nat → δ → List Nat → Amb → Str → Str

variable {δ : Type}

def evalCond (I : Interp δ) (audit : Bool) (d : δ) (a : Amb) (ls : List Nat) : Cond → Bool
  | .audit => audit
  | .notAudit => !audit
  | .leaf l => I.cond l.id d ls (mask l.effective a)

/-- Rendering of one body; `callee m ls` renders body `m` (one level less fuel). -/
def renderWith (I : Interp δ) (audit : Bool) (d : δ) (a : Amb) (callee : Nat → List Nat → Str) :
    List Nat → Tpl → Str
  | _, .nil => []
  | _, .text i => I.text i
  | ls, .out e => I.out e.id d ls (mask e.effective a)
  | ls, .seq x y => renderWith I audit d a callee ls x ++ renderWith I audit d a callee ls y
  | ls, .ite c t e =>
      if evalCond I audit d a ls c then renderWith I audit d a callee ls t
      else renderWith I audit d a callee ls e
  | ls, .loop e body =>
      (I.iter e.id d ls (mask e.effective a)).flatMap fun item => renderWith I audit d a callee (item :: ls) body
  | ls, .call m => callee m ls
  | ls, .filterBlock f t => I.filt f.id d ls (mask f.effective a) (renderWith I audit d a callee ls t)

/-- Rendering of body `m` of program `P` with call depth bounded by the fuel (recursive macros exist). -/
def render (I : Interp δ) (P : List Tpl) (audit : Bool) (d : δ) (a : Amb) : Nat → Nat → List Nat → Str
  | 0, _, _ => []
  | fuel + 1, m, ls =>
      match P[m]? with
      | none => []
      | some b => renderWith I audit d a (render I P audit d a fuel) ls b

/-! ### The static check -/

/-- No class of `cs` reaches the leaf. -/
def Leaf.cleanFor (cs : List Src) (l : Leaf) : Bool := l.effective.all fun s => !cs.contains s

def Cond.cleanFor (cs : List Src) : Cond → Bool
  | .leaf l => l.cleanFor cs
  | _ => true

/-- Every leaf that can be evaluated with auditing off is clean: the `then` branch of an auditing guard is exempt. -/
def Tpl.cleanFor (cs : List Src) : Tpl → Bool
  | .nil => true
  | .text _ => true
  | .call _ => true
  | .out e => e.cleanFor cs
  | .seq a b => a.cleanFor cs && b.cleanFor cs
  | .ite .audit _ e => e.cleanFor cs
  | .ite .notAudit t _ => t.cleanFor cs
  | .ite (.leaf l) t e => l.cleanFor cs && t.cleanFor cs && e.cleanFor cs
  | .loop e b => e.cleanFor cs && b.cleanFor cs
  | .filterBlock f t => f.cleanFor cs && t.cleanFor cs

/-- Bodies called from a body. -/
def Tpl.callees : Tpl → List Nat
  | .nil => []
  | .text _ => []
  | .out _ => []
  | .call m => [m]
  | .seq a b => a.callees ++ b.callees
  | .ite _ t e => t.callees ++ e.callees
  | .loop _ b => b.callees
  | .filterBlock _ t => t.callees

/-- `S` is closed under calls and every body in it is clean for `cs`. -/
def closedClean (cs : List Src) (P : List Tpl) (S : List Nat) : Bool :=
  S.all fun m =>
    match P[m]? with
    | none => false
    | some b => b.cleanFor cs && b.callees.all fun c => S.contains c

/-- Bodies reachable from `todo` (worklist with fuel; correctness is not needed: the result is *checked* by
`closedClean`). -/
def reach (P : List Tpl) : Nat → List Nat → List Nat → List Nat
  | 0, _, seen => seen
  | _ + 1, [], seen => seen
  | fuel + 1, m :: todo, seen =>
      if seen.contains m then reach P fuel todo seen
      else
        match P[m]? with
        | none => reach P fuel todo (m :: seen)
        | some b => reach P fuel (b.callees ++ todo) (m :: seen)

def Tpl.size : Tpl → Nat
  | .seq a b => a.size + b.size + 1
  | .ite _ t e => t.size + e.size + 1
  | .loop _ b => b.size + 1
  | .filterBlock _ t => t.size + 1
  | _ => 1

def reachFrom (P : List Tpl) (m : Nat) : List Nat :=
  reach P ((P.map Tpl.size).sum + P.length + 1) [m] []

/-- Every root of kind `k` renders only bodies that are clean for `cs`. -/
def Lang.rootsCleanFor (L : Lang) (cs : List Src) (k : FileKind) : Bool :=
  L.roots.all fun r =>
    if r.kind = k then
      match r.body with
      | none => true
      | some m => (reachFrom L.program m).contains m && closedClean cs L.program (reachFrom L.program m)
    else true

def Lang.cleanFor (L : Lang) (cs : List Src) : Bool :=
  L.rootsCleanFor cs .type && L.rootsCleanFor cs .namespace && L.rootsCleanFor cs .support

/-- The leaves of a body that are *not* clean for `cs` (for reporting). -/
def Tpl.dirty (cs : List Src) : Tpl → List Nat
  | .nil => []
  | .text _ => []
  | .call _ => []
  | .out e => if e.cleanFor cs then [] else [e.id]
  | .seq a b => a.dirty cs ++ b.dirty cs
  | .ite .audit _ e => e.dirty cs
  | .ite .notAudit t _ => t.dirty cs
  | .ite (.leaf l) t e => (if l.cleanFor cs then [] else [l.id]) ++ t.dirty cs ++ e.dirty cs
  | .loop e b => (if e.cleanFor cs then [] else [e.id]) ++ b.dirty cs
  | .filterBlock f t => (if f.cleanFor cs then [] else [f.id]) ++ t.dirty cs

/-- Dirty leaves reachable from the roots of kind `k`. -/
def Lang.dirtyLeaves (L : Lang) (cs : List Src) (k : FileKind) : List Nat :=
  (L.roots.filter fun r => r.kind = k).flatMap fun r =>
    match r.body with
    | none => []
    | some m => (reachFrom L.program m).flatMap fun b =>
        match L.program[b]? with
        | none => []
        | some t => t.dirty cs

/-! ### First / last line of a text (hypotheses of the empty-line-limiter theorems) -/

/-- The text has a non-blank character (not Python `\\s`) before its first line feed. -/
def firstLineNonBlank : Str → Bool
  | [] => false
  | c :: rest => if c = '\n' then false else if LineBuffer.isWs c then firstLineNonBlank rest else true

/-- The last line of the text (after dropping one final line feed) has a non-blank character. -/
def lastLineNonBlank (s : Str) : Bool :=
  match s.reverse with
  | [] => false
  | c :: rest => if c = '\n' then firstLineNonBlank rest else firstLineNonBlank (c :: rest)

def Root.firstNonBlank (r : Root) : Bool :=
  match r.first with
  | none => false
  | some s => firstLineNonBlank s.toList

/-- The template emits nothing at all (e.g. the empty `html/ServiceType.j2`). -/
def Root.emitsNothing (r : Root) : Bool := r.first == some "" && r.last == some ""

/-- The rendering is empty or ends in a non-blank line (known from the trailing static text). -/
def Root.lastNonBlankOrEmpty (r : Root) : Bool :=
  match r.last with
  | none => false
  | some s => s.isEmpty || lastLineNonBlank s.toList

/-! ### A program with some leaves replaced by ambient-independent ones (for stating "clean except for …") -/

/-- The leaf with nothing to read: its value is a function of the declared inputs and the loop context only. -/
def Leaf.scrub (ids : List Nat) (l : Leaf) : Leaf := if ids.contains l.id then ⟨l.id, [], []⟩ else l

def Tpl.scrub (ids : List Nat) : Tpl → Tpl
  | .nil => .nil
  | .text i => .text i
  | .out e => .out (e.scrub ids)
  | .seq a b => .seq (a.scrub ids) (b.scrub ids)
  | .ite (.leaf l) t e => .ite (.leaf (l.scrub ids)) (t.scrub ids) (e.scrub ids)
  | .ite c t e => .ite c (t.scrub ids) (e.scrub ids)
  | .loop e b => .loop (e.scrub ids) (b.scrub ids)
  | .call m => .call m
  | .filterBlock f t => .filterBlock (f.scrub ids) (t.scrub ids)

/-- The templates of a language with the leaves `ids` replaced by any ambient-independent function of the same
arguments (what the program would be if those expressions were repaired). -/
def Lang.scrub (L : Lang) (ids : List Nat) : Lang := { L with program := L.program.map (Tpl.scrub ids) }

/-! ### Everything registered in a template environment (`Gen/TplCallables.lean`) -/

/-- A filter, test or global of a real `CodeGenEnvironment`: the source classes the translator found for it (hand table ∪
scan of its body) and the classes removed by a sanitiser that applies to EVERY use (per-file reset of the unique-name
generator, memoisation transparency). -/
structure Callable where
  what    : String        -- "filter" | "test" | "global"
  name    : String        -- as registered (`ln.cpp.id`)
  short   : String        -- last component
  reads   : List Src
  removes : List Src
deriving Repr

def Callable.effective (c : Callable) : List Src := c.reads.filter fun s => !c.removes.contains s

/-- The registered names a template may use to read something that is not a declared input — by design and documented, or a
known finding.  Everything else registered in an environment must be clean:
* `now_utc` (time stamp of the generation; the built-in templates print it only under `nunavut.embed_auditing_info`);
* Jinja's own `lipsum` global and `random` filter;
* `includes` (C, C++): the hash-ordered set of dependencies, sorted unless the template passes `sort=False`;
* `type_to_include_path`: returns the absolute output path of a type;
* `pickle` (Python): serialises the PyDSDL model — absolute source path and cache fill state (known findings). -/
def expectedAmbient : List (String × String × List Src) :=
  [ ("global", "now_utc", [.time]), ("global", "lipsum", [.random]), ("filter", "random", [.random]),
    ("filter", "includes", [.hashOrder]), ("filter", "type_to_include_path", [.absPath, .hashOrder]),
    ("filter", "pickle", [.absPath, .psModelCache]) ]

def Callable.allowed (c : Callable) : List Src :=
  match expectedAmbient.find? fun e => e.1 = c.what && e.2.1 = c.short with
  | some e => e.2.2
  | none => []

/-- Restricted to the classes `cs`: clean, or one of the expected names with no more than its expected classes. -/
def Callable.asExpected (cs : List Src) (c : Callable) : Bool :=
  (c.effective.filter cs.contains).all c.allowed.contains

/-! ### `sorted` on strings (include lists) -/

/-- Python compares `str` by code point, lexicographically. -/
def strLe : Str → Str → Bool
  | [], _ => true
  | _ :: _, [] => false
  | a :: as, b :: bs => if a.toNat < b.toNat then true else if b.toNat < a.toNat then false else strLe as bs

/-- `sorted(...)` on strings. -/
def sortStrs (l : List Str) : List Str := l.mergeSort strLe

end NunavutVerif.Tpl
