import NunavutVerif.Gen.SupportFiles
/-!
# Model of the CLI's listing / dry-run / generating decisions (C08)

Transcribed from `/repo/src/nunavut/cli/runners.py` (`ArgparseRunner.run`, `_list_outputs_only`,
`_list_inputs_only`, `_generate`, `_should_generate_support`), `cli/__init__.py` (`_post_process_args`,
`extension_type`), `jinja/__init__.py` (`DSDLCodeGenerator.generate_all/_generate_type`,
`SupportGenerator.get_templates/generate_all/_generate_header/_copy_header`), `jinja/loaders.py`
(`get_templates`, `type_to_template`), `_generators.py` (namespace-type default), `_namespace.py`
(`get_all_types` / `get_all_datatypes`, output paths) and `pathlib.PurePath.with_suffix` (Python 3.12).

What is abstract: the namespace tree is a flat list of entries in `get_all_types` order (the tree itself is
C11's model), the class hierarchy behind `type_to_template` is a per-entry candidate list (C16's model), the
content of files is not modelled at all — only *which* files are read, listed, created.

The model describes the code **after** the proposed fixes: `fix_list_inputs_all_template_dir_files` and
`fix_list_inputs_lookup_dsdl` (round 2: `--list-inputs` names every file of the template directories and every definition below
the lookup directories; before: `listInputsOnlyBeforeInputsFix` / `runBeforeInputsFix`), `fix_list_configuration_skips_dsdl` (round 2: the DSDL front end
is skipped only when `run` really does nothing but list the configuration; before: `runLcBeforeFix`), `fix_list_outputs_omit` (the listing path hands
`--omit-serialization-support` to the generators exactly like the generating path) and
`fix_list_inputs_support_templates` (`SupportGenerator.get_templates` reports the file its loader opens).  The
behaviour of the unchanged code is kept as `listOutputsOnlyBeforeFix` / `listInputsOnlyBeforeFix` / `runBeforeFix`.

Core Lean only.
-/
namespace NunavutVerif.Cli
open NunavutVerif.Gen.SupportFiles

/-- `--generate-support` -/
inductive GenSupport | always | never | asNeeded | only
  deriving DecidableEq, Repr

inductive Err
  | parserReject      -- argparse `error()` (exit status 2): `--omit-serialization-support` with `--generate-support=always`
  | invalidSuffix     -- `ValueError("Invalid suffix")` from `with_suffix`
  | emptyName         -- `ValueError("... has an empty name")` from `with_suffix`
  | noTemplate        -- `RuntimeError("No template found for type ...")`
  | templateNotFound  -- jinja `TemplateNotFound`: only a nested file carries the matching stem
  deriving DecidableEq, Repr

/-- An output path as the list of its components (the harness hands in `--outdir` split at `/`). -/
abbrev OutPath := List String

/-! ## pathlib -/

/-- `PurePath.stem` / `PurePath.suffix` of one file name: the last dot counts when it is neither the first nor
the last character. -/
def splitSuffix (name : List Char) : List Char × List Char :=
  match name.reverse.span (fun c => c != '.') with
  | (_, []) => (name, [])
  | (tailRev, _ :: headRev) =>
    if headRev.isEmpty || tailRev.isEmpty then (name, []) else (headRev.reverse, '.' :: tailRev.reverse)

def pySuffix (name : String) : String := String.ofList (splitSuffix name.toList).2
def pyStem (name : String) : String := String.ofList (splitSuffix name.toList).1

/-- `with_suffix` refuses a suffix containing a separator, a non-empty one not starting with a dot, and `"."`. -/
def suffixValid (suffix : String) : Bool :=
  !suffix.toList.contains '/' &&
  match suffix.toList with
  | [] => true
  | c :: rest => c == '.' && !rest.isEmpty

/-- Joining path segments drops empty and `.` segments. -/
def cleanParts (ps : List String) : List String := ps.filter fun s => s != "" && s != "."

/-- `PurePath(*parts).with_suffix(suffix)` -/
def pathWithSuffix (parts : List String) (suffix : String) : Except Err OutPath :=
  if !suffixValid suffix then .error .invalidSuffix else
  match (cleanParts parts).reverse with
  | [] => .error .emptyName
  | last :: revInit => .ok (revInit.reverse ++ [pyStem last ++ suffix])

/-! ## Inputs of a run -/

/-- One file a template loader can see: its loader-relative name and its resolved location. -/
structure TemplateFile where
  name : String
  path : String
  /-- the file is reachable only through a symbolic link to a *directory* below the templates directory: Jinja's
  `get_source` opens it (plain path join), but neither `glob("**/*.j2")` (Python 3.12) nor
  `FileSystemLoader.list_templates` (`os.walk(followlinks=False)`) descends into the link.  A file that is itself a
  symbolic link is an ordinary entry (`path` is its resolved target, as printed by `p.resolve()`). -/
  viaLinkedDir : Bool
  deriving DecidableEq, Repr

/-- One element of `Namespace.get_all_types()`: a namespace pseudo-type or a data type. -/
structure Entry where
  isNs : Bool
  comps : List String        -- (stropped) namespace components = folders below the output directory
  stem : String              -- `<ShortName>_<major>_<minor>` for a data type; unused for a namespace
  src : String               -- the `.dsdl` file, or the source folder of a namespace
  candidates : List String   -- class names `type_to_template` tries, in its search order
  deps : List String         -- other `.dsdl` files the front end read to compile this definition (transitive)
  deriving DecidableEq, Repr

structure Args where
  lang : LangRow
  pkgDir : String                               -- the directory of the `nunavut.lang` package
  outdir : List String                          -- `--outdir`, split into components
  genSupport : GenSupport
  omitSer : Bool                                  -- `--omit-serialization-support`
  gnt : Bool                                    -- `--generate-namespace-types`
  extArg : Option String                        -- `--output-extension` as typed
  stemArg : Option String                       -- `--namespace-output-stem`
  templates : Option (List TemplateFile)        -- every file below `--templates DIR` (none: option absent)
  supportTemplates : Option (List TemplateFile) -- every file below `--support-templates DIR`
  lookupFiles : List String := []               -- every `*.dsdl` / `*.uavcan` below the lookup directories (resolved):
                                                -- `--lookup-dir` arguments AND the entries of `DSDL_INCLUDE_PATH`
  deriving Repr

/-- What `ArgparseRunner.run` does.  `listConfiguration`: `_list_configuration_only` prints the resolved configuration
and calls neither generator. -/
inductive Mode | listOutputs | listInputs | listConfiguration | dryRun | generate
  deriving DecidableEq, Repr

/-- The `if`/`elif` chain of `ArgparseRunner.run` over `--list-outputs`, `--list-inputs`, `--list-configuration`; its
`else` branch `_generate` hands `--dry-run` to both generators. -/
def modeOf (listOutputs listInputs listConfiguration dryRun : Bool) : Mode :=
  if listOutputs then .listOutputs else if listInputs then .listInputs
  else if listConfiguration then .listConfiguration else if dryRun then .dryRun else .generate

/-- `_NunavutArgumentParser._post_process_args` -/
def accepted (a : Args) : Bool := !(a.omitSer && a.genSupport == .always)

/-- `extension_type` of the argument parser -/
def extensionType (raw : String) : String :=
  match raw.toList with
  | [] => raw
  | c :: _ => if c == '.' then raw else "." ++ raw

/-- `target_language.extension` after `set_target_language_extension` (an override of `None` is ignored). -/
def ext (a : Args) : String :=
  match a.extArg with
  | some raw => extensionType raw
  | none => a.lang.ext

def nsStem (a : Args) : String :=
  match a.stemArg with
  | some s => s
  | none => a.lang.nsStem

/-- `ArgparseRunner._should_generate_support` -/
def shouldGenerateSupport (a : Args) : Bool :=
  match a.genSupport with
  | .asNeeded => !a.omitSer
  | .always => true
  | .only => true
  | .never => false

/-- `AbstractGenerator.__init__`: YES from the flag, otherwise the language default. -/
def generateNamespaceTypes (a : Args) : Bool := a.gnt || a.lang.hasStdNsFiles

/-! ## Template loaders -/

def baseName (name : String) : String :=
  String.ofList ((name.toList.reverse.takeWhile fun c => c != '/').reverse)

def builtinTemplateFile (a : Args) (sub name : String) : TemplateFile :=
  ⟨name, a.pkgDir ++ "/" ++ a.lang.name ++ "/" ++ sub ++ "/" ++ name, false⟩

/-- The files the type generator's loader can load.  `FIND_FIRST`: a `--templates` directory replaces the
built-in package. -/
def typeLoaderFiles (a : Args) : List TemplateFile :=
  match a.templates with
  | some fs => fs
  | none => a.lang.loadable.map (builtinTemplateFile a "templates")

/-- `_filter_template_list_by_suffix`: `Path(f).suffix == ".j2"` -/
def isJ2 (name : String) : Bool := pySuffix (baseName name) == ".j2"

/-- `DSDLTemplateLoader.get_templates`: the file-system part is `glob("**/*.j2")` (a pure ends-with test), the
package part goes through `_filter_template_list_by_suffix`. -/
def typeTemplates (a : Args) : List TemplateFile :=
  match a.templates with
  | some fs => fs.filter fun f => (".j2".toList).isSuffixOf f.name.toList && !f.viaLinkedDir
  | none => (typeLoaderFiles a).filter fun f => isJ2 f.name

/-- A loader-relative name with a `__pycache__` directory on the way: byte code the interpreter writes by itself, not an
input. -/
def inPycache (name : String) : Bool :=
  let rec go : List Char → List Char → Bool
    | [], _ => false       -- the last component is a file name, not a directory
    | c :: r, cur => if c = '/' then (cur.reverse = "__pycache__".toList || go r []) else go r (c :: cur)
  go name.toList []

/-- `DSDLTemplateLoader.get_template_inputs` (after `fix_list_inputs_all_template_dir_files`): every file of the search
path — any suffix, directory links followed — or of the template package, except what lies below a `__pycache__`
directory (unless `get_templates` enumerates it: the result starts from that set). -/
def typeInputs (a : Args) : List TemplateFile :=
  (typeLoaderFiles a).filter fun f => !inPycache f.name || (typeTemplates a).contains f

/-- `type_to_template` + `filter_type_to_template` + `Environment.get_template`: the first candidate class name
that is the stem of some `.j2` file the loader lists; the template is then requested by `<stem>.j2`, which only a
top-level file answers. -/
def resolveTemplate (files : List TemplateFile) : List String → Except Err String
  | [] => .error .noTemplate
  | c :: cs =>
    if files.any (fun f => !f.viaLinkedDir && isJ2 f.name && pyStem (baseName f.name) == c) then
      if files.any (fun f => f.name == c ++ ".j2") then .ok (c ++ ".j2") else .error .templateNotFound
    else resolveTemplate files cs

/-- `SupportGenerator.get_templates(omit_serialization_support)`: packaged resources only. -/
def supportResources (a : Args) (om : Bool) : List String :=
  (if om then [] else a.lang.serSupport) ++ a.lang.typeSupport

/-! ## File-system operations -/

inductive FsOp
  | handleOverwrite (p : OutPath)        -- `_handle_overwrite`: chmod +w when the file exists (C12 models the rest)
  | mkdirParents (p : OutPath)
  | render (p : OutPath)                 -- `open(p, "w")` + the rendered template
  | copy (src : String) (p : OutPath)    -- `shutil.copy` / line-wise copy
  | postProcess (p : OutPath)            -- file post-processors (`SetFileMode` is always in the list)
  deriving DecidableEq, Repr

/-- The files an operation log creates or rewrites. -/
def written : List FsOp → List OutPath
  | [] => []
  | .render p :: r => p :: written r
  | .copy _ p :: r => p :: written r
  | _ :: r => written r

/-- `_generate_code` -/
def generateCodeOps (p : OutPath) : List FsOp :=
  [.handleOverwrite p, .mkdirParents p, .render p, .postProcess p]

/-- What a generator leaves behind: the operations performed and either the returned list or the exception. -/
structure Out where
  ops : List FsOp
  res : Except Err (List OutPath)
  deriving Repr

/-- `DSDLCodeGenerator.generate_all` / `_generate_type`: the template is looked up for every type, also in a
dry run; the file is written iff `is_dryrun` is false; the path is returned either way. -/
def genTypes (files : List TemplateFile) (dry : Bool) : List (Entry × OutPath) → Out
  | [] => ⟨[], .ok []⟩
  | (e, p) :: rest =>
    match resolveTemplate files e.candidates with
    | .error x => ⟨[], .error x⟩
    | .ok _ =>
      let o := genTypes files dry rest
      ⟨(if dry then [] else generateCodeOps p) ++ o.ops, o.res.map (p :: ·)⟩

/-- `_generate_header` -/
def generateHeaderOps (dry : Bool) (p : OutPath) : List FsOp :=
  if dry then [] else generateCodeOps p

/-- `_copy_header` -/
def copyHeaderOps (dry : Bool) (src : String) (p : OutPath) : List FsOp :=
  if dry then [] else [.handleOverwrite p, .mkdirParents p, .copy src p, .postProcess p]

def supportTarget (a : Args) (name : String) : Except Err OutPath :=
  pathWithSuffix (a.outdir ++ a.lang.supportNs ++ [name]) (ext a)

/-- the loop of `SupportGenerator.generate_all` -/
def genSupportLoop (a : Args) (dry : Bool) : List String → Out
  | [] => ⟨[], .ok []⟩
  | name :: rest =>
    match supportTarget a name with
    | .error x => ⟨[], .error x⟩
    | .ok p =>
      let o := genSupportLoop a dry rest
      let src := (builtinTemplateFile a "support" name).path
      ⟨(if pySuffix name == ".j2" then generateHeaderOps dry p else copyHeaderOps dry src p) ++ o.ops,
       o.res.map (p :: ·)⟩

/-- `SupportGenerator.generate_all(is_dryrun, omit_serialization_support)` -/
def genSupportAll (a : Args) (dry om : Bool) : Out := genSupportLoop a dry (supportResources a om)

/-! ## Namespace tree -/

def entryPath (a : Args) (e : Entry) : Except Err OutPath :=
  if e.isNs then pathWithSuffix (a.outdir ++ e.comps ++ [nsStem a]) (ext a)
  else (pathWithSuffix [e.stem] (ext a)).map fun n => cleanParts (a.outdir ++ e.comps) ++ n

/-- `build_namespace_tree`: every output path is computed before anything is listed or generated. -/
def buildTree (a : Args) : List Entry → Except Err (List (Entry × OutPath))
  | [] => .ok []
  | e :: es =>
    match entryPath a e with
    | .error x => .error x
    | .ok p => (buildTree a es).map ((e, p) :: ·)

/-- With `--generate-support only` no DSDL is read; the tree is the single empty root namespace. -/
def emptyRoot : Entry := ⟨true, [""], "", "", ["Namespace", "Any"], []⟩

def treeEntries (a : Args) (entries : List Entry) : List Entry :=
  if a.genSupport == .only then [emptyRoot] else entries

/-- `get_all_types` when namespace types are generated, `get_all_datatypes` otherwise. -/
def selected (a : Args) (tree : List (Entry × OutPath)) : List (Entry × OutPath) :=
  if generateNamespaceTypes a then tree else tree.filter fun x => !x.1.isNs

/-! ## The three run methods -/

structure Run where
  ops : List FsOp := []
  outputs : List OutPath := []   -- items printed by `--list-outputs`
  inputs : List String := []     -- items printed by `--list-inputs`
  err : Option Err := none
  deriving Repr

def errOf (r : Except Err (List OutPath)) : Option Err :=
  match r with
  | .ok _ => none
  | .error x => some x

def listOf (r : Except Err (List OutPath)) : List OutPath :=
  match r with
  | .ok l => l
  | .error _ => []

/-- `if self._args.generate_support != "only": self._generator.generate_all(is_dryrun=dry, ...)` -/
def typesOut (a : Args) (dry : Bool) (tree : List (Entry × OutPath)) : Out :=
  if a.genSupport != .only then genTypes (typeLoaderFiles a) dry (selected a tree) else ⟨[], .ok []⟩

/-- `if self._should_generate_support(): self._support_generator.generate_all(is_dryrun=dry, omit...=om)` -/
def supportOut (a : Args) (dry om : Bool) : Out :=
  if shouldGenerateSupport a then genSupportAll a dry om else ⟨[], .ok []⟩

/-- `_list_outputs_only`, generic in the `omit_serialization_support` value the support generator receives:
types first, then support; a generator that raises prints nothing. -/
def listOutputsWith (a : Args) (omitForSupport : Bool) (tree : List (Entry × OutPath)) : Run :=
  let t := typesOut a true tree
  match t.res with
  | .error x => { ops := t.ops, err := some x }
  | .ok l1 =>
    let s := supportOut a true omitForSupport
    { ops := t.ops ++ s.ops, outputs := l1 ++ listOf s.res, err := errOf s.res }

/-- `_list_outputs_only` (after `fix_list_outputs_omit`) -/
def listOutputsOnly (a : Args) (tree : List (Entry × OutPath)) : Run := listOutputsWith a a.omitSer tree

/-- `_list_outputs_only` of the unchanged code: `generate_all(is_dryrun=True)` — `omit_serialization_support`
keeps its default `False`. -/
def listOutputsOnlyBeforeFix (a : Args) (tree : List (Entry × OutPath)) : Run := listOutputsWith a false tree

def supportPath (a : Args) (name : String) : String := (builtinTemplateFile a "support" name).path

/-- The file the support generator really reads for a packaged resource: a template goes through the loader,
whose `get_source` asks the `--support-templates` directory first (by exact name); anything else is copied from
the package. -/
def supportTemplateRead (a : Args) (name : String) : String :=
  if pySuffix name == ".j2" then
    match a.supportTemplates with
    | none => supportPath a name
    | some fs =>
      match fs.find? (fun f => f.name == name) with
      | some f => f.path
      | none => supportPath a name
  else supportPath a name

/-- `_list_inputs_only`, generic in what the two generators' `get_templates` report: the type generator's files, the
support generator's file for each resource, the sources of the generated types, then (`withLookup`, after
`fix_list_inputs_lookup_dsdl`) every definition below the lookup directories. -/
def listInputsGen (typeFiles : Args → List TemplateFile) (supportSource : Args → String → String) (withLookup : Bool)
    (a : Args) (tree : List (Entry × OutPath)) : Run :=
  { inputs :=
      (if a.genSupport != .only then (typeFiles a).map (·.path) else []) ++
      (if shouldGenerateSupport a then (supportResources a a.omitSer).map (supportSource a) else []) ++
      (if a.genSupport != .only then (selected a tree).map (·.1.src) ++ (if withLookup then a.lookupFiles else []) else []) }

/-- `_list_inputs_only` (after `fix_list_inputs_support_templates`, `fix_list_inputs_all_template_dir_files`,
`fix_list_inputs_lookup_dsdl`) -/
def listInputsOnly : Args → List (Entry × OutPath) → Run := listInputsGen typeInputs supportTemplateRead true

/-- `_list_inputs_only` before the two round-2 fixes: only `*.j2` files that `glob("**/*.j2")` reaches, nothing from the
lookup directories. -/
def listInputsOnlyBeforeInputsFix : Args → List (Entry × OutPath) → Run := listInputsGen typeTemplates supportTemplateRead false

/-- `_list_inputs_only` of the code before round 1: in addition always the packaged support resource. -/
def listInputsOnlyBeforeFix : Args → List (Entry × OutPath) → Run := listInputsGen typeTemplates supportPath false

/-- `_generate`: support first, then the types. -/
def generate (a : Args) (dry : Bool) (tree : List (Entry × OutPath)) : Run :=
  let s := supportOut a dry a.omitSer
  match s.res with
  | .error x => { ops := s.ops, err := some x }
  | .ok _ =>
    let t := typesOut a dry tree
    { ops := s.ops ++ t.ops, err := errOf t.res }

/-- `main` + `ArgparseRunner.__init__` + `run`, generic in the listing method. -/
def runWith (lo li : Args → List (Entry × OutPath) → Run) (m : Mode) (a : Args) (entries : List Entry) : Run :=
  if !accepted a then { err := some .parserReject } else
  -- `--list-configuration`: `__init__` reads no DSDL (`not self._args.list_configuration`), the tree is the empty root
  match buildTree a (if m = .listConfiguration then [emptyRoot] else treeEntries a entries) with
  | .error x => { err := some x }
  | .ok tree =>
    match m with
    | .listOutputs => lo a tree
    | .listInputs => li a tree
    | .listConfiguration => {}
    | .dryRun => generate a true tree
    | .generate => generate a false tree

/-- The code before `fix_list_configuration_skips_dsdl`: `ArgparseRunner.__init__` skipped the DSDL front end whenever
`--list-configuration` was given (`lcFlag`), although `run` lets `--list-outputs` / `--list-inputs` win over it. -/
def runLcBeforeFix (m : Mode) (lcFlag : Bool) (a : Args) (entries : List Entry) : Run :=
  if !accepted a then { err := some .parserReject } else
  match buildTree a (if lcFlag then [emptyRoot] else treeEntries a entries) with
  | .error x => { err := some x }
  | .ok tree =>
    match m with
    | .listOutputs => listOutputsOnly a tree
    | .listInputs => listInputsOnly a tree
    | .listConfiguration => {}
    | .dryRun => generate a true tree
    | .generate => generate a false tree

def run : Mode → Args → List Entry → Run := runWith listOutputsOnly listInputsOnly
def runBeforeFix : Mode → Args → List Entry → Run := runWith listOutputsOnlyBeforeFix listInputsOnlyBeforeFix
def runBeforeInputsFix : Mode → Args → List Entry → Run := runWith listOutputsOnly listInputsOnlyBeforeInputsFix

/-- The files a real run creates. -/
def generated (a : Args) (entries : List Entry) : List OutPath := written (run .generate a entries).ops

/-- A history of calls on the same runner / generator objects.  The objects carry no state that a listing or
generating method changes (support resources, templates and the namespace tree are looked up afresh by every
call), so the answer to each call is the answer of a first call. -/
def runHistory (ms : List Mode) (a : Args) (entries : List Entry) : List Run := ms.map fun m => run m a entries

/-! ## What a real run reads -/

/-- Every loader name the built-in templates of the language pull in statically, as files. -/
def includedFiles (a : Args) : List TemplateFile :=
  match a.templates with
  | some _ => []          -- a custom directory: what it includes is not known to the model
  | none => a.lang.included.map (builtinTemplateFile a "templates")

/-- Every file whose content a real run turns into output (as far as the model knows it): the templates of the
active loader and what they include, the DSDL definitions of the generated types and everything the front end
read to compile them, the support templates the support loader really opens. -/
def reads (a : Args) (tree : List (Entry × OutPath)) : List String :=
  (if a.genSupport != .only then
     (typeTemplates a).map (·.path) ++ (includedFiles a).map (·.path) ++
     (selected a tree).flatMap (fun x => x.1.src :: x.1.deps)
   else []) ++
  (if shouldGenerateSupport a then (supportResources a a.omitSer).map (supportTemplateRead a) else [])

end NunavutVerif.Cli
