import NunavutVerif.Model.BitsPy
/-!
# C14 (round 2) — what the Python `Serializer` methods do with their *argument* before the bit logic

The integer methods are annotated `int`, but generated code hands them whatever the attribute holds: elements of an
`intN[...]` / `uintN[...]` array attribute are fixed-width **NumPy scalars** (`numpy.int8` … `numpy.uint64`), bit
fields are `bool` / `numpy.bool_`.  The methods apply `int(x)`, `bool(x)`, comparisons, `x & 0xFF`, `x >> 8`,
`2**n + x` and `array[i] = x` to them, and under NumPy 2 (NEP 50) an operation between a NumPy scalar and a Python
`int` is carried out **in the scalar's type**: the Python `int` must fit that type (`OverflowError` otherwise) and the
result wraps.  This file makes that layer explicit:

* `PyVal` — the argument universe (Python `int`, `bool`, `numpy.bool_`, NumPy integer scalar of a given kind);
* `NumPy` — the NumPy-dependent operations as an **oracle with laws** (what every NumPy that honours the documented
  scalar semantics satisfies); `numpy2` is the concrete NEP 50 instance run by the driver, with its laws proved;
* every `add_*` method transcribed over `PyVal`, ending in the integer-level functions of `Model/BitsPy.lean`;
* `addSignedNoInt`: the signed helpers as they were before `fix:` 2f4c1c9 (without `value = int(value)`), kept as a
  regression witness (`2**n + value` evaluated in the element's type).
-/
namespace NunavutVerif.Bits.Py
open NunavutVerif.Bits

inductive NpKind where
  | i8 | i16 | i32 | i64 | u8 | u16 | u32 | u64
deriving DecidableEq, Repr

def NpKind.bits : NpKind → Nat
  | .i8 | .u8 => 8 | .i16 | .u16 => 16 | .i32 | .u32 => 32 | .i64 | .u64 => 64

def NpKind.signed : NpKind → Bool
  | .i8 | .i16 | .i32 | .i64 => true
  | _ => false

def NpKind.lo (k : NpKind) : Int := if k.signed then -(2 ^ (k.bits - 1)) else 0
def NpKind.hi (k : NpKind) : Int := if k.signed then 2 ^ (k.bits - 1) - 1 else 2 ^ k.bits - 1

/-- the value is representable in the kind -/
def NpKind.fits (k : NpKind) (v : Int) : Bool := decide (k.lo ≤ v ∧ v ≤ k.hi)

/-- C conversion into the kind (two's complement wrap) -/
def NpKind.wrap (k : NpKind) (v : Int) : Int :=
  let m := v % 2 ^ k.bits
  if k.signed ∧ 2 ^ (k.bits - 1) ≤ m then m - 2 ^ k.bits else m

/-- an argument of a `Serializer` method -/
inductive PyVal where
  | int (v : Int)                 -- Python `int`
  | bool (b : Bool)               -- Python `bool` (a subclass of `int`)
  | npbool (b : Bool)             -- `numpy.bool_`
  | np (k : NpKind) (v : Int)     -- `numpy.int8(v)` …; a real scalar has `k.fits v`
deriving DecidableEq, Repr

def b2i (b : Bool) : Int := if b then 1 else 0

/-- the integer the argument denotes -/
def PyVal.denote : PyVal → Int
  | .int v => v
  | .bool b => b2i b
  | .npbool b => b2i b
  | .np _ v => v

/-- a NumPy scalar holds a value of its type -/
def PyVal.WF : PyVal → Prop
  | .np k v => k.fits v = true
  | _ => True

/-- operations between the argument and a Python `int` constant `c`: `x & c`, `x >> c`, `c + x` -/
inductive WOp where
  | band | shr | addc
deriving DecidableEq, Repr

/-- the mathematical result (`&` is only ever applied to non-negative operands: `_ensure_not_negative` comes first) -/
def WOp.eval : WOp → Int → Int → Int
  | .band, v, c => ((v.toNat &&& c.toNat : Nat) : Int)
  | .shr, v, c => v >>> c.toNat
  | .addc, v, c => c + v

/-- The NumPy-dependent part, as an oracle with laws.  `weak op k v c`: the scalar `kind(v) op c` with `c` a Python
`int` ("weakly typed": converted to the scalar's kind). -/
structure NumPy where
  toInt  : NpKind → Int → Int                       -- `int(x)`
  lt0    : NpKind → Int → Bool                      -- `x < 0` (also `not (x >= 0)`)
  truth  : NpKind → Int → Bool                      -- `bool(x)`
  weak   : WOp → NpKind → Int → Int → Except Err Int
  store8 : NpKind → Int → Nat                       -- `uint8_array[i] = x` (C cast, never raises for a NumPy scalar)
  toInt_exact  : ∀ k v, k.fits v = true → toInt k v = v
  lt0_exact    : ∀ k v, k.fits v = true → lt0 k v = decide (v < 0)
  truth_exact  : ∀ k v, k.fits v = true → truth k v = decide (v ≠ 0)
  weak_closed  : ∀ op k v c r, k.fits v = true → weak op k v c = .ok r → k.fits r = true
  weak_exact   : ∀ op k v c, k.fits v = true → k.fits c = true → k.fits (op.eval v c) = true →
                   weak op k v c = .ok (op.eval v c)
  store8_exact : ∀ k v, k.fits v = true → 0 ≤ v → v < 256 → store8 k v = v.toNat
  store8_byte  : ∀ k v, store8 k v < 256

variable (np : NumPy)

/-- `int(x)` -/
def PyVal.toInt : PyVal → Int
  | .int v => v
  | .bool b => b2i b
  | .npbool b => b2i b
  | .np k v => np.toInt k v

/-- `x < 0` -/
def PyVal.lt0 : PyVal → Bool
  | .int v => decide (v < 0)
  | .bool _ => false
  | .npbool _ => false
  | .np k v => np.lt0 k v

/-- `bool(x)` -/
def PyVal.truth : PyVal → Bool
  | .int v => decide (v ≠ 0)
  | .bool b => b
  | .npbool b => b
  | .np k v => np.truth k v

/-- `x op c` with a Python `int` constant: Python integers are unbounded; `numpy.bool_` combined with a Python `int`
gives the default integer (`int64`); a NumPy integer scalar stays in its kind. -/
def PyVal.weak (op : WOp) (x : PyVal) (c : Int) : Except Err PyVal :=
  match x with
  | .int v => .ok (.int (op.eval v c))
  | .bool b => .ok (.int (op.eval (b2i b) c))
  | .npbool b => (np.weak op .i64 (b2i b) c).map (PyVal.np .i64)
  | .np k v => (np.weak op k v c).map (PyVal.np k)

/-- `uint8_array[i] = x`: a Python `int` outside 0..255 raises `OverflowError`; a NumPy scalar is cast -/
def PyVal.store8 : PyVal → Except Err Nat
  | .int v => if 0 ≤ v ∧ v < 256 then .ok v.toNat else .error .usage
  | .bool b => .ok (if b then 1 else 0)
  | .npbool b => .ok (if b then 1 else 0)
  | .np k v => .ok (np.store8 k v)

/-- `_ensure_not_negative(x)` -/
def ensureNotNegativeV (x : PyVal) : Except Err Unit :=
  if x.lt0 np then .error .usage else .ok ()

/-- `add_aligned_u8(x)` -/
def addAlignedU8V (s : Ser) (x : PyVal) : Except Err Ser := do
  assertAligned s.off
  ensureNotNegativeV np x
  let b ← x.store8 np
  let buf1 ← set? s.buf (s.off / 8) b
  .ok ⟨buf1, s.off + 8⟩

/-- `add_aligned_u16(x)`: `add_aligned_u8(x & 0xFF); add_aligned_u8((x >> 8) & 0xFF)` -/
def addAlignedU16V (s : Ser) (x : PyVal) : Except Err Ser := do
  ensureNotNegativeV np x
  let a ← x.weak np .band 255
  let s1 ← addAlignedU8V np s a
  let h ← x.weak np .shr 8
  let b ← h.weak np .band 255
  addAlignedU8V np s1 b

/-- `add_aligned_u32(x)`: `add_aligned_u16(x); add_aligned_u16(x >> 16)` -/
def addAlignedU32V (s : Ser) (x : PyVal) : Except Err Ser := do
  let s1 ← addAlignedU16V np s x
  let y ← x.weak np .shr 16
  addAlignedU16V np s1 y

def addAlignedU64V (s : Ser) (x : PyVal) : Except Err Ser := do
  let s1 ← addAlignedU32V np s x
  let y ← x.weak np .shr 32
  addAlignedU32V np s1 y

/-- `add_aligned_iW(x)`: `add_aligned_uW((2**W + x) if x < 0 else x)` -/
def addAlignedIV (W : Nat) (s : Ser) (x : PyVal) : Except Err Ser := do
  let u ← if x.lt0 np then x.weak np .addc (2 ^ W) else .ok x
  if W = 8 then addAlignedU8V np s u else if W = 16 then addAlignedU16V np s u
  else if W = 32 then addAlignedU32V np s u else if W = 64 then addAlignedU64V np s u else .error .usage

/-- `add_aligned_unsigned(value, n)`: aligned?, `_ensure_not_negative(value)`, then `_unsigned_to_bytes`, which
starts with `value = int(value)` (after its own `assert value >= 0`). -/
def addAlignedUnsignedV (s : Ser) (x : PyVal) (n : Nat) : Except Err Ser := do
  assertAligned s.off
  ensureNotNegativeV np x
  addAlignedUnsigned s (x.toInt np) n

def addUnalignedUnsignedV (s : Ser) (x : PyVal) (n : Nat) : Except Err Ser := do
  ensureNotNegativeV np x
  addUnalignedUnsigned s (x.toInt np) n

/-- `add_aligned_signed(value, n)`: `assert n >= 2; value = int(value); …` -/
def addAlignedSignedV (s : Ser) (x : PyVal) (n : Nat) : Except Err Ser :=
  if n < 2 then .error .usage else addAlignedSigned s (x.toInt np) n

def addUnalignedSignedV (s : Ser) (x : PyVal) (n : Nat) : Except Err Ser :=
  if n < 2 then .error .usage else addUnalignedSigned s (x.toInt np) n

/-- `add_unaligned_bit(x)`: `bool(x) << …` -/
def addUnalignedBitV (s : Ser) (x : PyVal) : Except Err Ser := addUnalignedBit s (x.truth np)

/-- The signed helpers without `value = int(value)` (before `fix:` 2f4c1c9): `2**n + value` is evaluated on the
argument as it arrives. -/
def addSignedNoInt (aligned : Bool) (s : Ser) (x : PyVal) (n : Nat) : Except Err Ser :=
  if n < 2 then .error .usage
  else do
    let u ← if x.lt0 np then x.weak np .addc (2 ^ n) else .ok x
    if aligned then addAlignedUnsignedV np s u n else addUnalignedUnsignedV np s u n

/-! ## the concrete NumPy 2 (NEP 50) instance -/

def numpy2Weak (op : WOp) (k : NpKind) (v c : Int) : Except Err Int :=
  if k.fits c then .ok (k.wrap (op.eval v c)) else .error .usage       -- OverflowError: Python integer out of bounds

theorem NpKind.wrap_fits (k : NpKind) (v : Int) : k.fits (k.wrap v) = true := by
  cases k <;> simp [NpKind.fits, NpKind.wrap, NpKind.lo, NpKind.hi, NpKind.bits, NpKind.signed] <;> omega

theorem NpKind.wrap_of_fits (k : NpKind) (v : Int) (h : k.fits v = true) : k.wrap v = v := by
  cases k <;> simp [NpKind.fits, NpKind.wrap, NpKind.lo, NpKind.hi, NpKind.bits, NpKind.signed] at h ⊢ <;> omega

def numpy2 : NumPy where
  toInt := fun _ v => v
  lt0 := fun _ v => decide (v < 0)
  truth := fun _ v => decide (v ≠ 0)
  weak := numpy2Weak
  store8 := fun _ v => (v % 256).toNat
  toInt_exact := fun _ _ _ => rfl
  lt0_exact := fun _ _ _ => rfl
  truth_exact := fun _ _ _ => rfl
  weak_closed := by
    intro op k v c r _ h
    unfold numpy2Weak at h
    by_cases hc : k.fits c = true
    · simp [hc] at h; subst h; exact NpKind.wrap_fits k _
    · simp [hc] at h
  weak_exact := by
    intro op k v c _ hc hr
    simp [numpy2Weak, hc, NpKind.wrap_of_fits k _ hr]
  store8_exact := by
    intro k v _ h0 h1
    have : v % 256 = v := Int.emod_eq_of_lt h0 h1
    simp [this]
  store8_byte := by
    intro k v
    have h1 : 0 ≤ v % 256 := Int.emod_nonneg v (by omega)
    have h2 : v % 256 < 256 := Int.emod_lt_of_pos v (by omega)
    omega

end NunavutVerif.Bits.Py
