/-!
# C14 — model of the bit-level primitives of the generated C support library

Transcription of `src/nunavut/lang/c/support/serialization.j2` (rendered `nunavut/support/serialization.h`),
integer/bit part.  The C++ `bitspan` operations are in `Model/BitsCpp.lean`, the Python
`Serializer`/`Deserializer` primitives in `Model/BitsPy.lean`; both reuse the checked buffer of this file.

Conventions
* a buffer is a `List Nat` of bytes (`< 256`, predicate `WF`) behind *checked* accessors: `get?`/`set?` fail with
  `Err.oob` where the C code would read or write outside the object (undefined behaviour).  All accesses of the
  transcribed functions go through them, so "never out of bounds" is the statement "never `Err.oob`";
* bit `i` of a buffer is bit `i % 8` (LSB first) of byte `i / 8` (`bitAt`), as in the DSDL specification;
* `size_t`/`uint64_t` quantities are `Nat`; a `size_t` subtraction that could wrap goes through `sub?` (`Err.wrap`);
  wrap-around of `size*8` and `off+len` in `size_t` is *not* modelled (assumption: they are `< 2^64`);
* `uint8_t` arithmetic is written with the explicit truncations of the C text: `(uint8_t) x` is `x % 256`,
  `x & 0xFF` is `x &&& 255`, `(uint8_t) ~m` for `m < 256` is `m ^^^ 255`;
* `src != dst` (asserted by the real code when asserts are on): source and destination are separate objects;
* loops are structurally recursive on a fuel argument; running out of fuel is `Err.fuel` and is proved unreachable.
-/
namespace NunavutVerif.Bits

abbrev Buf := List Nat

inductive Err
  | oob        -- access outside an object: UB in C/C++, IndexError / broadcast ValueError in Python
  | fuel       -- a loop did not finish within its fuel (proved unreachable)
  | wrap       -- an unsigned subtraction would wrap around (proved unreachable)
  | overflow   -- signed integer overflow, UB in C/C++ (proved unreachable)
  | usage      -- Python only: assertion / ValueError raised on API misuse
  deriving DecidableEq, Repr, Inhabited

deriving instance DecidableEq for Except

def Err.name : Err → String
  | .oob => "oob" | .fuel => "fuel" | .wrap => "wrap" | .overflow => "overflow" | .usage => "usage"

/-- every byte is a byte -/
def WF (b : Buf) : Prop := ∀ x ∈ b, x < 256

def get? (b : Buf) (i : Nat) : Except Err Nat :=
  match b[i]? with
  | some x => .ok x
  | none => .error .oob

def set? (b : Buf) (i : Nat) (v : Nat) : Except Err Buf :=
  if i < b.length then .ok (b.set i v) else .error .oob

def sub? (a b : Nat) : Except Err Nat :=
  if b ≤ a then .ok (a - b) else .error .wrap

/-- bit `i` of the buffer, LSB-first inside each byte; `false` outside the buffer -/
def bitAt (b : Buf) (i : Nat) : Bool :=
  match b[i / 8]? with
  | some x => x.testBit (i % 8)
  | none => false

/-- bit `i` of a buffer of which only the first `size` bytes count (implicit zero extension) -/
def zbit (b : Buf) (size : Nat) (i : Nat) : Bool := decide (i < size * 8) && bitAt b i

/-- The number whose bit `i` is `bit i` for `i < n` and `0` above (specification device). -/
def fieldOf (bit : Nat → Bool) : Nat → Nat
  | 0 => 0
  | n + 1 => fieldOf bit n ||| (if bit n then 1 <<< n else 0)

/-! ## libc -/

/-- `memmove(dst + pd, src + ps, n)` for separate objects, every byte access checked -/
def memmove (dst : Buf) (pd : Nat) (src : Buf) (ps : Nat) : Nat → Except Err Buf
  | 0 => .ok dst
  | n + 1 => do
    let b ← get? src ps
    let d ← set? dst pd b
    memmove d (pd + 1) src (ps + 1) n

/-- `memset(dst + p, 0, n)`, every byte access checked -/
def memset0 (dst : Buf) (p : Nat) : Nat → Except Err Buf
  | 0 => .ok dst
  | n + 1 => do
    let d ← set? dst p 0
    memset0 d (p + 1) n

/-! ## helpers -/

def chooseMin (a b : Nat) : Nat := if a < b then a else b

/-- `nunavutSaturateBufferFragmentBitLength` -/
def saturate (sizeBytes off len : Nat) : Nat :=
  let sizeBits := sizeBytes * 8
  let tailBits := sizeBits - chooseMin sizeBits off
  chooseMin len tailBits

/-! ## nunavutCopyBits -/

/-- One byte of the merge `(*dst & ~mask) | (in & mask)`. -/
def mergeByte (d inp mask : Nat) : Nat := (d &&& (mask ^^^ 255)) ||| (inp &&& mask)

/-- The `while (last_bit > src_off)` loop of the unaligned branch (Ben Dyer's algorithm). -/
def copyLoop : Nat → Buf → Nat → Buf → Nat → Nat → Except Err Buf
  | 0, dst, _, _, sOff, lastBit => if lastBit > sOff then .error .fuel else .ok dst
  | fuel + 1, dst, dOff, src, sOff, lastBit =>
    if lastBit > sOff then
      let srcMod := sOff % 8
      let dstMod := dOff % 8
      let maxMod := if srcMod > dstMod then srcMod else dstMod
      let size := chooseMin (8 - maxMod) (lastBit - sOff)
      let mask := ((((1 <<< size) - 1) <<< dstMod) &&& 255) % 256
      do
        let s ← get? src (sOff / 8)
        let inp := ((((s >>> srcMod) % 256) <<< dstMod) % 256) &&& 255
        let d ← get? dst (dOff / 8)
        let dst' ← set? dst (dOff / 8) (mergeByte d inp mask)
        copyLoop fuel dst' (dOff + size) src (sOff + size) lastBit
    else .ok dst

/-- `if (length_bytes > 0U) { memmove(pdst, psrc, length_bytes); }` (issue #337 workaround) -/
def memmoveIfNonzero (dst : Buf) (pd : Nat) (src : Buf) (ps n : Nat) : Except Err Buf :=
  if n > 0 then memmove dst pd src ps n else .ok dst

/-- `nunavutCopyBits(dst, dst_offset_bits, length_bits, src, src_offset_bits)` -/
def copyBits (dst : Buf) (dOff len : Nat) (src : Buf) (sOff : Nat) : Except Err Buf :=
  if sOff % 8 = 0 ∧ dOff % 8 = 0 then do
    let lengthBytes := len / 8
    let ps := sOff / 8
    let pd := dOff / 8
    let d1 ← memmoveIfNonzero dst pd src ps lengthBytes
    let lengthMod := len % 8
    if lengthMod ≠ 0 then
      let mask := ((1 <<< lengthMod) - 1) % 256
      let ld ← get? d1 (pd + lengthBytes)
      let ls ← get? src (ps + lengthBytes)
      set? d1 (pd + lengthBytes) (mergeByte ld ls mask)
    else .ok d1
  else
    copyLoop len dst dOff src sOff (sOff + len)

/-! ## nunavutGetBits -/

/-- `nunavutGetBits(output, buf, buf_size_bytes, off_bits, len_bits)` -/
def getBits (out buf : Buf) (size off len : Nat) : Except Err Buf := do
  let satBits := saturate size off len
  let n ← sub? ((len + 7) / 8) (satBits / 8)
  let out1 ← memset0 out (satBits / 8) n
  copyBits out1 0 satBits buf off

/-! ## setters -/

/-- `-NUNAVUT_ERROR_SERIALIZATION_BUFFER_TOO_SMALL` -/
def errTooSmall : Int := -3

def setBit (buf : Buf) (size off : Nat) (value : Bool) : Except Err (Int × Buf) :=
  if size * 8 ≤ off then .ok (errTooSmall, buf)
  else do
    let val := if value then 1 else 0
    let r ← copyBits buf off 1 [val] 0
    .ok (0, r)

/-- the `tmp[sizeof(uint64_t)]` initialiser of `nunavutSetUxx` (target_endianness any/big) -/
def u64Tmp (value : Nat) : Buf :=
  [(value >>> 0) &&& 255, (value >>> 8) &&& 255, (value >>> 16) &&& 255, (value >>> 24) &&& 255,
   (value >>> 32) &&& 255, (value >>> 40) &&& 255, (value >>> 48) &&& 255, (value >>> 56) &&& 255]

/-- object representation of an `n`-byte unsigned integer on a little-endian machine
(`target_endianness = little` reads and writes it directly) -/
def objRepLE (v : Nat) : Nat → Buf
  | 0 => []
  | n + 1 => v % 256 :: objRepLE (v / 256) n

/-- value of an object representation on a little-endian machine -/
def objValLE : Buf → Nat
  | [] => 0
  | b :: bs => b + 256 * objValLE bs

/-- `tmp[0] | tmp[1] << 8 | …` -/
def leLoadAux : Buf → Nat → Nat
  | [], _ => 0
  | b :: bs, k => (b <<< (8 * k)) ||| leLoadAux bs (k + 1)

def leLoad (tmp : Buf) : Nat := leLoadAux tmp 0

/-- `nunavutSetUxx`; `little = true` is the `target_endianness: little` rendering. -/
def setUxx (little : Bool) (buf : Buf) (size off value len : Nat) : Except Err (Int × Buf) :=
  if size * 8 < off + len then .ok (errTooSmall, buf)
  else do
    let saturatedLen := chooseMin len 64
    let src := if little then objRepLE (value % 2 ^ 64) 8 else u64Tmp value
    let r ← copyBits buf off saturatedLen src 0
    .ok (0, r)

/-- `(uint64_t) value` for an `int64_t` (C11 6.3.1.3) -/
def toU64 (value : Int) : Nat := (value % 2 ^ 64).toNat

def setIxx (little : Bool) (buf : Buf) (size off : Nat) (value : Int) (len : Nat) : Except Err (Int × Buf) :=
  setUxx little buf size off (toU64 value) len

/-! ## getters -/

/-- `nunavutGetU8/16/32/64` (`W` = 8, 16, 32, 64).  In the `any` rendering the bits are copied into a zeroed
byte array and assembled with shifts; in the `little` rendering (and for `U8` in both) they are copied into the
object representation of a zeroed `uintW_t`. -/
def getU (little : Bool) (W : Nat) (buf : Buf) (size off len : Nat) : Except Err Nat := do
  let bits := saturate size off (chooseMin len W)
  if little ∨ W = 8 then
    let val ← copyBits (objRepLE 0 (W / 8)) 0 bits buf off
    .ok (objValLE val)
  else
    let tmp ← copyBits (List.replicate (W / 8) 0) 0 bits buf off
    .ok (leLoad tmp)

def getBit (buf : Buf) (size off : Nat) : Except Err Bool := do
  let v ← getU false 8 buf size off 1
  .ok (v == 1)

/-- conversion of an out-of-range value to `intW_t` (two's complement wrap, what gcc/clang define) -/
def wrapS (W : Nat) (z : Int) : Int :=
  let m := z % 2 ^ W
  if m < 2 ^ (W - 1) then m else m - 2 ^ W

/-- width in which `~((1U << sat) - 1U)` is evaluated: `1U` for I8/I16, `1UL` for I32 (LP64), `1ULL` for I64 -/
def extWidth (W : Nat) : Nat := if W ≤ 16 then 32 else 64

/-- The sign-extension text shared by `nunavutGetI8/16/32/64` and the C++ `getI8/16/32/64`
(`val` is the unsigned field of `sat` bits):
```
const bool neg = (sat > 0U) && ((val & (1ULL << (sat - 1U))) != 0U);
val = ((sat < W) && neg) ? (uintW_t)(val | ~((1U << sat) - 1U)) : val;
return neg ? (intW_t)((-(intW_t)(uintW_t) ~val) - 1) : (intW_t) val;
``` -/
def signExtend (W sat val : Nat) : Except Err Int :=
  let neg : Bool := decide (sat > 0) && ((val &&& (1 <<< (sat - 1))) != 0)
  let C := extWidth W
  let val := if sat < W ∧ neg then (val ||| (((1 <<< sat) - 1) ^^^ (2 ^ C - 1))) % 2 ^ W else val
  if neg then
    -- ~val as a W-bit pattern, converted to intW_t
    let x : Int := wrapS W (((val ^^^ (2 ^ W - 1)) : Nat) : Int)
    -- `-x` and `-x - 1` are evaluated in `int` (I8, I16: promoted, cannot overflow) or in intW_t
    if W ≥ 32 ∧ (x = -(2 ^ (W - 1)) ∨ -x - 1 < -(2 ^ (W - 1))) then .error .overflow
    else .ok (wrapS W (-x - 1))
  else .ok (wrapS W (val : Int))

/-- `nunavutGetI8/16/32/64` -/
def getI (little : Bool) (W : Nat) (buf : Buf) (size off len : Nat) : Except Err Int := do
  let sat := chooseMin len W
  let val ← getU little W buf size off sat
  signExtend W sat val

end NunavutVerif.Bits
