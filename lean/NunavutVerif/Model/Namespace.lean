/-
Model of the type -> file map and of the namespace tree of Nunavut:

* `IncludeGenerator.make_path`, `_make_ns_list`                      (src/nunavut/lang/_common.py)
* `Language.filter_short_reference_name(dt, id_type="path")`          (src/nunavut/lang/_language.py)
* `Namespace.__init__`, `_add_data_type`, `_add_nested_namespace`, `__eq__/__hash__`,
  `get_root_namespace`, the three recursive generators, `find_output_path_for_type`,
  `_bfs_search_for_output_path`, `_NamespaceFactory`, `build_namespace_tree`   (src/nunavut/_namespace.py)
* `CodeGenerator.filter_type_to_include_path`                         (src/nunavut/jinja/__init__.py)
* the part of `pathlib.PurePosixPath` those functions use (construction from segments, `/`,
  `with_suffix`, `parent`, `relative_to`, `as_posix`).

Core Lean only (linked into the `nstree` driver).  Strings are `List Char`.  `strop` (the target
language's `filter_id(·, "path")`) is a parameter: the theorems hold for every function, the
driver instantiates it with a table sampled from the real language object.

A namespace is identified by the list of its (unstropped) name components; the code identifies it
by the same components joined with "." (`full_namespace`) and splits that string again in
`Namespace.__init__` - DSDL name components never contain a '.', `Lemmas.joinDot_inj` shows that
joining is injective on such lists, so the list *is* the dotted string.
-/
namespace NunavutVerif.Namespace

abbrev Str := List Char
/-- Unstropped namespace components, root first (`full_namespace.split(".")`). -/
abbrev Key := List Str
/-- `PurePosixPath.parts`; an absolute path starts with the part `"/"`. -/
abbrev Path := List Str

/-- A composite type as far as naming goes. -/
structure Ty where
  ns    : Key
  short : Str
  major : Nat
  minor : Nat
deriving DecidableEq, Repr, Inhabited

/-- `ValueError` of `with_suffix`/`relative_to`, `KeyError` of the lookup, and the model's own
out-of-fuel marker (never produced on a built tree: `Properties.C11`). -/
inductive Err where
  | badSuffix | emptyName | notRelative | keyError | fuel
deriving DecidableEq, Repr, Inhabited

/-- A stored output path: `Namespace.__init__` / `make_path` either produce a path or raise. -/
abbrev PathR := Except Err Path

instance : DecidableEq PathR := fun a b =>
  match a, b with
  | .ok x, .ok y => if h : x = y then isTrue (by rw [h]) else isFalse (by intro e; cases e; exact h rfl)
  | .error x, .error y => if h : x = y then isTrue (by rw [h]) else isFalse (by intro e; cases e; exact h rfl)
  | .ok _, .error _ => isFalse (by intro e; cases e)
  | .error _, .ok _ => isFalse (by intro e; cases e)

/-! ### The part of `pathlib.PurePosixPath` that is used -/

/-- `s.split('/')`. -/
def splitSlash : Str → List Str
  | [] => [[]]
  | c :: rest =>
    if c = '/' then [] :: splitSlash rest
    else match splitSlash rest with
      | [] => [[c]]
      | h :: t => (c :: h) :: t

/-- Empty pieces and `.` are dropped when a segment is parsed. -/
def keepPart (p : Str) : Bool := p ≠ [] && p ≠ ['.']

def segParts (s : Str) : List Str := (splitSlash s).filter keepPart

def isAbs (s : Str) : Bool := s.head? = some '/'

def rootPart : Str := ['/']

/-- `PurePosixPath(p, s)`: an absolute segment discards what came before.  (A segment that starts
with exactly two slashes has the implementation-defined root `//` in pathlib; the model gives it
the root `/`.  Not reachable from identifiers; the tie never sends one.) -/
def pjoin (p : Path) (s : Str) : Path :=
  if isAbs s then rootPart :: segParts s else p ++ segParts s

/-- `PurePosixPath(*segs)`. -/
def ofSegs (segs : List Str) : Path := segs.foldl pjoin []

/-- `a / b` for two path objects. -/
def pathJoin (a b : Path) : Path := if b.head? = some rootPart then b else a ++ b

/-- `name[:i]` for `i = name.rfind('.')` when `0 < i < len(name) - 1`, else `name`
(`PurePath.suffix` / `with_suffix`). -/
def stemOf (name : Str) : Str :=
  let r := name.reverse
  let suf := r.takeWhile (· ≠ '.')
  match r.dropWhile (· ≠ '.') with
  | [] => name
  | _ :: before => if before ≠ [] ∧ suf ≠ [] then before.reverse else name

def validSuffix (ext : Str) : Bool :=
  ext = [] || (ext.head? = some '.' && ext ≠ ['.'] && !ext.contains '/')

/-- `PurePosixPath.with_suffix` (Python 3.12): suffix validated first, then the name. -/
def withSuffix (p : Path) (ext : Str) : PathR :=
  if ¬ validSuffix ext then .error .badSuffix else
  match p.getLast? with
  | none => .error .emptyName
  | some name =>
    if name = rootPart then .error .emptyName
    else .ok (p.dropLast ++ [stemOf name ++ ext])

def parentPath (p : Path) : Path := if p = [rootPart] then p else p.dropLast

/-- `p.relative_to(base)`: an absolute path is never relative to a relative one (not even to `.`). -/
def relativeTo (p base : Path) : PathR :=
  if p.head? = some rootPart ∧ base.head? ≠ some rootPart then .error .notRelative
  else if base.isPrefixOf p then .ok (p.drop base.length) else .error .notRelative

def joinWith (sep : Str) : List Str → Str
  | [] => []
  | [a] => a
  | a :: b :: rest => a ++ sep ++ joinWith sep (b :: rest)

def asPosix (p : Path) : Str :=
  match p with
  | [] => ['.']
  | h :: t => if h = rootPart then '/' :: joinWith ['/'] t else joinWith ['/'] p

/-! ### Configuration and `make_path` -/

structure Cfg where
  /-- `language.filter_id(·, id_type="path")` -/
  strop  : Str → Str
  /-- `language.enable_stropping` -/
  enable : Bool
  /-- `language.extension` (config value `extension`) -/
  ext    : Str
  /-- config value `namespace_file_stem` (default `"_"`) -/
  stem   : Str
  /-- `output_dir` exactly as spelled by the caller -/
  outDir : Str

/-- `str(n)` for a version number. -/
def verStr (n : Nat) : Str := Nat.toDigits 10 n

/-- `f"{short_name}_{major}_{minor}"`. -/
def shortVer (t : Ty) : Str := t.short ++ '_' :: (verStr t.major ++ '_' :: verStr t.minor)

/-- What `make_path` does to a name: stropped only if `enable_stropping` is on. -/
def estrop (cfg : Cfg) (s : Str) : Str := if cfg.enable then cfg.strop s else s

/-- `filter_short_reference_name(dt, id_type="path")`: stropped as a whole, only if stropping is on. -/
def shortRef (cfg : Cfg) (t : Ty) : Str := if cfg.enable then cfg.strop (shortVer t) else shortVer t

/-- `_make_ns_list`. -/
def nsList (cfg : Cfg) (t : Ty) : List Str := if cfg.enable then t.ns.map cfg.strop else t.ns

/-- `IncludeGenerator.make_path(dt, language, extension)`:
`Path(*ns_list) / Path(short_name).with_suffix(extension)`. -/
def makePath (cfg : Cfg) (t : Ty) : PathR :=
  match withSuffix (pjoin [] (shortRef cfg t)) cfg.ext with
  | .error e => .error e
  | .ok f => .ok (pathJoin (ofSegs (nsList cfg t)) f)

/-- `pathlib.PurePath(output_dir)`. -/
def basePath (cfg : Cfg) : Path := pjoin [] cfg.outDir

/-- `_add_data_type`: `Path(base_output_path) / make_path(...)`. -/
def outputPath (cfg : Cfg) (t : Ty) : PathR :=
  match makePath cfg t with
  | .error e => .error e
  | .ok p => .ok (pathJoin (basePath cfg) p)

/-- The include path emitted for a dependency `dt` (`generate_include_filepart_list`). -/
def includePath (cfg : Cfg) (dt : Ty) : PathR := makePath cfg dt

/-- `Namespace._output_folder`: always stropped, whatever `enable_stropping` says. -/
def nsFolder (cfg : Cfg) (k : Key) : Path := pathJoin (basePath cfg) (ofSegs (k.map cfg.strop))

/-- `Namespace._output_path`. -/
def nsOutputPath (cfg : Cfg) (k : Key) : PathR :=
  withSuffix (pathJoin (nsFolder cfg k) (pjoin [] cfg.stem)) cfg.ext

/-! ### The object graph: namespaces in the factory's dict, linked by key -/

structure Node where
  /-- `_namespace_components` -/
  comps   : Key
  /-- `_output_path` -/
  outPath : PathR
  /-- `_data_type_to_outputs` (a dict: insertion order, assignment to a present key replaces the value) -/
  types   : List (Ty × PathR)
  /-- `_nested_namespaces`: a `set` whose elements compare by their *stropped* full name -/
  nested  : List Key
  /-- `_parent` -/
  parent  : Option Key
  /-- `_base_output_path`: the base output path the factory hands to every namespace it creates -/
  base    : Path

/-- `_NamespaceFactory._namespaces` (insertion-ordered dict keyed by the unstropped full name). -/
abbrev Store := List Node

def findNode (st : Store) (k : Key) : Option Node := st.find? (fun n => n.comps = k)
def hasKey (st : Store) (k : Key) : Bool := st.any (fun n => n.comps = k)
def keysOf (st : Store) : List Key := st.map (·.comps)

def typesOf (st : Store) (k : Key) : List (Ty × PathR) :=
  match findNode st k with | some n => n.types | none => []
def nestedOf (st : Store) (k : Key) : List Key :=
  match findNode st k with | some n => n.nested | none => []
def parentOf (st : Store) (k : Key) : Option Key :=
  match findNode st k with | some n => n.parent | none => none
def pathOf (cfg : Cfg) (st : Store) (k : Key) : PathR :=
  match findNode st k with | some n => n.outPath | none => nsOutputPath cfg k

/-- `Namespace.get_support_output_folder()` of the namespace `k`: the stored `_base_output_path`. -/
def baseOf (cfg : Cfg) (st : Store) (k : Key) : Path :=
  match findNode st k with | some n => n.base | none => basePath cfg

def mkNode (cfg : Cfg) (k : Key) : Node := ⟨k, nsOutputPath cfg k, [], [], none, basePath cfg⟩

/-- `get_or_make_namespace`: the store and `did_exist`. -/
def getOrMake (cfg : Cfg) (st : Store) (k : Key) : Store × Bool :=
  if hasKey st k then (st, true) else (st ++ [mkNode cfg k], false)

/-- In-place mutation of the namespace object with key `k`. -/
def modifyNode (st : Store) (k : Key) (f : Node → Node) : Store :=
  st.map (fun n => if n.comps = k then f n else n)

/-- `d[t] = p`. -/
def insertTy (l : List (Ty × PathR)) (t : Ty) (p : PathR) : List (Ty × PathR) :=
  if l.any (fun e => e.1 = t) then l.map (fun e => if e.1 = t then (e.1, p) else e) else l ++ [(t, p)]

/-- The inner loop of the first pass, `for i in range(len(name_components) - 1, 0, -1)`:
ancestors from the longest to the shortest, stop at the first one already indexed. -/
def indexAncestors (k : Key) : Nat → List Key → List Key
  | 0, idx => idx
  | i + 1, idx =>
    if k.take (i + 1) ∈ idx then idx else indexAncestors k i (idx ++ [k.take (i + 1)])

structure S1 where
  store : Store
  /-- `namespace_index` -/
  idx   : List Key

/-- Body of `for dsdl_type in types`. -/
def step1 (cfg : Cfg) (s : S1) (t : Ty) : S1 :=
  let r := getOrMake cfg s.store t.ns
  let idx := if r.2 then s.idx else indexAncestors t.ns t.ns.length s.idx
  ⟨modifyNode r.1 t.ns (fun n => { n with types := insertTy n.types t (outputPath cfg t) }), idx⟩

def loop1 (cfg : Cfg) (ts : List Ty) : S1 := ts.foldl (step1 cfg) ⟨[], []⟩

/-- `Namespace.__eq__` / `__hash__` since the `fix:` commit for the folded-sibling defect: the DSDL name
(`_namespace_components`). -/
def sameNs (a b : Key) : Bool := a = b

/-- `Namespace.__eq__` / `__hash__` before that commit: the *stropped* full name.  Two sibling
namespaces that strop to one identifier were one set element; `Properties.C11` keeps the witness. -/
def sameNsBeforeFix (cfg : Cfg) (a b : Key) : Bool := a.map cfg.strop = b.map cfg.strop

/-- `set.add` under the element equality `same`. -/
def addNestedBy (same : Key → Key → Bool) (l : List Key) (c : Key) : List Key :=
  if l.any (fun x => same x c) then l else l ++ [c]

/-- Body of `for full_namespace in namespace_index`. -/
def step2By (same : Key → Key → Bool) (cfg : Cfg) (st : Store) (k : Key) : Store :=
  let st1 := (getOrMake cfg st k).1
  let pk := k.dropLast
  if pk = [] then st1 else
  let st2 := (getOrMake cfg st1 pk).1
  let st3 := modifyNode st2 pk (fun n => { n with nested := addNestedBy same n.nested k })
  modifyNode st3 k (fun n => { n with parent := some pk })

/-- The second pass over the index in the order `ks` (the code iterates a `set` of strings: any
order; the theorems hold for every `ks` with the same members as the index). -/
def loop2By (same : Key → Key → Bool) (cfg : Cfg) (st : Store) (ks : List Key) : Store :=
  ks.foldl (step2By same cfg) st

def step2 (cfg : Cfg) (st : Store) (k : Key) : Store := step2By sameNs cfg st k
def loop2 (cfg : Cfg) (st : Store) (ks : List Key) : Store := loop2By sameNs cfg st ks

/-- `get_root_namespace`: `while namespace._parent is not None`. -/
def climb (st : Store) : Nat → Key → Key
  | 0, k => k
  | f + 1, k => match parentOf st k with | none => k | some p => climb st f p

structure Tree where
  store : Store
  root  : Key

/-- `nsf.get_root_namesapce()`: the root of the first namespace in the dict, or `Namespace("")`
when no type was given (`"".split(".") = [""]`). -/
def finish (cfg : Cfg) (st : Store) : Tree :=
  match st with
  | [] => ⟨[mkNode cfg [[]]], [[]]⟩
  | n :: _ => ⟨st, climb st n.comps.length n.comps⟩

def buildWith (cfg : Cfg) (ts : List Ty) (ks : List Key) : Tree :=
  finish cfg (loop2 cfg (loop1 cfg ts).store ks)

def buildWithBeforeFix (cfg : Cfg) (ts : List Ty) (ks : List Key) : Tree :=
  finish cfg (loop2By (sameNsBeforeFix cfg) cfg (loop1 cfg ts).store ks)

/-- `build_namespace_tree` (second pass in index insertion order). -/
def buildTree (cfg : Cfg) (ts : List Ty) : Tree := buildWith cfg ts (loop1 cfg ts).idx

def isOk : PathR → Bool
  | .ok _ => true
  | .error _ => false

/-- Every `Namespace.__init__` / `make_path` call of the build succeeded; otherwise the
`ValueError` propagates out of `build_namespace_tree`. -/
def buildOk (cfg : Cfg) (tr : Tree) : Bool :=
  (keysOf tr.store).all (fun k => isOk (pathOf cfg tr.store k) && (typesOf tr.store k).all (fun e => isOk e.2))

/-! ### Traversals (Python recursion over the object graph; fuel = remaining depth) -/

/-- `_recursive_namespace_generator`. -/
def nsGen (st : Store) : Nat → Key → List Key
  | 0, _ => []
  | f + 1, k => k :: (nestedOf st k).flatMap (nsGen st f)

/-- `_recursive_data_type_generator`. -/
def typeGen (st : Store) : Nat → Key → List (Ty × PathR)
  | 0, _ => []
  | f + 1, k => typesOf st k ++ (nestedOf st k).flatMap (typeGen st f)

inductive Item where
  | ns (k : Key)
  | ty (t : Ty) (p : PathR)

/-- `_recursive_data_type_and_namespace_generator`. -/
def allGen (st : Store) : Nat → Key → List Item
  | 0, _ => []
  | f + 1, k =>
    Item.ns k :: ((typesOf st k).map (fun e => Item.ty e.1 e.2) ++ (nestedOf st k).flatMap (allGen st f))

def maxLen (st : Store) : Nat := st.foldl (fun m n => max m n.comps.length) 0

/-- Fuel that covers every namespace below `k`: the longest key in the store is `maxLen`. -/
def depthFuel (st : Store) (k : Key) : Nat := maxLen st + 1 - k.length

def allNamespaces (tr : Tree) : List Key := nsGen tr.store (depthFuel tr.store tr.root) tr.root
def allDatatypes (tr : Tree) : List (Ty × PathR) := typeGen tr.store (depthFuel tr.store tr.root) tr.root
def allTypes (tr : Tree) : List Item := allGen tr.store (depthFuel tr.store tr.root) tr.root

/-! ### `find_output_path_for_type` -/

def lookupTy (l : List (Ty × PathR)) (t : Ty) : Option PathR := (l.find? (fun e => e.1 = t)).map (·.2)

inductive Found where
  | hit (p : PathR)
  | keyError
  | fuel
deriving DecidableEq, Repr

/-- `_bfs_search_for_output_path`: `appendleft` + `pop` is a FIFO queue; `skip_namespace` is a set of
namespaces, membership by `same`. -/
def bfsBy (same : Key → Key → Bool) (st : Store) (t : Ty) (skip : Key) : Nat → List Key → Found
  | 0, _ => .fuel
  | _ + 1, [] => .keyError
  | f + 1, k :: q =>
    match (if same k skip then none else lookupTy (typesOf st k) t) with
    | some p => .hit p
    | none => bfsBy same st t skip f (q ++ nestedOf st k)

/-- `start.find_output_path_for_type(t)` for a composite type: own dict, then BFS from the root
(reached from `start` through the parent links), skipping `start`. -/
def findPathBy (same : Key → Key → Bool) (st : Store) (start : Key) (t : Ty) : Found :=
  match lookupTy (typesOf st start) t with
  | some p => .hit p
  | none =>
    let root := climb st start.length start
    bfsBy same st t start ((nsGen st (depthFuel st root) root).length + 1) [root]

def findPath (st : Store) (start : Key) (t : Ty) : Found := findPathBy sameNs st start t

/-- `filter_type_to_include_path(t)` of a generator created for the tree's root:
`find_output_path_for_type(t).relative_to(root.output_folder.parent)`. -/
def typeToIncludePath (cfg : Cfg) (tr : Tree) (t : Ty) : PathR :=
  match findPath tr.store tr.root t with
  | .hit (.ok p) => relativeTo p (parentPath (nsFolder cfg tr.root))
  | .hit (.error e) => .error e
  | .keyError => .error .keyError
  | .fuel => .error .fuel

/-! ### Support files (`SupportGenerator`) -/

/-- `SupportGenerator._sub_folders`: `Path("") / Path(p₁) / … / Path(pₙ)` for the parts of `support_namespace`. -/
def subFolders (subs : List Str) : Path := subs.foldl (fun p s => pathJoin p (pjoin [] s)) []

/-- The file a support resource is generated/copied to:
`(Path(namespace.get_support_output_folder()) / sub_folders / resource.name).with_suffix(extension)`,
`namespace` being the tree's root. -/
def supportTarget (cfg : Cfg) (tr : Tree) (subs : List Str) (name : Str) : PathR :=
  withSuffix (pjoin (pathJoin (baseOf cfg tr.store tr.root) (subFolders subs)) name) cfg.ext

/-! ### The statement's vocabulary -/

/-- `k` is a non-empty prefix of one of the namespaces in `L`. -/
def IsNs (L : List Key) (k : Key) : Prop := k ≠ [] ∧ ∃ n ∈ L, k <+: n

/-- A path segment that pathlib takes as exactly one part and whose suffix is empty: non-empty, no
`/`, no `.`.  Every identifier is one. -/
def IdSeg (s : Str) : Prop := s ≠ [] ∧ '/' ∉ s ∧ '.' ∉ s

instance (s : Str) : Decidable (IdSeg s) := by unfold IdSeg; infer_instance

end NunavutVerif.Namespace
