import NunavutVerif.Model.LexerFull
/-!
# `Parser.subparse` with Nunavut's `autoindent` wrapper, composed with `lineprefix` (C19, round 2)

Source modelled: `jinja2/parser.py`, `Parser.subparse` (the three branches `data` / `variable_begin` / `block_begin`,
the `end_tokens` test that returns to the enclosing statement, and Nunavut's edit

    block_marker = environment.block_start_string + '*';  variable_marker = environment.variable_start_string + '*'
    def autoindent(rv, token, marker):
        prefix = token.value[:-len(marker)]
        if isinstance(rv, list): node = FilterBlock(body=rv, filter=Filter(None, 'lineprefix', [Const(prefix)]))
        else:                    node = Filter(rv, 'lineprefix', [Const(prefix)])
    …  if token.value and token.value.endswith(variable_marker): rv = autoindent(rv, token, variable_marker)        # variable_begin
    …  if token.value and token.value.endswith(block_marker): body.append(autoindent(rv if isinstance(rv, list) else [rv], token, block_marker))

(the code with fix_marker_is_start_plus_star; as found the test was `token.value.endswith('*')` with `prefix = token.value[:-3]`, which
takes every line statement of an environment whose `line_statement_prefix` ends in `*` for an auto-indent block — `Stmts.marker` of
`coreStmtsBeforeFix`)
) on the token stream `Lexer.wrap` produces (`tokenize` of `Model/LexerFull.lean`).

What stays abstract (upstream code, untouched by Nunavut, covered by the differential tie): expressions and the inside
of statements.  The tokens between a begin and its end token are kept as text (`Item`); `parse_statement` is
represented by a table saying which tag names open a block statement (with which intermediate / end names) — all other
names are statements without body; evaluation is a valuation (`Val`) giving the text an expression prints, the truth
of an `if` condition, the number of iterations of a `for`.  The claim of this model is about templates whose tags are
well formed for the upstream parser.

Core Lean only.
-/
namespace NunavutVerif.Lexer

/-! ## vocabulary of the `lineprefix` composition theorems -/

/-- no line boundary of `str.splitlines` inside -/
def breakFree (l : Str) : Prop := ∀ c ∈ l, isBreak c = false

/-- `'\n'.join(ls).splitlines()` for break-free lines: a final empty line is not a line -/
def dropTrailingEmpty : List Str → List Str
  | [] => []
  | [l] => if l.isEmpty then [] else [l]
  | l :: l' :: ls => l :: dropTrailingEmpty (l' :: ls)

/-! ## from the parser-visible token stream to tags -/

inductive Item where
  /-- template data -/
  | data (s : Str)
  /-- `{{ … }}`: text of the begin token, texts of the tokens up to `variable_end` joined by a blank -/
  | var (value : Str) (body : Str)
  /-- `{% name … %}`: text of the begin token, the tag name, texts of the remaining tokens joined by a blank -/
  | tag (value : Str) (name : Str) (arg : Str)
  deriving DecidableEq, Repr

def joinSp : List Str → Str
  | [] => []
  | [l] => l
  | l :: l' :: ls => l ++ ' ' :: joinSp (l' :: ls)

def mkTag (value : Str) (texts : List Str) : Item :=
  match texts with
  | [] => .tag value [] []
  | n :: rest => .tag value n (joinSp rest)

def consItem (i : Item) : Option (List Item) → Option (List Item)
  | some is => some (i :: is)
  | none => none

/-- Group the token stream into data / `{{…}}` / `{%…%}`; `cur` = the open tag (is it a variable, begin token text,
token texts so far, reversed).  `none`: lexer error or a tag that is not closed. -/
def groupItems : Option (Bool × Str × List Str) → List PTok → Option (List Item)
  | none, [] => some []
  | some _, [] => none
  | none, .tok _ ty v :: ts =>
    if ty = .data then consItem (.data v) (groupItems none ts)
    else if ty = .variableBegin then groupItems (some (true, v, [])) ts
    else if ty = .blockBegin then groupItems (some (false, v, [])) ts
    else none
  | some (isVar, bv, acc), .tok _ ty v :: ts =>
    if isVar && ty = .variableEnd then consItem (.var bv (joinSp acc.reverse)) (groupItems none ts)
    else if !isVar && ty = .blockEnd then consItem (mkTag bv acc.reverse) (groupItems none ts)
    else groupItems (some (isVar, bv, v :: acc)) ts
  | _, _ :: _ => none

/-! ## the syntax tree, as far as `subparse` builds it -/

inductive Node where
  /-- `TemplateData` -/
  | text (s : Str)
  /-- the expression of a `{{ … }}` (inside an `Output` node) -/
  | expr (e : Str)
  /-- `Filter(expr, 'lineprefix', [Const(p)])` — `{{* … }}` -/
  | exprWrapped (p : Str) (e : Str)
  /-- a block statement: body and the branch after its intermediate tag (`else`) -/
  | stmt (name arg : Str) (body alt : List Node)
  /-- a statement without body (`set`, `include`, `do`, …) -/
  | simple (name arg : Str)
  /-- `FilterBlock(body, Filter(None, 'lineprefix', [Const(p)]))` — `{%* … %}` -/
  | blockWrapped (p : Str) (body : List Node)
  deriving Repr

/-- `parse_statement`, as far as `subparse` needs it: which names open a block statement, with their intermediate names
and their end name -/
structure Stmts where
  blockOf : Str → Option (List Str × Str)
  /-- the marker test of `subparse` on the text of a begin token (`true`: variable begin, `false`: block begin) -/
  marker : Bool → Str → Bool

/-- `token.value and token.value.endswith('*')` — the marker test of the parser as found -/
def endsStar (value : Str) : Bool := value.getLast? == some '*'

/-- the marker test of the repaired parser: `token.value.endswith(variable_start_string + '*')` for a variable begin,
`token.value.endswith(block_start_string + '*')` for a block begin (also one that `wrap` made out of a line statement) -/
def markerTest (isVar : Bool) (value : Str) : Bool := if isVar then isVariableMarker value else isBlockMarker value

/-- the repaired parser over a statement table -/
def repaired (blockOf : Str → Option (List Str × Str)) : Stmts := ⟨blockOf, markerTest⟩

/-- `if … [else …] endif`, `for … [else …] endfor`, `with … endwith`, `filter … endfilter` -/
def coreBlockOf (n : Str) : Option (List Str × Str) :=
  if n = "if".toList then some (["else".toList], "endif".toList)
  else if n = "for".toList then some (["else".toList], "endfor".toList)
  else if n = "with".toList then some ([], "endwith".toList)
  else if n = "filter".toList then some ([], "endfilter".toList)
  else none

def coreStmts : Stmts := repaired coreBlockOf

/-- the parser as found: any begin token that ends in `*` -/
def coreStmtsBeforeFix : Stmts := ⟨coreBlockOf, fun _ v => endsStar v⟩

inductive ParseErr where
  /-- a block statement whose end tag is missing -/
  | unexpectedEof
  /-- an end / intermediate tag without its opening tag (`Encountered unknown tag`) -/
  | unknownTag (name : Str)
  | outOfFuel
  deriving DecidableEq, Repr

/-- the node for a parsed statement: `body.append(autoindent([rv], token))` when the begin token ends in `*` -/
def wrapStmt (st : Stmts) (value : Str) (n : Node) : Node :=
  if st.marker false value then .blockWrapped (autoindentPrefix value) [n] else n

/-- `Parser.subparse(end_tokens)`.  Result: the body, the name of the end token it stopped at (`none` = end of the
stream) and the items after that tag.  A begin token followed by one of the `ends` names returns to the enclosing
statement BEFORE the marker is looked at: a `*` on an end / intermediate tag is ignored. -/
def subparse (st : Stmts) : Nat → List Str → List Item → Except ParseErr (List Node × Option Str × List Item)
  | 0, _, _ => .error .outOfFuel
  | _ + 1, _, [] => .ok ([], none, [])
  | fuel + 1, ends, .data s :: is =>
    match subparse st fuel ends is with
    | .ok (ns, e, r) => .ok (.text s :: ns, e, r)
    | .error x => .error x
  | fuel + 1, ends, .var v e :: is =>
    match subparse st fuel ends is with
    | .ok (ns, e', r) => .ok ((if st.marker true v then .exprWrapped (autoindentPrefix v) e else .expr e) :: ns, e', r)
    | .error x => .error x
  | fuel + 1, ends, .tag v name arg :: is =>
    if ends.contains name then .ok ([], some name, is)
    else
      match st.blockOf name with
      | none =>
        match subparse st fuel ends is with
        | .ok (ns, e, r) => .ok (wrapStmt st v (.simple name arg) :: ns, e, r)
        | .error x => .error x
      | some (mids, endName) =>
        match subparse st fuel (mids ++ [endName]) is with
        | .error x => .error x
        | .ok (_, none, _) => .error .unexpectedEof
        | .ok (body, some stop, r) =>
          if stop = endName then
            match subparse st fuel ends r with
            | .ok (ns, e, r') => .ok (wrapStmt st v (.stmt name arg body []) :: ns, e, r')
            | .error x => .error x
          else
            match subparse st fuel [endName] r with
            | .error x => .error x
            | .ok (_, none, _) => .error .unexpectedEof
            | .ok (alt, some _, r') =>
              match subparse st fuel ends r' with
              | .ok (ns, e, r'') => .ok (wrapStmt st v (.stmt name arg body alt) :: ns, e, r'')
              | .error x => .error x

/-- `Parser.parse`: `subparse()` without end tokens; a stray end tag is an unknown tag for `parse_statement` -/
def parseItems (st : Stmts) (items : List Item) : Except ParseErr (List Node) :=
  match subparse st (2 * items.length + 2) [] items with
  | .ok (ns, _, _) => .ok ns
  | .error x => .error x

/-! ## rendering -/

/-- what the unmodelled part of the engine contributes -/
structure Val where
  /-- the text `{{ e }}` prints -/
  expr : Str → Str
  /-- truth of an `if` condition -/
  cond : Str → Bool
  /-- number of iterations of a `for` -/
  count : Str → Nat
  /-- output of a statement without body (`include` prints, `set` / `do` print nothing) -/
  simple : Str → Str → Str

def repeatStr : Nat → Str → Str
  | 0, _ => []
  | n + 1, s => s ++ repeatStr n s

mutual
/-- rendering of a node; the two wrappers are the `lineprefix` filter applied to what the plain construct prints -/
def renderNode (V : Val) : Node → Str
  | .text s => s
  | .expr e => V.expr e
  | .exprWrapped p e => lineprefix p (V.expr e)
  | .stmt name arg body alt =>
    if name = "if".toList then (if V.cond arg then renderNodes V body else renderNodes V alt)
    else if name = "for".toList then
      (if V.count arg = 0 then renderNodes V alt else repeatStr (V.count arg) (renderNodes V body))
    else renderNodes V body
  | .simple name arg => V.simple name arg
  | .blockWrapped p body => lineprefix p (renderNodes V body)
def renderNodes (V : Val) : List Node → Str
  | [] => []
  | n :: ns => renderNode V n ++ renderNodes V ns
end

mutual
/-- the tree with every auto-indent wrapper removed: what the plain constructs parse to -/
def unwrapNode : Node → List Node
  | .exprWrapped _ e => [.expr e]
  | .blockWrapped _ body => unwrapNodes body
  | .stmt name arg body alt => [.stmt name arg (unwrapNodes body) (unwrapNodes alt)]
  | n => [n]
def unwrapNodes : List Node → List Node
  | [] => []
  | n :: ns => unwrapNode n ++ unwrapNodes ns
end

/-- source text → rendered text through lexer (`tokenize`), `subparse` and rendering; `none`: lexer / parser error -/
def renderTemplate (e : Env) (tb : Tables) (st : Stmts) (V : Val) (keep : Bool) (seq source : Str) : Option Str :=
  match groupItems none (tokenize e tb keep seq source) with
  | none => none
  | some items =>
    match parseItems st items with
    | .ok ns => some (renderNodes V ns)
    | .error _ => none

/-! ## trees without wrapper (what the parser builds for templates without marker) -/

mutual
/-- no `lineprefix` wrapper anywhere in the tree -/
def Node.wrapperFree : Node → Bool
  | .exprWrapped _ _ => false
  | .blockWrapped _ _ => false
  | .stmt _ _ b a => wrapperFreeL b && wrapperFreeL a
  | _ => true
def wrapperFreeL : List Node → Bool
  | [] => true
  | n :: ns => n.wrapperFree && wrapperFreeL ns
end

/-- the begin token of this tag is not a marker for the repaired parser -/
def Item.noStar : Item → Bool
  | .data _ => true
  | .var v _ => !markerTest true v
  | .tag v _ _ => !markerTest false v

end NunavutVerif.Lexer
