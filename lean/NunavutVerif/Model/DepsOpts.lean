import NunavutVerif.Model.Deps
import NunavutVerif.Gen.CppDefaults
import NunavutVerif.Gen.CliOptions
import NunavutVerif.Gen.SupportFiles
/-!
# C06 — from the documented option maps to what the include logic looks at

`Model/Deps.lean` takes the options the include logic reads as a record `Opts`.  This module derives that record the way
the code does, from the *data* the tree under check ships (regenerated on every run):

* `Gen/CppDefaults.lean` (translate/cppdefaults.py): `nunavut.lang.cpp.options` and `nunavut.lang.cpp.defaults` of
  `properties.yaml`;
* `Gen/CliOptions.lean` (translate/clioptions.py): the argparse definition of `--language-standard` with its choices;
* `Gen/SupportFiles.lean` (translate/supportfiles.py): support namespace, extension and serialization-support files of
  every language;

through

* `Language._validate_language_options` (lang/cpp/__init__.py) — `Config.applyStdDefaults` + `Config.checkCtor` (C13's model);
* `Language.standard_version` — `CPP_STD_EXTRACT_NUMBER_PATTERN = (?:gnu|c)\+\+(\d(?:\w))` matched at the start, `int(group 1)`;
* `get_option("allocator_include" | "variable_array_type_include" | "ctor_convention")` as read by `get_includes` /
  the templates;
* `IncludeGenerator.generate_include_filepart_list` — `support_namespace / Path(p.name).with_suffix(ext)` for the
  serialization support files.

Characters: the pattern's `\d` / `\w` are taken over ASCII (every documented value is ASCII).
-/
namespace NunavutVerif.Deps
open NunavutVerif.Config (M V applyStdDefaults checkCtor)
open NunavutVerif.Namespace (Str ofSegs pathJoin withSuffix)
namespace Gen
export NunavutVerif.Config.Gen (stdKey nameKey ctorKey allocKey cppDefaults cppBuiltinOptions cliOptions)
end Gen

abbrev OptMap := M String String

inductive OptErr where
  /-- `_validate_language_options` raised (`ValueError` / `KeyError`) -/
  | config (e : Config.Err)
  /-- `int("2a")`: the standard's "number" is not a number -/
  | badStdNumber
  /-- the support file name has no usable stem / the extension is not a suffix (`with_suffix` raises) -/
  | supportPath (e : Namespace.Err)
deriving DecidableEq

/-! ## `standard_version` -/

def isAsciiDigit (c : Char) : Bool := decide ('0' ≤ c ∧ c ≤ '9')
def isAsciiWord (c : Char) : Bool :=
  isAsciiDigit c || decide ('a' ≤ c ∧ c ≤ 'z') || decide ('A' ≤ c ∧ c ≤ 'Z') || c = '_'
def digitVal (c : Char) : Nat := c.toNat - '0'.toNat

/-- `s[len(prefix):]` if `s.startswith(prefix)`. -/
def stripPrefix : Str → Str → Option Str
  | [], s => some s
  | _ :: _, [] => none
  | p :: ps, c :: cs => if p = c then stripPrefix ps cs else none

/-- `Language.standard_version`: `match = PATTERN.match(std)`; `int(match.group(1))` or 0 without a match. -/
def standardVersion (std : Str) : Except OptErr Nat :=
  let rest := match stripPrefix (lit "gnu++") std with
    | some r => some r
    | none => stripPrefix (lit "c++") std
  match rest with
  | some (d₁ :: d₂ :: _) =>
    if isAsciiDigit d₁ && isAsciiWord d₂ then
      (if isAsciiDigit d₂ then .ok (10 * digitVal d₁ + digitVal d₂) else .error .badStdNumber)
    else .ok 0
  | _ => .ok 0

/-! ## reading one option -/

/-- `str(options.get(key, ""))` for a string-valued option (atoms of the translator: `s:<text>`). -/
def atomStr (a : String) : Str := (stripPrefix (lit "s:") a.toList).getD a.toList

def optStr (m : OptMap) (key : String) : Str :=
  match m.get key with
  | some (.scalar a) => atomStr a
  | some (.dflt a) => atomStr a
  | _ => []

/-- `ConstructorConvention.from_string`: is it a convention name, and is it the default one? -/
def ctorOf (v : V String String) : Option Bool :=
  let name := match v with | .scalar a => some a | .dflt a => some a | _ => none
  match name with
  | some "s:default" => some true
  | some "s:uses-leading-allocator" => some false
  | some "s:uses-trailing-allocator" => some false
  | _ => none

/-- Python `not v` for an option value. -/
def falsy (v : V String String) : Bool :=
  match v with
  | .scalar a => a = "s:" || a = "b:false" || a = "n:" || a = "i:0"
  | .dflt a => a = "s:" || a = "b:false" || a = "n:" || a = "i:0"
  | .list xs => xs.isEmpty
  | .map .nil => true
  | .map _ => false

/-- `_validate_language_options(defaults, options)`: the `std` shorthand group is laid over the options, then the
constructor convention is checked. -/
def validateCpp (defaults options : OptMap) : Except OptErr OptMap :=
  match applyStdDefaults Gen.stdKey Gen.nameKey defaults options with
  | .error e => .error (.config e)
  | .ok o' =>
    match checkCtor Gen.ctorKey Gen.allocKey ctorOf falsy o' with
    | .error e => .error (.config e)
    | .ok _ => .ok o'

/-! ## the serialization-support headers -/

def supportPathsOf (row : NunavutVerif.Gen.SupportFiles.LangRow) : Except OptErr (List Str) :=
  let nsPath := ofSegs (row.supportNs.map String.toList)
  row.serSupport.foldr (fun name acc =>
    match acc, withSuffix (ofSegs [name.toList]) row.ext.toList with
    | .error e, _ => .error e
    | _, .error e => .error (.supportPath e)
    | .ok l, .ok p => .ok (Namespace.asPosix (pathJoin nsPath p) :: l)) (.ok [])

/-! ## `Opts` of an option map -/

/-- What the C++ include logic reads from a validated option map; `omitSer`, `useStd`, `preferSys` are the command-line
switch and the two configuration values next to the options. -/
def cppOptsOf (m : OptMap) (omitSer useStd preferSys : Bool) (support : List Str) : Except OptErr Opts :=
  match standardVersion (optStr m "std") with
  | .error e => .error e
  | .ok v =>
    .ok { omitSer := omitSer, useStd := useStd, std := v,
          allocInc := optStr m "allocator_include",
          vlaInc := optStr m "variable_array_type_include",
          allocCtor := decide (optStr m "ctor_convention" ≠ lit "default"),
          preferSys := preferSys, support := support }

/-- The option map of the C++ target for `--language-standard <std>` (or none given) and no configuration file: the
built-in options with `std` assigned, through `_validate_language_options`. -/
def cliOptMap (std : Option String) : Except OptErr OptMap :=
  let o := match std with
    | some s => Gen.cppBuiltinOptions.set Gen.stdKey (.scalar ("s:" ++ s))
    | none => Gen.cppBuiltinOptions
  validateCpp Gen.cppDefaults o

/-- The choices of `--language-standard` (argparse definition of the tree under check). -/
def languageStandardChoices : List String :=
  (Gen.cliOptions.filter (fun r => r.flag = "--language-standard")).flatMap (fun r => r.choices)

/-- `Opts` for the C++ target driven from the command line alone. -/
def cliOpts (std : Option String) (omitSer useStd preferSys : Bool) : Except OptErr Opts :=
  match cliOptMap std, supportPathsOf NunavutVerif.Gen.SupportFiles.lang_cpp with
  | .error e, _ => .error e
  | _, .error e => .error e
  | .ok m, .ok sup => cppOptsOf m omitSer useStd preferSys sup

/-- What a C++ option map has to deliver so that a header can be self-sufficient: the allocator include is there when
the allocator-aware constructors are emitted, the VLA include is there. -/
def mapDelivers (m : OptMap) : Bool :=
  (optStr m "ctor_convention" = lit "default" || optStr m "allocator_include" ≠ [])
  && optStr m "variable_array_type_include" ≠ []

end NunavutVerif.Deps
