import NunavutVerif.Model.LineBuffer
/-!
File post-processors and the order in which a generator runs its post-processors (C10).

Source: `src/nunavut/_postprocessors.py` (`SetFileMode`, `ExternalProgramEditInPlace`),
`src/nunavut/jinja/__init__.py` (`CodeGenerator._generate_code`, `_handle_overwrite`, `SupportGenerator._copy_header`,
`_copy_header_using_line_pps`), `src/nunavut/cli/runners.py` (`_build_post_processor_list_from_args`,
`_build_ext_program_postprocessor`).

Two layers:

* *what the generator asks for*: `fileEvents` — the sequence of operations issued for one output file, given the
  generator's list of post-processor **objects**.  Objects carry their fields and a call returns the object as it is
  afterwards (Python objects are mutable: "a call leaves the object as it was" is a statement about the code, `Sem.Pure`,
  not something the model takes for granted).  `runEvents` threads the objects through the files of a run.
* *what that does*: `interp` — the operations executed against a file system (path ↦ bytes and permission bits), an
  arbitrary external program `prog` and an arbitrary renaming behaviour of user file post-processors.  Every `raise`
  of the Python code is an explicit branch; after the first error nothing more is executed (`World.err`).

Core Lean only (linked into the `tpl` driver).
-/
namespace NunavutVerif.FilePP
open NunavutVerif.LineBuffer (Str)

abbrev Argv := List Str

/-- `str(x).endswith(".py")`. -/
def endsWithPy (s : Str) : Bool := ['.', 'p', 'y'].isSuffixOf s

/-- A post-processor object in a generator's `_post_processors` list. -/
inductive Obj where
  /-- a `LinePostProcessor` (what it does to the text: `Model/LineBuffer.lean`, `Model/ProcState.lean`) -/
  | line (id : Nat)
  /-- `SetFileMode(file_mode)` -/
  | setMode (mode : Nat)
  /-- `ExternalProgramEditInPlace(command_line, check)`: the fields `_command_line`, `_check` -/
  | ext (cmd : Argv) (check : Bool)
  /-- a user `FilePostProcessor`; it may return another path than the one it was given -/
  | custom (id : Nat)
  /-- neither a `LinePostProcessor` nor a `FilePostProcessor` -/
  | unknown (id : Nat)
deriving DecidableEq, Repr, Inhabited

/-- One operation a generator issues. -/
inductive Event where
  /-- `line_pp.reset()` -/
  | reset (id : Nat)
  /-- `raise ValueError("PostProcessor type … is unknown.")` -/
  | raiseUnknown
  /-- `_handle_overwrite(path, allow_overwrite)` -/
  | overwrite (path : Str) (allow : Bool)
  /-- `open(path, "w")` and the text, every line through the line post-processors `lps` (in this order) -/
  | write (path : Str) (bytes : Str) (lps : List Nat)
  /-- `shutil.copyfile(resource, path); shutil.copymode(resource, path)`: content **and permission bits** of the resource
  (a directory at `path` raises; paths of the model are files) -/
  | copy (path : Str) (bytes : Str) (mode : Nat)
  /-- `path.chmod(mode)` (`SetFileMode.__call__`) -/
  | chmod (path : Str) (mode : Nat)
  /-- `subprocess.run(argv, check=check)` (`ExternalProgramEditInPlace.__call__`) -/
  | exec (argv : Argv) (check : Bool)
  /-- `user_file_pp(path)` -/
  | custom (id : Nat) (path : Str)
deriving DecidableEq, Repr, Inhabited

/-- Result of calling a file post-processor object with a path. -/
structure CallResult where
  events : List Event
  path   : Str          -- the path it returns (handed to the NEXT file post-processor: `output_path = file_pp(output_path)`)
  obj    : Obj          -- the object afterwards

/-- Semantics of `file_pp(path)`. -/
abbrev Sem := Obj → Str → CallResult

/-- The call leaves the object as it was. -/
def Sem.Pure (sem : Sem) : Prop := ∀ o p, (sem o p).obj = o

/-- `run_args` of `ExternalProgramEditInPlace.__call__`:
`run_args = self._command_line + [str(generated)]`, then
`if len(run_args) > 0 and str(run_args[0]).endswith(".py"): run_args = [sys.executable] + run_args`.
(With an empty configured command the generated file itself is `run_args[0]`.) -/
def runArgs (py : Str) (cmd : Argv) (file : Str) : Argv :=
  let run := cmd ++ [file]
  if (match run.head? with | some a => endsWithPy a | none => false) then py :: run else run

/-- The code as it is.  `py` = `sys.executable`; `ren k p` = the path user post-processor `k` returns for `p`. -/
def callReal (py : Str) (ren : Nat → Str → Str) : Sem
  | .setMode m, p => ⟨[.chmod p m], p, .setMode m⟩
  | .ext cmd chk, p => ⟨[.exec (runArgs py cmd p) chk], p, .ext cmd chk⟩
  | .custom k, p => ⟨[.custom k p], ren k p, .custom k⟩
  | o, p => ⟨[], p, o⟩

/-- What the code does NOT do (kept to show what the fresh `run_args` list is for): the generated file is appended to the
stored command line in place (`run_args = self._command_line; run_args += [str(generated)]`). -/
def callInPlace (py : Str) (ren : Nat → Str → Str) : Sem
  | .ext cmd chk, p => ⟨[.exec (runArgs py cmd p) chk], p, .ext (cmd ++ [p]) chk⟩
  | o, p => callReal py ren o p

def Obj.isFilePP : Obj → Bool
  | .setMode _ | .ext _ _ | .custom _ => true
  | _ => false

/-- `for file_pp in file_pps: output_path = file_pp(output_path)` — the objects of the list that are file
post-processors, in list order, each exactly once, each with the path its predecessor returned. -/
def callAll (sem : Sem) : List Obj → Str → List Event × List Obj
  | [], _ => ([], [])
  | o :: os, p =>
      if o.isFilePP then
        let r := sem o p
        let rest := callAll sem os r.path
        (r.events ++ rest.1, r.obj :: rest.2)
      else
        let rest := callAll sem os p
        (rest.1, o :: rest.2)

/-- ids of the line post-processors of a list, in list order. -/
def lineIds : List Obj → List Nat
  | [] => []
  | .line k :: os => k :: lineIds os
  | _ :: os => lineIds os

def hasUnknown : List Obj → Bool
  | [] => false
  | .unknown _ :: _ => true
  | _ :: os => hasUnknown os

/-- The classification loop of `_generate_code`: every line post-processor is reset when it is met; an object of
neither kind raises (after the resets of the line post-processors before it). -/
def classify : List Obj → List Event
  | [] => []
  | .line k :: os => .reset k :: classify os
  | .unknown _ :: _ => [.raiseUnknown]
  | _ :: os => classify os

inductive JobKind where
  /-- `_generate_code` (a DSDL type, or a support template through `_generate_header`) -/
  | generate
  /-- `SupportGenerator._copy_header` of a resource whose permission bits are `srcMode` -/
  | copy (srcMode : Nat)
deriving DecidableEq, Repr, Inhabited

/-- One output file.  `bytes`: the text after the line post-processors (they are reset per file: a function of the
rendering of this file alone, `C10_limiter_reset_per_file`). -/
structure Job where
  kind  : JobKind
  path  : Str
  bytes : Str
  allow : Bool          -- `allow_overwrite`
deriving DecidableEq, Repr, Inhabited

/-- Everything the generator issues for one file (if nothing raises; `interp` stops at the first raise), and the
post-processor objects afterwards. -/
def fileEvents (sem : Sem) (objs : List Obj) (j : Job) : List Event × List Obj :=
  let calls := callAll sem objs j.path
  match j.kind with
  | .generate =>
      (classify objs ++ [.overwrite j.path j.allow, .write j.path j.bytes (lineIds objs)] ++ calls.1, calls.2)
  | .copy m =>
      -- the classification is done once in `generate_all` (no resets there), the resets in `_copy_header_using_line_pps`
      ((if hasUnknown objs then [Event.raiseUnknown] else []) ++ [.overwrite j.path j.allow] ++
        (if lineIds objs = [] then [Event.copy j.path j.bytes m]
         else (lineIds objs).map Event.reset ++ [.write j.path j.bytes (lineIds objs)]) ++ calls.1, calls.2)

/-- The files of a run (or of several runs of the same generator objects), one after the other. -/
def runEvents (sem : Sem) : List Obj → List Job → List (List Event) × List Obj
  | objs, [] => ([], objs)
  | objs, j :: js =>
      let r := fileEvents sem objs j
      let rest := runEvents sem r.2 js
      (r.1 :: rest.1, rest.2)

/-! ### The CLI's list (`_build_post_processor_list_from_args`) -/

/-- `--pp-trim-trailing-whitespace` (line processor 0), `--pp-max-emptylines` (line processor 1),
`--pp-run-program P` with `--pp-run-program-arg A…` (`ExternalProgramEditInPlace([P, A…])`, check defaulted to true),
and always a final `SetFileMode(--file-mode)`. -/
def cliObjs (trim : Bool) (limit : Bool) (prog : Option (Str × List Str)) (fileMode : Nat) : List Obj :=
  (if trim then [Obj.line 0] else []) ++ (if limit then [Obj.line 1] else []) ++
  (match prog with | some (p, args) => [Obj.ext (p :: args) true] | none => []) ++ [Obj.setMode fileMode]

/-! ### Execution against a file system -/

structure File where
  bytes : Str
  mode  : Nat           -- permission bits
deriving DecidableEq, Repr, Inhabited

/-- A file system: path ↦ file.  (A structure around the function so that compiled code evaluates an update once, not at
every later lookup.) -/
structure FS where
  get : Str → Option File

def FS.set (fs : FS) (p : Str) (f : Option File) : FS := ⟨fun q => if q = p then f else fs.get q⟩

inductive Err where
  | valueError          -- unknown post-processor type
  | permissionError     -- the file exists and allow_overwrite is false
  | fileNotFound        -- chmod of a path that is not there
  | calledProcessError  -- non-zero exit status with check=True
deriving DecidableEq, Repr, Inhabited

structure World where
  fs  : FS
  log : List Event      -- the operations executed so far, the raising one included (newest first)
  err : Option Err

/-- An external program: the file system afterwards and whether the exit status is zero. -/
abbrev Prog := Argv → FS → FS × Bool

/-- One operation.  `defMode`: permission bits of a newly created file (0o666 without the umask bits). -/
def step (prog : Prog) (ren : Nat → Str → Str) (defMode : Nat) (w : World) (e : Event) : World :=
  match w.err with
  | some _ => w
  | none =>
    let log := e :: w.log
    match e with
    | .reset _ => { w with log := log }
    | .raiseUnknown => { w with log := log, err := some .valueError }
    | .overwrite p allow =>
        match w.fs.get p with
        | none => { w with log := log }
        | some f =>
            if allow then ⟨w.fs.set p (some ⟨f.bytes, f.mode ||| 0o220⟩), log, none⟩
            else { w with log := log, err := some .permissionError }
    | .write p b _ =>
        let mode := match w.fs.get p with | some f => f.mode | none => defMode
        ⟨w.fs.set p (some ⟨b, mode⟩), log, none⟩
    | .copy p b m => ⟨w.fs.set p (some ⟨b, m⟩), log, none⟩
    | .chmod p m =>
        match w.fs.get p with
        | none => { w with log := log, err := some .fileNotFound }
        | some f => ⟨w.fs.set p (some ⟨f.bytes, m⟩), log, none⟩
    | .exec argv chk =>
        let r := prog argv w.fs
        ⟨r.1, log, if chk && !r.2 then some .calledProcessError else none⟩
    | .custom k p =>
        -- the recording post-processor of the tie: moves the file to the path it returns
        if ren k p = p then { w with log := log }
        else ⟨(w.fs.set (ren k p) (w.fs.get p)).set p none, log, none⟩

def interp (prog : Prog) (ren : Nat → Str → Str) (defMode : Nat) : World → List Event → World
  | w, [] => w
  | w, e :: es => interp prog ren defMode (step prog ren defMode w e) es

/-- A whole run from file system `fs`. -/
def runWorld (prog : Prog) (ren : Nat → Str → Str) (defMode : Nat) (sem : Sem) (objs : List Obj) (jobs : List Job)
    (fs : FS) : World :=
  interp prog ren defMode ⟨fs, [], none⟩ (runEvents sem objs jobs).1.flatten

/-- One file alone. -/
def fileWorld (prog : Prog) (ren : Nat → Str → Str) (defMode : Nat) (sem : Sem) (objs : List Obj) (j : Job)
    (fs : FS) : World :=
  interp prog ren defMode ⟨fs, [], none⟩ (fileEvents sem objs j).1

/-! ### The program used by the tie (corpus/C10/tools/record_argv*) -/

/-- Appends a marker line to the last argument (`all = false`) or to every argument that is an existing file
(`all = true`); the marker states the permission bits the file has at that moment (so the bytes tell whether the
program ran before or after a `chmod`); exits non-zero iff its last argument is in `failOn`. -/
def stubEdit (marker : Nat → Str) (fs : FS) (p : Str) : FS :=
  match fs.get p with
  | some f => fs.set p (some ⟨f.bytes ++ marker f.mode, f.mode⟩)
  | none => fs

def stubProg (marker : Nat → Str) (all : Bool) (failOn : List Str) : Prog := fun argv fs =>
  let targets := if all then argv else (match argv.getLast? with | some l => [l] | none => [])
  (targets.foldl (stubEdit marker) fs, match argv.getLast? with | some l => !failOn.contains l | none => true)

/-- Paths named by the configured command lines of a list. -/
def cfgArgs : List Obj → List Str
  | [] => []
  | .ext cmd _ :: os => cmd ++ cfgArgs os
  | _ :: os => cfgArgs os

/-- Only the built-in file post-processors (and line post-processors). -/
def builtinOnly : List Obj → Bool
  | [] => true
  | .custom _ :: _ => false
  | .unknown _ :: _ => false
  | _ :: os => builtinOnly os

/-! ### Hypotheses about the external program used in the statements -/

/-- An in-place editor: called with arguments from `keep` (the interpreter, the configured options and inputs) followed by
one more path, the program modifies at most the file at that last path. -/
def Prog.EditsLastOnly (prog : Prog) (keep : List Str) : Prop :=
  ∀ argv fs q, (∀ a ∈ argv.dropLast, a ∈ keep) → some q ≠ argv.getLast? → (prog argv fs).1.get q = fs.get q

/-- What the program does to the files named on its command line, and its exit status, depend only on the command
line and on those files. -/
def Prog.Local (prog : Prog) : Prop :=
  ∀ argv fs fs', (∀ p ∈ argv, fs.get p = fs'.get p) →
    (∀ p ∈ argv, (prog argv fs).1.get p = (prog argv fs').1.get p) ∧ (prog argv fs).2 = (prog argv fs').2

end NunavutVerif.FilePP
