import NunavutVerif.Model.Float16
import NunavutVerif.Proto
/-!
Driver for the C14 float correspondence.  One request per line (numbers in hexadecimal, no prefix):

  `pack <x>`                → `pack x` (4 hex digits)            x < 2^32     (packer before the F14 repair)
  `rnec <x>`                → `packRneC x` (4 hex digits)                     (repaired packer)
  `rne <x>`                 → `packRne x` (4 hex digits)                      (Python target)
  `unpack <h>`              → `unpack h` (8 hex digits)          h < 2^16
  `mul <a> <b>`             → `f32mul a b` (8 hex digits)        a, b finite non-negative patterns
  `add <a> <b>`             → `f32add a b` (8 hex digits)        a, b finite non-negative patterns
  `sum <fn> <start> <count>`→ 64-bit checksum (16 hex digits) of `fn` over the patterns start .. start+count-1,
                              fn ∈ {pack, rnec, rne, unpack}:  h ← h · 0x100000001B3 + (fn(x) + 1)  (mod 2^64), h₀ = 0xCBF29CE484222325
-/
open NunavutVerif NunavutVerif.Float16 NunavutVerif.Proto

def hexDigit? (c : Char) : Option Nat :=
  if '0' ≤ c ∧ c ≤ '9' then some (c.toNat - '0'.toNat)
  else if 'a' ≤ c ∧ c ≤ 'f' then some (c.toNat - 'a'.toNat + 10)
  else if 'A' ≤ c ∧ c ≤ 'F' then some (c.toNat - 'A'.toNat + 10)
  else none

def parseHex (s : String) : Option Nat :=
  if s.isEmpty ∨ s.length > 16 then none else
  s.toList.foldlM (fun acc c => (hexDigit? c).map (fun d => acc * 16 + d)) 0

def toHex (n width : Nat) : String :=
  let ds := (Nat.toDigits 16 n)
  String.ofList (List.replicate (width - ds.length) '0' ++ ds)

def checksum (f : Nat → Nat) (start count : Nat) : UInt64 := Id.run do
  let mut h : UInt64 := 0xCBF29CE484222325
  for i in [0:count] do
    h := h * 0x100000001B3 + (UInt64.ofNat (f (start + i)) + 1)
  return h

def answer (line : String) : String :=
  match line.splitOn " " with
  | ["pack", x] => match parseHex x with
    | some x => if x < 4294967296 then toHex (pack x) 4 else "bad-op"
    | none => "bad-op"
  | ["rnec", x] => match parseHex x with
    | some x => if x < 4294967296 then toHex (packRneC x) 4 else "bad-op"
    | none => "bad-op"
  | ["rne", x] => match parseHex x with
    | some x => if x < 4294967296 then toHex (packRne x) 4 else "bad-op"
    | none => "bad-op"
  | ["unpack", h] => match parseHex h with
    | some h => if h < 65536 then toHex (unpack h) 8 else "bad-op"
    | none => "bad-op"
  | ["mul", a, b] => match parseHex a, parseHex b with
    | some a, some b => if a < 2139095040 ∧ b < 2139095040 then toHex (f32mul a b) 8 else "bad-op"
    | _, _ => "bad-op"
  | ["add", a, b] => match parseHex a, parseHex b with
    | some a, some b => if a < 2139095040 ∧ b < 2139095040 then toHex (f32add a b) 8 else "bad-op"
    | _, _ => "bad-op"
  | ["sum", fn, s, c] => match parseHex s, parseHex c with
    | some s, some c =>
      if s + c > 4294967296 then "bad-op"
      else if fn = "pack" then toHex (checksum pack s c).toNat 16
      else if fn = "rnec" then toHex (checksum packRneC s c).toNat 16
      else if fn = "rne" then toHex (checksum packRne s c).toNat 16
      else if fn = "unpack" then (if s + c ≤ 65536 then toHex (checksum unpack s c).toNat 16 else "bad-op")
      else "bad-op"
    | _, _ => "bad-op"
  | _ => "bad-op"

def main : IO Unit := serve answer
