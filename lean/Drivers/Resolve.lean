import NunavutVerif.Model.ResolveDirs
import NunavutVerif.Model.EnvCtor
import NunavutVerif.Proto
/-!
Driver for the C16 correspondence.  One request per line, fields separated by one blank.  Strings are encoded
as in `Proto` (code points joined by `.`, `-` = empty string).  `!` = absent (`None`), `~` = empty list.

  `table`                                  → the generated class table `name:base,base;…` (`!` = no bases)
  `stops`                                  → names of the classes the search does not go beyond (`,`; `~` = none)
  `tests`                                  → the model's instance tests `test=class;…` over the generated table
  `alias <name>`                           → the short alias of a class name
  `split <file>`                           → `stem|suffix` (pathlib)
  `istest <test> <vcls> <dt|!>`            → `1` / `0` / `err:notest` / `err:nodatatype`
  `seq <new|old> <hier> <fs> <pkg> <qs>`   → look-ups `qs` (class indices, `,`) on one loader;
        hier: `@` = generated table, else `name:b,b;name:!;…` (bases as indices);
        fs, pkg: `!`, `~` or listed files joined by `,`
        answer: `r,r,…|idx:path,…` (`N` = no template; cache sorted by class index, `~` if empty) or `fuel`
  `src <fs> <pkg> <name>`                  → `user:<id>` / `builtin:<id>` / `notfound`;
        fs: `!` or directories joined by `;`, each `~` or `name=id,…`; pkg: `!`, `~` or `name=id,…`
  `seqd <hier> <dirs> <pkg> <qs>`          → as `seq new`, on a loader over a LIST of user directories;
        dirs: `!` or directories joined by `;`, each `~` or its file names joined by `,` (any order); pkg: `!`, `~` or names
  `fslist <dirs>`                          → `FileSystemLoader.list_templates()` of the directories (names joined by `,`, `~`)
  `enum <dirs> <pkg>`                      → `get_templates()`: `u<i>:<name>` / `b:<name>` joined by `,` (`~` = none)
  `ldr <policy first|all> <dirs 0|1> <pkg 0|1>` → `<fs 0|1><pkg 0|1>`: which Jinja loaders `DSDLTemplateLoader.__init__` creates
  `env <new|old> <allow 0|1> <jf> <jt> <jg> <lg> <pf> <pt> <post> <ug> <uf> <ut>`
        name lists (`~` or names joined by `,`); post entries `f:<name>` / `t:<name>`
        → `err:already:<name>` / `err:reserved:<name>` / `ok|<filters>|<tests>|<globals>` with `name=owner,…`
  `envsm <gen|sup|bld> <allowArg 0|1> <attrs> <jf> <jt> <jg> <lg> <lf> <lt> <of> <ot> <inst> <genm> <ug> <uf> <ut>`
        the construction as the state machine over the REGENERATED statement list (DSDLCodeGenerator / SupportGenerator /
        bare builder); attrs: boolean attributes of the loader object `name=0|1,…` (`~` = none);
        lf, lt: language-module filters/tests; of, ot: the environment's own; inst, genm: `f:<name>` / `t:<name>`
        → as `env`, plus `|flag=<0|1|n>` (final `_allow_replacements`), or `err:flagunset:<name>`
-/
open NunavutVerif NunavutVerif.Resolve NunavutVerif.Proto

def splitList (s : String) (sep : Char) : List String :=
  if s = "~" then [] else splitOnChar s sep

def parseNames (s : String) : Option (List Name) := (splitList s ',').mapM decodeStr

def parseOptFiles (s : String) : Option (Option (List Path)) :=
  if s = "!" then some none else (parseNames s).map some

def parseHier (s : String) : Option Hier :=
  if s = "@" then some (Hier.ofTable genTable genStops) else do
    let rows ← (splitList s ';').mapM fun r =>
      match r.splitOn ":" with
      | [n, bs] => do
        let n ← decodeStr n
        let bs ← if bs = "!" then some [] else (splitOnChar bs ',').mapM String.toNat?
        some (n, bs)
      | _ => none
    some { bases := fun c => match rows[c]? with | some e => e.2 | none => []
           name := fun c => match rows[c]? with | some e => e.1 | none => [] }

def showCache (c : Cache) : String :=
  let sorted := c.toArray.qsort (fun a b => a.1 < b.1) |>.toList
  if sorted.isEmpty then "~" else ",".intercalate (sorted.map fun e => s!"{e.1}:{encodeStr e.2}")

def showRes (r : Option Path) : String :=
  match r with
  | some p => encodeStr p
  | none => "N"

def suffix : Name := Gen.PydsdlClasses.templateSuffix

def doSeq (old : Bool) (H : Hier) (fs pkg : Option (List Path)) (qs : List Nat) : String :=
  let fsT := fs.map (templatesOf suffix)
  let pkgT := pkg.map (templatesOf suffix)
  let look := fun cache c =>
    if old then lookupBeforeFix H 1000000 cache fsT pkgT c else lookup H 1000000 cache fsT pkgT c
  match runSeq look [] qs with
  | none => "fuel"
  | some (rs, cache) => ",".intercalate (rs.map showRes) ++ "|" ++ showCache cache

def parseStore (s : String) : Option Store :=
  (splitList s ',').mapM fun e =>
    match e.splitOn "=" with
    | [n, v] => do some ((← decodeStr n), (← v.toNat?))
    | _ => none

def parseDirs (s : String) : Option (Option (List Store)) :=
  if s = "!" then some none else do
    let ds ← (splitOnChar s ';').mapM parseNames
    some (some ((ds.zip (List.range ds.length)).map fun e => e.1.map fun n => (n, e.2)))

def parsePkgNames (s : String) : Option (Option Store) :=
  if s = "!" then some none else (parseNames s).map fun ns => some (ns.map fun n => (n, 0))

def showNames (ns : List Name) : String := if ns.isEmpty then "~" else ",".intercalate (ns.map encodeStr)

def doSeqDirs (H : Hier) (dirs : Option (List Store)) (pkg : Option Store) (qs : List Nat) : String :=
  match runSeq (fun cache c => lookupDirs H suffix 1000000 cache dirs pkg c) [] qs with
  | none => "fuel"
  | some (rs, cache) => ",".intercalate (rs.map showRes) ++ "|" ++ showCache cache

def showOwner : Owner → String
  | .jinja => "J" | .reserved => "R" | .lang => "L"
  | .pre i => s!"P{i}" | .post i => s!"Q{i}" | .user i => s!"U{i}"

def showColl (c : Coll) : String :=
  if c.isEmpty then "~" else ",".intercalate (c.map fun e => encodeStr e.1 ++ "=" ++ showOwner e.2)

def tag (mk : Nat → Owner) (ns : List Name) : List (Name × Owner) :=
  (ns.zip (List.range ns.length)).map fun e => (e.1, mk e.2)

def parsePost (s : String) : Option (List (Kind × Name × Owner)) := do
  let es ← (splitList s ',').mapM fun e =>
    match e.splitOn ":" with
    | ["f", n] => (decodeStr n).map fun n => (Kind.filter, n)
    | ["t", n] => (decodeStr n).map fun n => (Kind.test, n)
    | _ => none
  some ((es.zip (List.range es.length)).map fun e => (e.1.1, e.1.2, Owner.post e.2))

def parseAttrs (s : String) : Option (List (Name × Bool)) :=
  (splitList s ',').mapM fun e =>
    match e.splitOn "=" with
    | [n, v] => do
      let n ← decodeStr n
      if v = "1" then some (n, true) else if v = "0" then some (n, false) else none
    | _ => none

def parseKinded (mk : Nat → Owner) (s : String) : Option (List (Kind × Name × Owner)) := do
  let es ← (splitList s ',').mapM fun e =>
    match e.splitOn ":" with
    | ["f", n] => (decodeStr n).map fun n => (Kind.filter, n)
    | ["t", n] => (decodeStr n).map fun n => (Kind.test, n)
    | _ => none
  some ((es.zip (List.range es.length)).map fun e => (e.1.1, e.1.2, mk e.2))

def tagFrom (mk : Nat → Owner) (off : Nat) (ns : List Name) : List (Name × Owner) :=
  (ns.zip (List.range ns.length)).map fun e => (e.1, mk (e.2 + off))

def answerEnvSM (fields : List String) : String :=
  match fields with
  | [which, allow, attrs, jf, jt, jg, lg, lf, lt, of', ot, inst, genm, ug, uf, ut] =>
    match parseAttrs attrs, parseNames jf, parseNames jt, parseNames jg, parseNames lg, parseNames lf, parseNames lt,
          parseNames of', parseNames ot, parseKinded Owner.post inst, parseKinded (fun i => Owner.post (i + 100000)) genm,
          parseNames ug, parseNames uf, parseNames ut with
    | some attrs, some jf, some jt, some jg, some lg, some lf, some lt, some of', some ot, some inst, some genm,
      some ug, some uf, some ut =>
      if (which ≠ "gen" ∧ which ≠ "sup" ∧ which ≠ "bld") ∨ (allow ≠ "0" ∧ allow ≠ "1") then "bad-op" else
      let cfg : SMCfg := {
        jinjaFilters := jf.map (·, Owner.jinja), jinjaTests := jt.map (·, Owner.jinja), jinjaGlobals := jg.map (·, Owner.jinja),
        reservedNs := Gen.PydsdlClasses.reservedGlobalNamespaces, reservedNames := Gen.PydsdlClasses.reservedGlobalNames,
        langGlobals := lg.map (·, Owner.lang),
        langFilters := tagFrom Owner.pre 0 lf, langTests := tagFrom Owner.pre 0 lt,
        ownFilters := tagFrom Owner.pre lf.length of', ownTests := tagFrom Owner.pre lt.length ot,
        instanceTests := inst, generatorMethods := genm }
      let inp : CtorInputs := { allowArg := allow = "1", loader := ⟨attrs⟩, unknown := fun _ => false,
                                ug := tag Owner.user ug, uf := tag Owner.user uf, ut := tag Owner.user ut }
      let steps := if which = "gen" then stepsDsdlGenerator else if which = "sup" then stepsSupportGenerator else stepsBuilder
      match constructSM cfg inp steps with
      | .error (.env (.alreadyDefined n)) => "err:already:" ++ encodeStr n
      | .error (.env (.reservedGlobal n)) => "err:reserved:" ++ encodeStr n
      | .error (.flagUnset n) => "err:flagunset:" ++ encodeStr n
      | .ok st => "ok|" ++ showColl st.env.filters ++ "|" ++ showColl st.env.tests ++ "|" ++ showColl st.env.globals ++
          "|flag=" ++ (match st.allow with | some true => "1" | some false => "0" | none => "n")
    | _, _, _, _, _, _, _, _, _, _, _, _, _, _ => "bad-op"
  | _ => "bad-op"

def answer (line : String) : String :=
  match line.splitOn " " with
  | ["table"] =>
    ";".intercalate (genTable.map fun e =>
      encodeStr e.1 ++ ":" ++ (if e.2.isEmpty then "!" else ",".intercalate (e.2.map encodeStr)))
  | ["stops"] => if genStops.isEmpty then "~" else ",".intercalate (genStops.map encodeStr)
  | ["tests"] =>
    match genTests with
    | none => "fuel"
    | some ts => ";".intercalate (ts.map fun e => encodeStr e.1 ++ "=" ++ encodeStr e.2)
  | ["alias", n] =>
    match decodeStr n with
    | some n => encodeStr (aliasOf n)
    | none => "bad-op"
  | ["split", f] =>
    match decodeStr f with
    | some f => let r := splitExt (baseName f); encodeStr r.1 ++ "|" ++ encodeStr r.2
    | none => "bad-op"
  | ["istest", tn, vc, dt] =>
    match decodeStr tn, decodeStr vc, (if dt = "!" then some none else (decodeStr dt).map some), genTests with
    | some tn, some vc, some dt, some ts =>
      match evalTest genTable ts genRedirect tn vc dt with
      | .ok true => "1"
      | .ok false => "0"
      | .error .noSuchTest => "err:notest"
      | .error .noDataType => "err:nodatatype"
    | _, _, _, none => "fuel"
    | _, _, _, _ => "bad-op"
  | ["seq", mode, hier, fs, pkg, qs] =>
    match parseHier hier, parseOptFiles fs, parseOptFiles pkg, (splitList qs ',').mapM String.toNat? with
    | some H, some fs, some pkg, some qs =>
      if mode = "new" then doSeq false H fs pkg qs
      else if mode = "old" then doSeq true H fs pkg qs
      else "bad-op"
    | _, _, _, _ => "bad-op"
  | ["seqd", hier, dirs, pkg, qs] =>
    match parseHier hier, parseDirs dirs, parsePkgNames pkg, (splitList qs ',').mapM String.toNat? with
    | some H, some dirs, some pkg, some qs => doSeqDirs H dirs pkg qs
    | _, _, _, _ => "bad-op"
  | ["fslist", dirs] =>
    match parseDirs dirs with
    | some (some ds) => showNames (fsList ds)
    | _ => "bad-op"
  | ["enum", dirs, pkg] =>
    match parseDirs dirs, parsePkgNames pkg with
    | some dirs, some pkg =>
      let es := getTemplates suffix dirs pkg
      if es.isEmpty then "~" else ",".intercalate (es.map fun e =>
        match e with
        | (.user, i, p) => s!"u{i}:" ++ encodeStr p
        | (.builtin, _, p) => "b:" ++ encodeStr p)
    | _, _ => "bad-op"
  | ["ldr", policy, d, p] =>
    if (policy ≠ "first" ∧ policy ≠ "all") ∨ (d ≠ "0" ∧ d ≠ "1") ∨ (p ≠ "0" ∧ p ≠ "1") then "bad-op" else
    let r := loaderSources (if policy = "all" then .findAll else .findFirst)
      (if d = "1" then some [] else none) (if p = "1" then some [] else none)
    (if r.1.isSome then "1" else "0") ++ (if r.2.isSome then "1" else "0")
  | ["src", fs, pkg, name] =>
    let fs? : Option (Option (List Store)) :=
      if fs = "!" then some none else ((splitOnChar fs ';').mapM parseStore).map some
    let pkg? : Option (Option Store) := if pkg = "!" then some none else (parseStore pkg).map some
    match fs?, pkg?, decodeStr name with
    | some fs, some pkg, some name =>
      match getSource fs pkg name with
      | some (.user, v) => s!"user:{v}"
      | some (.builtin, v) => s!"builtin:{v}"
      | none => "notfound"
    | _, _, _ => "bad-op"
  | "envsm" :: fields => answerEnvSM fields
  | ["env", mode, allow, jf, jt, jg, lg, pf, pt, post, ug, uf, ut] =>
    match parseNames jf, parseNames jt, parseNames jg, parseNames lg, parseNames pf, parseNames pt,
          parsePost post, parseNames ug, parseNames uf, parseNames ut with
    | some jf, some jt, some jg, some lg, some pf, some pt, some post, some ug, some uf, some ut =>
      if (mode ≠ "new" ∧ mode ≠ "old") ∨ (allow ≠ "0" ∧ allow ≠ "1") then "bad-op" else
      let cfg : EnvCfg := {
        jinjaFilters := jf.map (·, Owner.jinja), jinjaTests := jt.map (·, Owner.jinja),
        jinjaGlobals := jg.map (·, Owner.jinja),
        reservedNs := Gen.PydsdlClasses.reservedGlobalNamespaces,
        reservedNames := Gen.PydsdlClasses.reservedGlobalNames,
        langGlobals := lg.map (·, Owner.lang),
        preFilters := tag Owner.pre pf, preTests := tag Owner.pre pt, post := post }
      let r := if mode = "new" then construct cfg (allow = "1") (tag Owner.user ug) (tag Owner.user uf) (tag Owner.user ut)
               else constructBeforeFix cfg (allow = "1") (tag Owner.user ug) (tag Owner.user uf) (tag Owner.user ut)
      match r with
      | .error (.alreadyDefined n) => "err:already:" ++ encodeStr n
      | .error (.reservedGlobal n) => "err:reserved:" ++ encodeStr n
      | .ok e => "ok|" ++ showColl e.filters ++ "|" ++ showColl e.tests ++ "|" ++ showColl e.globals
    | _, _, _, _, _, _, _, _, _, _ => "bad-op"
  | _ => "bad-op"

def main : IO Unit := serve answer
