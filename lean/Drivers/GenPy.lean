import NunavutVerif.Model.GenPy
import NunavutVerif.Proto
/-!
Driver of the implementation-shaped model of the generated Python codecs (`Model/GenPy.lean`, environment `stdEnv`).
Speaks the `ser` / `de` requests of `harness/CODEC_PROTOCOL.md` (same type and value syntax as `Drivers/Codec.lean`,
whose tokenizer / parser / printer are repeated here because a driver module cannot import another driver) and answers
from `serializePy` / `deserializePy`:

  `ser <T> <V>`   → `ok <hex>` | `exc:<class>`                 (`exc:assertion`, `exc:malformed-union`, `exc:prim:<e>`, …)
  `de <T> <hex>`  → `ok <V> <consumed bytes>` | `none:<site>` | `exc:<class>`
                    (`none:` = `deserialize` returned `None`; the site is the raise site of the `FormatError`)
                    (`skipped-large` for a type whose buffer exceeds `driverLimitBytes`: the list-based model is
                    quadratic in the buffer size; such requests stay in the specification-level tie)
  `trace <T>`     → `ok <ser methods> | <de methods>`: the Serializer / Deserializer methods the emitted
                    `_serialize_` / `_deserialize_` of the class of `<T>` call, in the order of the generated text
                    (nested classes are separate methods: `call`), computed with the model's own path selection
                    (`intPath`, `arrPath`, `AOff.isAligned`, `lenRes`).
-/
open NunavutVerif NunavutVerif.Dsdl NunavutVerif.Proto NunavutVerif.GenPy

/-! ### Tokens and generic S-expressions -/

inductive Tok where
  | open (c : Char)     -- ( [ { <
  | close (c : Char)    -- ) ] } >
  | atom (s : String)
  deriving Repr, BEq

def isOpen (c : Char) : Bool := c = '(' || c = '[' || c = '{' || c = '<'
def isClose (c : Char) : Bool := c = ')' || c = ']' || c = '}' || c = '>'
def closerOf (c : Char) : Char :=
  if c = '(' then ')' else if c = '[' then ']' else if c = '{' then '}' else '>'

def flushAtom (cur : List Char) (acc : List Tok) : List Tok :=
  if cur.isEmpty then acc else Tok.atom (String.ofList cur.reverse) :: acc

/-- Tokens in reverse order. -/
def tokenizeAux : List Char → List Char → List Tok → List Tok
  | [], cur, acc => flushAtom cur acc
  | c :: cs, cur, acc =>
    if c = ' ' then tokenizeAux cs [] (flushAtom cur acc)
    else if isOpen c then tokenizeAux cs [] (Tok.open c :: flushAtom cur acc)
    else if isClose c then tokenizeAux cs [] (Tok.close c :: flushAtom cur acc)
    else tokenizeAux cs (c :: cur) acc

def tokenize (s : String) : List Tok := (tokenizeAux s.toList [] []).reverse

/-- Generic bracketed tree. -/
inductive Sx where
  | atom (s : String)
  | node (br : Char) (xs : List Sx)
  deriving Inhabited

mutual
partial def parseSx : List Tok → Option (Sx × List Tok)
  | Tok.atom s :: rest => some (Sx.atom s, rest)
  | Tok.open c :: rest =>
    match parseSxList (closerOf c) rest with
    | some (xs, rest') => some (Sx.node c xs, rest')
    | none => none
  | _ => none
partial def parseSxList (cl : Char) : List Tok → Option (List Sx × List Tok)
  | Tok.close c :: rest => if c = cl then some ([], rest) else none
  | toks =>
    match parseSx toks with
    | some (x, rest) =>
      match parseSxList cl rest with
      | some (xs, rest') => some (x :: xs, rest')
      | none => none
    | none => none
end

partial def parseAll (toks : List Tok) : Option (List Sx) :=
  match toks with
  | [] => some []
  | _ =>
    match parseSx toks with
    | some (x, rest) => (parseAll rest).map (x :: ·)
    | none => none

/-! ### Types -/

def parseCast (s : String) : Option Cast :=
  if s = "s" then some .sat else if s = "t" then some .trunc else none

mutual
partial def toTy : Sx → Option Ty
  | Sx.node '(' (Sx.atom "u" :: Sx.atom n :: Sx.atom m :: []) => do
    let n ← n.toNat?; let m ← parseCast m
    if 1 ≤ n ∧ n ≤ 64 then some (.uint n m) else none
  | Sx.node '(' (Sx.atom "i" :: Sx.atom n :: Sx.atom m :: []) => do
    let n ← n.toNat?; let m ← parseCast m
    if 2 ≤ n ∧ n ≤ 64 then some (.sint n m) else none
  | Sx.node '(' (Sx.atom "f" :: Sx.atom n :: Sx.atom m :: []) => do
    let n ← n.toNat?; let m ← parseCast m
    if n = 16 ∨ n = 32 ∨ n = 64 then some (.float n m) else none
  | Sx.node '(' (Sx.atom "b" :: []) => some .bool
  | Sx.node '(' (Sx.atom "v" :: Sx.atom n :: []) => do let n ← n.toNat?; some (.void n)
  | Sx.node '(' (Sx.atom "a" :: t :: Sx.atom n :: []) => do
    let t ← toTy t; let n ← n.toNat?; some (.arr t n)
  | Sx.node '(' (Sx.atom "l" :: t :: Sx.atom n :: []) => do
    let t ← toTy t; let n ← n.toNat?; some (.varr t n)
  | Sx.node '(' (Sx.atom "s" :: fs) => do let fs ← toTys fs; some (.struct fs)
  | Sx.node '(' (Sx.atom "n" :: fs) => do let fs ← toTys fs; some (.union fs)
  | Sx.node '(' (Sx.atom "d" :: Sx.atom e :: c :: []) => do
    let e ← e.toNat?; let c ← toTy c
    if isComposite c then some (.delim e c) else none
  | _ => none
partial def toTys : List Sx → Option (List Ty)
  | [] => some []
  | x :: xs => do let t ← toTy x; let ts ← toTys xs; some (t :: ts)
end

/-! ### Values -/

def hexDigit (c : Char) : Option Nat :=
  if '0' ≤ c ∧ c ≤ '9' then some (c.toNat - '0'.toNat)
  else if 'a' ≤ c ∧ c ≤ 'f' then some (c.toNat - 'a'.toNat + 10)
  else if 'A' ≤ c ∧ c ≤ 'F' then some (c.toNat - 'A'.toNat + 10)
  else none

def parseHexNat (cs : List Char) : Option Nat :=
  cs.foldlM (fun acc c => (hexDigit c).map (acc * 16 + ·)) 0

def parseFloat (s : String) : Option Nat :=
  if s = "xNaN" then some 0x7FF8000000000000 else
  match s.toList with
  | 'x' :: ds => if ds.length = 16 then parseHexNat ds else none
  | _ => none

mutual
partial def toVal : Ty → Sx → Option Val
  | .uint _ _, Sx.atom s => s.toInt?.map Val.int
  | .sint _ _, Sx.atom s => s.toInt?.map Val.int
  | .float _ _, Sx.atom s => (parseFloat s).map Val.float
  | .bool, Sx.atom s => if s = "0" then some (.bool false) else if s = "1" then some (.bool true) else none
  | .void _, Sx.atom s => if s = "_" then some .void else none
  | .arr t _, Sx.node '[' xs => (toVals t xs).map Val.arr
  | .varr t _, Sx.node '[' xs => (toVals t xs).map Val.arr
  | .struct fs, Sx.node '{' xs => (toFieldVals fs xs).map Val.struct
  | .union fs, Sx.node '<' (Sx.atom k :: x :: []) => do
    let k ← k.toNat?
    match fs[k]? with
    | some f => let v ← toVal f x; some (.union k v)
    | none => some (.union k .void)       -- no such option: must be rejected by the serializer
  | .delim _ inner, x => toVal inner x
  | _, _ => none
partial def toVals (t : Ty) : List Sx → Option (List Val)
  | [] => some []
  | x :: xs => do let v ← toVal t x; let vs ← toVals t xs; some (v :: vs)
partial def toFieldVals : List Ty → List Sx → Option (List Val)
  | [], [] => some []
  | f :: fs, x :: xs => do let v ← toVal f x; let vs ← toFieldVals fs xs; some (v :: vs)
  | _, _ => none
end

def hexChar (n : Nat) : Char := if n < 10 then Char.ofNat (48 + n) else Char.ofNat (87 + n)

def hexByte (b : Nat) : String := String.ofList [hexChar (b / 16 % 16), hexChar (b % 16)]

def hexBytes (bs : List Nat) : String :=
  if bs.isEmpty then "-" else String.join (bs.map hexByte)

def hex64 (x : Nat) : String :=
  String.ofList ((List.range 16).map fun i => hexChar (x / 16 ^ (15 - i) % 16))

partial def showVal : Val → String
  | .int i => toString i
  | .bool b => if b then "1" else "0"
  | .float x => if isNaN64 x then "xNaN" else "x" ++ hex64 x
  | .void => "_"
  | .arr vs => "[" ++ " ".intercalate (vs.map showVal) ++ "]"
  | .struct vs => "{" ++ " ".intercalate (vs.map showVal) ++ "}"
  | .union k v => "<" ++ toString k ++ " " ++ showVal v ++ ">"

def parseHexBytes (s : String) : Option (List Nat) :=
  if s = "-" then some [] else
  let rec go : List Char → Option (List Nat)
    | [] => some []
    | a :: b :: rest => do
      let x ← hexDigit a; let y ← hexDigit b; let r ← go rest; some ((x * 16 + y) :: r)
    | _ => none
  go s.toList

def showPrim : Bits.Err → String
  | .oob => "oob" | .fuel => "fuel" | .wrap => "wrap" | .overflow => "overflow" | .usage => "usage"

def showSite : DeErr → String
  | .badArrayLength => "bad-array-length"
  | .badUnionTag => "bad-union-tag"
  | .badDelimiterHeader => "bad-delimiter-header"

def showExc : Exc → String
  | .prim e => "exc:prim:" ++ showPrim e
  | .assertion => "exc:assertion"
  | .malformedUnion => "exc:malformed-union"
  | .format k => "exc:format:" ++ showSite k
  | .fork => "exc:fork"
  | .ctor => "exc:ctor"
  | .overflow => "exc:overflow"
  | .shape => "bad-op"

/-! ### Method trace of one generated class (structural tie) -/

def alName (al : Bool) : String := if al then "aligned" else "unaligned"

def intMethod (ser : Bool) (al signed : Bool) (n : Nat) : String :=
  let pre := if ser then "add_" else "fetch_"
  match intPath al n with
  | .alignedStd => pre ++ "aligned_" ++ (if signed then "i" else "u") ++ toString n
  | .aligned => pre ++ "aligned_" ++ (if signed then "signed" else "unsigned")
  | .unaligned => pre ++ "unaligned_" ++ (if signed then "signed" else "unsigned")

def padTrace (a : Nat) : List String := if a > 1 then ["pad_to_alignment"] else []

def arrBody (ser : Bool) (t : Ty) (al : Bool) (elem : List String) : List String :=
  let pre := if ser then "add_" else "fetch_"
  match arrPath t with
  | .bits => [pre ++ alName al ++ "_array_of_bits"]
  | .std => [pre ++ alName al ++ "_array_of_standard_bit_length_primitives"]
  | .loop => elem

/-- methods emitted by `_serialize_any(t, ref, o)` / `_deserialize_any(t, ref, o)` -/
def anyTrace (ser : Bool) : Ty → AOff → List String
  | .uint n _, o => [intMethod ser o.isAligned false n]
  | .sint n _, o => [intMethod ser o.isAligned true n]
  | .float n m, o =>
    let name := (if ser then "add_" else "fetch_") ++ alName o.isAligned ++ "_f" ++ toString n
    if ser && (match m with | .sat => true | .trunc => false) && n < 64 then [name, name, name, name] else [name]
  | .bool, _ => [if ser then "add_unaligned_bit" else "fetch_unaligned_bit"]
  | .void _, _ => ["skip_bits"]
  | .arr t n, o =>
    padTrace (align t) ++ arrBody ser t o.isAligned (anyTrace ser t (o.add ((lenRes t).rep (n - 1))))
      ++ padTrace (align t)
  | .varr t cap, o =>
    padTrace (align t) ++ [intMethod ser o.isAligned false (prefixBits cap)]
      ++ (if ser then [] else ["FormatError"])
      ++ arrBody ser t (o.add (some (prefixBits cap))).isAligned (anyTrace ser t (o.add (lenRes (.varr t cap))))
      ++ padTrace (align t)
  | .struct _, _ => ["pad_to_alignment", "call"]
  | .union _, _ => ["pad_to_alignment", "call"]
  | .delim _ inner, _ =>
    if ser then
      if minBits inner ≠ maxBits inner then
        ["pad_to_alignment", "fork_bytes", "nested.skip_bits", "call", "add_aligned_u32", "skip_bits"]
      else ["pad_to_alignment", "add_aligned_u32", "call"]
    else ["pad_to_alignment", "fetch_aligned_u32", "FormatError", "fork_bytes", "skip_bits", "call"]

def fieldsTrace (ser : Bool) : List Ty → AOff → List String
  | [], _ => []
  | f :: fs, o =>
    anyTrace ser f (o.pad (align f)) ++ fieldsTrace ser fs ((o.pad (align f)).add (lenRes f))

/-- methods of the class body: `_serialize_` / `_deserialize_` of the class whose inner type is `t` -/
def objTrace (ser : Bool) : Ty → List String
  | .struct fs => fieldsTrace ser fs (some 0) ++ ["pad_to_alignment"]
  | .union fs =>
    let tag := intMethod ser true false (tagBits fs.length)
    let o : AOff := some (tagBits fs.length % 8)
    if ser then (fs.map fun f => tag :: anyTrace ser f o).flatten ++ ["pad_to_alignment"]
    else tag :: (fs.map fun f => anyTrace ser f o).flatten ++ ["FormatError", "pad_to_alignment"]
  | _ => ["?"]

/-- The model works on lists (a buffer access is linear in the index): a request on a type whose serialization
buffer exceeds this many bytes is not evaluated (`skipped-large`), so that no request can occupy the driver for long. -/
def driverLimitBytes : Nat := 4096

def tooLarge (t : Ty) : Bool := extent t / 8 > driverLimitBytes || maxBits (topInner t) / 8 > driverLimitBytes

def answer (line : String) : String :=
  if line.length > 100 * driverLimitBytes then "skipped-large" else
  match parseAll (tokenize line) with
  | some [Sx.atom "ser", t, v] =>
    match toTy t with
    | some t => if tooLarge t then "skipped-large" else match toVal t v with
      | some v =>
        match serializePy stdEnv t v with
        | .ok bs => "ok " ++ hexBytes bs
        | .error e => showExc e
      | none => "bad-op"
    | none => "bad-op"
  | some [Sx.atom "de", t, Sx.atom hex] =>
    match toTy t, parseHexBytes hex with
    | some t, some bytes =>
      if tooLarge t || bytes.length > 2 * driverLimitBytes then "skipped-large" else
      match deserializePy stdEnv t bytes with
      | .ok (some (v, n)) => "ok " ++ showVal v ++ " " ++ toString n
      | .ok none =>
        -- which raise site it was is visible in the model (not in the API)
        match deObj stdEnv (topInner t) ⟨bytes, 0⟩ with
        | .error (.format k) => "none:" ++ showSite k
        | _ => "none:?"
      | .error e => showExc e
    | _, _ => "bad-op"
  | some [Sx.atom "trace", t] =>
    match toTy t with
    | some t => "ok " ++ " ".intercalate (objTrace true (topInner t)) ++ " | "
                  ++ " ".intercalate (objTrace false (topInner t))
    | none => "bad-op"
  | _ => "bad-op"

def main : IO Unit := serve answer
