import NunavutVerif.Model.LineBuffer
import NunavutVerif.Proto
/-!
Driver for the C15 correspondence.  One request per line:

  `gen <pps> <chunks>`   pps: `-` or comma list of `T` / `L<n>`; chunks: `|`-separated encoded strings
                         (`-` = empty chunk; `!` = no chunks at all)  → encoded output text
  `old <pps> <chunks>`   same through the pre-fix loop (`genLinesBeforeFix`)
  `files <pps> <files>`  files: `/`-separated chunk lists, one per generated file, through one processor list
                         (start state deliberately non-zero) → `/`-separated encoded file texts
  `assemble <given> <limit> <trim>`  the processor list `_handle_post_processors` builds (see Model)
  `isws <codepoint>`     → `1` / `0`
-/
open NunavutVerif NunavutVerif.LineBuffer NunavutVerif.Proto

def parsePPs (s : String) : Option (List PP) :=
  if s = "-" then some [] else
  (splitOnChar s ',').mapM fun t =>
    if t = "T" then some PP.trim
    else if t.startsWith "L" then (t.drop 1).toString.toNat?.map PP.limit
    else none

def parseChunks (s : String) : Option (List Str) :=
  if s = "!" then some [] else (splitOnChar s '|').mapM decodeStr

def answer (line : String) : String :=
  match line.splitOn " " with
  | ["gen", pps, chunks] =>
    match parsePPs pps, parseChunks chunks with
    | some pps, some chunks => encodeStr (output pps (pps.map fun _ => 0) chunks)
    | _, _ => "bad-op"
  | ["old", pps, chunks] =>
    match parsePPs pps, parseChunks chunks with
    | some pps, some chunks =>
      encodeStr (write (pipeLines pps (pps.map fun _ => 0) (genLinesBeforeFix chunks)))
    | _, _ => "bad-op"
  | ["files", pps, files] =>
    -- files: `/`-separated chunk lists; answer: `/`-separated encoded file texts
    match parsePPs pps, (splitOnChar files '/').mapM parseChunks with
    | some pps, some fs => "/".intercalate ((genFiles pps (pps.map fun _ => 7) fs).map encodeStr)
    | _, _ => "bad-op"
  | ["assemble", given, lim, tr] =>
    -- given: `N` (None) | `-` (empty list) | comma list of T / L<n> / O<k>; lim: `N` | <n>; tr: 0 | 1
    let parseItem (t : String) : Option Item :=
      if t = "T" then some Item.trim
      else if t.startsWith "L" then (t.drop 1).toString.toNat?.map Item.limit
      else if t.startsWith "O" then (t.drop 1).toString.toNat?.map Item.other
      else none
    let g : Option (Option (List Item)) :=
      if given = "N" then some none
      else if given = "-" then some (some [])
      else ((splitOnChar given ',').mapM parseItem).map some
    let l : Option (Option Nat) := if lim = "N" then some none else lim.toNat?.map some
    match g, l with
    | some g, some l =>
      match assemble g l (tr = "1") with
      | none => "N"
      | some [] => "-"
      | some r => ",".intercalate (r.map fun i => match i with
          | .trim => "T" | .limit n => s!"L{n}" | .other k => s!"O{k}")
    | _, _ => "bad-op"
  | ["cli", tr, mx, pr, lim, ctr] =>
    -- tr/pr/ctr: 0|1; mx, lim: `N` | <n>  → the assembled list of a CLI run
    let o (x : String) : Option (Option Nat) := if x = "N" then some none else x.toNat?.map some
    match o mx, o lim with
    | some mx, some lim =>
      ",".intercalate ((cliProcessors (tr = "1") mx (pr = "1") lim (ctr = "1")).map fun i => match i with
        | .trim => "T" | .limit n => s!"L{n}" | .other k => s!"O{k}")
    | _, _ => "bad-op"
  | ["isws", n] =>
    match n.toNat? with
    | some k => if isWs (Char.ofNat k) then "1" else "0"
    | none => "bad-op"
  | _ => "bad-op"

def main : IO Unit := serve answer
