import NunavutVerif.Model.LineBuffer
import NunavutVerif.Model.PostProc
import NunavutVerif.Proto
/-!
Driver for the C15 correspondence.  One request per line:

  `gen <pps> <chunks>`   pps: `-` or comma list of `T` / `L<n>`; chunks: `|`-separated encoded strings
                         (`-` = empty chunk; `!` = no chunks at all)  → encoded output text
  `old <pps> <chunks>`   same through the pre-fix loop (`genLinesBeforeFix`)
  `files <pps> <files>`  files: `/`-separated chunk lists, one per generated file, through one processor list
                         (start state deliberately non-zero) → `/`-separated encoded file texts
  `assemble <given> <limit> <trim>`  the processor list `_handle_post_processors` builds (see Model)
  `isws <codepoint>`     → `1` / `0`
  round 2:
  `flines <text>`        the lines a file opened with newline="" yields → `|`-separated (`!` = none)
  `copyh <resource> <dst0|N> <runs>`  runs: `/`-separated `<pps>;<start>;<dry>;<allow>` → per-run result (`E` PermissionError,
                         `N` no file, else text) `/`-separated, then `=` and the destination at the end
  `call <proc> <state> <content> <term>`  one `__call__` → `N <state'>` | `<content'> <term'> <state'>`; `reset <proc> <state>`
  `pfiles <procs> <start> <files>`  processor objects `T` / `L<int>` / `C<k>`, every state = start → `/`-separated `<text>:<raised>`
  `cliz <tr> <mx|N> <nargs|N> <mode> <lim|N> <ctr>`  → `<list>;<line processors in order>`
  `asmz <given> <lim|N> <tr>`  `_handle_post_processors` with integer limits
-/
open NunavutVerif NunavutVerif.LineBuffer NunavutVerif.Proto

def parsePPs (s : String) : Option (List PP) :=
  if s = "-" then some [] else
  (splitOnChar s ',').mapM fun t =>
    if t = "T" then some PP.trim
    else if t.startsWith "L" then (t.drop 1).toString.toNat?.map PP.limit
    else none

def parseChunks (s : String) : Option (List Str) :=
  if s = "!" then some [] else (splitOnChar s '|').mapM decodeStr

def parseProc (t : String) : Option Proc :=
  if t = "T" then some Proc.trim
  else if t.startsWith "L" then (t.drop 1).toString.toInt?.map Proc.limit
  else if t.startsWith "C" then (t.drop 1).toString.toNat?.map Proc.custom
  else none

def showOptStr : Option Str → String
  | none => "N"
  | some t => encodeStr t

def showCItems (r : List CItem) : String :=
  if r.isEmpty then "-" else
  ",".intercalate (r.map fun i => match i with
    | .trim => "T" | .limit n => s!"L{n}" | .prog k => s!"P{k}" | .mode m => s!"M{m}" | .other k => s!"O{k}")

def parseCItem (t : String) : Option CItem :=
  if t = "T" then some CItem.trim
  else if t.startsWith "L" then (t.drop 1).toString.toInt?.map CItem.limit
  else if t.startsWith "P" then (t.drop 1).toString.toNat?.map CItem.prog
  else if t.startsWith "M" then (t.drop 1).toString.toNat?.map CItem.mode
  else if t.startsWith "O" then (t.drop 1).toString.toNat?.map CItem.other
  else none

def parseRun (t : String) : Option CopyRun :=
  match splitOnChar t ';' with
  | [pps, start, dry, allow] =>
    match parsePPs pps, start.toNat? with
    | some pps, some st => some ⟨pps, pps.map fun _ => st, dry = "1", allow = "1"⟩
    | _, _ => none
  | _ => none

def optInt (x : String) : Option (Option Int) := if x = "N" then some none else x.toInt?.map some
def optNat (x : String) : Option (Option Nat) := if x = "N" then some none else x.toNat?.map some

def answer2 (line : String) : Option String :=
  match line.splitOn " " with
  | ["flines", text] =>
    (decodeStr text).map fun t =>
      let ls := fileLines t
      if ls.isEmpty then "!" else "|".intercalate (ls.map encodeStr)
  | ["copyh", res, dst0, runs] =>
    let d0 : Option (Option Str) := if dst0 = "N" then some none else (decodeStr dst0).map some
    match decodeStr res, d0, (splitOnChar runs '/').mapM parseRun with
    | some res, some d0, some runs =>
      let r := copyHistory res d0 runs
      some ("/".intercalate (r.1.map fun x => match x with | none => "E" | some d => showOptStr d) ++ "=" ++ showOptStr r.2)
    | _, _, _ => none
  | ["call", pr, st, content, term] =>
    match parseProc pr, st.toNat?, decodeStr content, decodeStr term with
    | some p, some s, some c, some t =>
      match p.call s ⟨c, t⟩ with
      | (none, s') => some s!"N {s'}"
      | (some l, s') => some s!"{encodeStr l.content} {encodeStr l.term} {s'}"
    | _, _, _, _ => none
  | ["reset", pr, st] =>
    match parseProc pr, st.toNat? with
    | some p, some s => some (toString (p.reset s))
    | _, _ => none
  | ["pfiles", procs, start, files] =>
    match (if procs = "-" then some [] else (splitOnChar procs ',').mapM parseProc), start.toNat?,
          (splitOnChar files '/').mapM parseChunks with
    | some ps, some st, some fs =>
      some ("/".intercalate ((genFilesP ps (ps.map fun _ => st) fs).map fun r => encodeStr r.1 ++ ":" ++ (if r.2 then "1" else "0")))
    | _, _, _ => none
  | ["cliz", tr, mx, pr, mode, lim, ctr] =>
    match optInt mx, optNat pr, mode.toNat?, optInt lim with
    | some mx, some pr, some mode, some lim =>
      let r := cliProcessorsZ ⟨tr = "1", mx, pr, mode⟩ lim (ctr = "1")
      some (showCItems r ++ ";" ++ showCItems (lineProcs r))
    | _, _, _, _ => none
  | ["asmz", given, lim, tr] =>
    let g : Option (Option (List CItem)) :=
      if given = "N" then some none
      else if given = "-" then some (some [])
      else ((splitOnChar given ',').mapM parseCItem).map some
    match g, optInt lim with
    | some g, some l =>
      some (match assembleZ g l (tr = "1") with | none => "N" | some r => showCItems r)
    | _, _ => none
  | _ => none

def answer (line : String) : String :=
  match answer2 line with
  | some r => r
  | none =>
    match line.splitOn " " with
    | ["gen", pps, chunks] =>
      match parsePPs pps, parseChunks chunks with
      | some pps, some chunks => encodeStr (output pps (pps.map fun _ => 0) chunks)
      | _, _ => "bad-op"
    | ["old", pps, chunks] =>
      match parsePPs pps, parseChunks chunks with
      | some pps, some chunks =>
        encodeStr (write (pipeLines pps (pps.map fun _ => 0) (genLinesBeforeFix chunks)))
      | _, _ => "bad-op"
    | ["files", pps, files] =>
      -- files: `/`-separated chunk lists; answer: `/`-separated encoded file texts
      match parsePPs pps, (splitOnChar files '/').mapM parseChunks with
      | some pps, some fs => "/".intercalate ((genFiles pps (pps.map fun _ => 7) fs).map encodeStr)
      | _, _ => "bad-op"
    | ["assemble", given, lim, tr] =>
      -- given: `N` (None) | `-` (empty list) | comma list of T / L<n> / O<k>; lim: `N` | <n>; tr: 0 | 1
      let parseItem (t : String) : Option Item :=
        if t = "T" then some Item.trim
        else if t.startsWith "L" then (t.drop 1).toString.toNat?.map Item.limit
        else if t.startsWith "O" then (t.drop 1).toString.toNat?.map Item.other
        else none
      let g : Option (Option (List Item)) :=
        if given = "N" then some none
        else if given = "-" then some (some [])
        else ((splitOnChar given ',').mapM parseItem).map some
      let l : Option (Option Nat) := if lim = "N" then some none else lim.toNat?.map some
      match g, l with
      | some g, some l =>
        match assemble g l (tr = "1") with
        | none => "N"
        | some [] => "-"
        | some r => ",".intercalate (r.map fun i => match i with
            | .trim => "T" | .limit n => s!"L{n}" | .other k => s!"O{k}")
      | _, _ => "bad-op"
    | ["cli", tr, mx, pr, lim, ctr] =>
      -- tr/pr/ctr: 0|1; mx, lim: `N` | <n>  → the assembled list of a CLI run
      let o (x : String) : Option (Option Nat) := if x = "N" then some none else x.toNat?.map some
      match o mx, o lim with
      | some mx, some lim =>
        ",".intercalate ((cliProcessors (tr = "1") mx (pr = "1") lim (ctr = "1")).map fun i => match i with
          | .trim => "T" | .limit n => s!"L{n}" | .other k => s!"O{k}")
      | _, _ => "bad-op"
    | ["isws", n] =>
      match n.toNat? with
      | some k => if isWs (Char.ofNat k) then "1" else "0"
      | none => "bad-op"
    | _ => "bad-op"

def main : IO Unit := serve answer
