import NunavutVerif.Model.Cli
import NunavutVerif.Model.CliParse
import NunavutVerif.Proto
/-!
Driver for the C08 correspondence.  One request per line, 16 space-separated fields:

  `run <variant> <flags> <lang> <extraSer> <extraType> <pkgDir> <outdir> <gs> <omit> <gnt> <ext> <stem> <templates> <supportTemplates> <entries> <lookupFiles>`

* variant `new` (model of the repaired listing) | `old` (`runBeforeFix`) | `oldinputs` (`runBeforeInputsFix`: before the
          round-2 fixes of `--list-inputs`)
* flags   four bits `list_outputs list_inputs list_configuration dry_run`, e.g. `0100` (the mode is `modeOf` of them)
* lang    a row name of `Gen.SupportFiles.table`
* extraSer, extraType   lists of encoded resource names appended to the row's `serSupport` / `typeSupport` (the
          harness adds copied, non-template resources to a scratch copy of the package)
* pkgDir, outdir   encoded strings (`Proto`: code points joined by `.`, `-` = empty)
* gs      `always|never|as-needed|only`;  omit, gnt  `0|1`
* ext, stem   `!` (option absent) or an encoded string
* templates, supportTemplates   `!` (option absent) or a list of `name~path` (`name~path~L`: reachable only through a
          symbolic link to a directory)
* entries  list of `isNs~comps~stem~src~candidates~deps`; comps/candidates/deps are `+`-lists of encoded strings
* lookupFiles  list of encoded paths: every `*.dsdl` / `*.uavcan` below the lookup directories (resolved)
* every list: `,`-separated (`+` inside an entry), `!` = empty list (`@` = a present but empty directory)

A second request, `parse <arg> <arg> …` (every argument string encoded; `parse` alone = empty command line), runs the
model of the argument parser and of the runner glue (`Model/CliParse.lean`):
  `ok ns=<dest>=<val>,… mode=<mode|!> pps=<pp,…|!> calls=<method>:<target>.<fn>(<kw>=<val>+…),…|!`   (`!` = the runner raises first)
  `exit0:<help|version>`  |  `err:<kind>[:<encoded action name / argument>]`
val: `N` None, `T`/`F`, `I<int>`, `S<enc>`, `L<item>+<item>…` (item `i<int>` | `s<enc>`).

Answer to `run`: `<ok|err:kind> ops=<list of <letter><path>> outputs=<list> inputs=<list> reads=<list>`; output paths are joined by `/`
(with a leading `/` when `outdir` was absolute) and encoded.
-/
open NunavutVerif NunavutVerif.Cli NunavutVerif.Proto NunavutVerif.Gen.SupportFiles

def decS (s : String) : Option String := (decodeStr s).map String.ofList
def encS (s : String) : String := encodeStr s.toList

def parseList {α} (sep : Char) (f : String → Option α) (s : String) : Option (List α) :=
  if s = "!" ∨ s = "@" then some [] else (splitOnChar s sep).mapM f

def parseOpt {α} (f : String → Option α) (s : String) : Option (Option α) :=
  if s = "!" then some none else (f s).map some

def parseBit (s : String) : Option Bool :=
  if s = "1" then some true else if s = "0" then some false else none

def parseGs (s : String) : Option GenSupport :=
  if s = "always" then some .always else if s = "never" then some .never
  else if s = "as-needed" then some .asNeeded else if s = "only" then some .only else none

def parseTemplateFile (s : String) : Option TemplateFile :=
  match splitOnChar s '~' with
  | [n, p] => do pure ⟨← decS n, ← decS p, false⟩
  | [n, p, "L"] => do pure ⟨← decS n, ← decS p, true⟩
  | _ => none

def parseEntry (s : String) : Option Entry :=
  match splitOnChar s '~' with
  | [isNs, comps, stem, src, cands, deps] => do
    pure ⟨← parseBit isNs, ← parseList '+' decS comps, ← decS stem, ← decS src, ← parseList '+' decS cands,
          ← parseList '+' decS deps⟩
  | _ => none

def parseFlags (s : String) : Option Mode :=
  match s.toList with
  | [a, b, c, d] => do
    pure (modeOf (← parseBit (String.singleton a)) (← parseBit (String.singleton b)) (← parseBit (String.singleton c))
      (← parseBit (String.singleton d)))
  | _ => none

def errName : Err → String
  | .parserReject => "parser-reject"
  | .invalidSuffix => "invalid-suffix"
  | .emptyName => "empty-name"
  | .noTemplate => "no-template"
  | .templateNotFound => "template-not-found"

def showList (xs : List String) : String := if xs.isEmpty then "!" else ",".intercalate xs

/-! ### `parse`: the argument parser and the runner glue -/
section parse
open NunavutVerif.CliParse NunavutVerif.Gen.CliArgs

def showScalar : Scalar → String
  | .int i => "i" ++ toString i
  | .str s => "s" ++ encS s

def showVal : Val → String
  | .none => "N"
  | .bool true => "T"
  | .bool false => "F"
  | .sc (.int i) => "I" ++ toString i
  | .sc (.str s) => "S" ++ encS s
  | .list l => "L" ++ "+".intercalate (l.map showScalar)

def showPErr : PErr → String
  | .ambiguous a => "ambiguous:" ++ encS a
  | .expectedOneArg n => "expected-one-argument:" ++ encS n
  | .ignoredExplicit n => "ignored-explicit-argument:" ++ encS n
  | .invalidChoice n => "invalid-choice:" ++ encS n
  | .invalidValue n => "invalid-value:" ++ encS n
  | .logic => "logic"
  | .unrecognized xs => "unrecognized:" ++ "+".intercalate (xs.map encS)
  | .unsupported => "unsupported"

def showMode : Mode → String
  | .listOutputs => "list-outputs"
  | .listInputs => "list-inputs"
  | .listConfiguration => "list-configuration"
  | .dryRun => "dry-run"
  | .generate => "generate"

def showPP : PP → String
  | .trim => "trim"
  | .limitEmptyLines n => "limit:" ++ showVal n
  | .extProgram argv => "prog:" ++ "+".intercalate (argv.map showScalar)
  | .setFileMode m => "mode:" ++ showVal m

def showCall (method : String) (c : Call) : String :=
  method ++ ":" ++ c.target ++ "." ++ c.fn ++ "(" ++ "+".intercalate (c.kwargs.map fun (k, v) => k ++ "=" ++ showVal v) ++ ")"

def parseEnv : Environ := { langs := table, pkgDir := "/pkg", dirFiles := fun _ => [] }

def answerParse (toks : List String) : String :=
  match toks.mapM decS with
  | none => "bad-op"
  | some argv =>
    match parseArgv argv with
    | .error e => "err:" ++ showPErr e
    | .exit0 w => "exit0:" ++ w
    | .ok ns =>
      let nsS := ",".intercalate (ns.map fun (k, v) => k ++ "=" ++ showVal v)
      let modeS := match modeOfNs ns with | some m => showMode m | none => "!"
      let ppS := match buildPPs ns ppRules with
        | some l => showList (l.map showPP)
        | none => "!"
      let callS := match toArgs parseEnv ns with
        | none => "!"
        | some a =>
          let all := ["_list_outputs_only", "_list_inputs_only", "_generate"].map fun m =>
            (callsOf calls m a ns).map fun (cs : List Call) => cs.map (showCall m)
          match all.mapM id with
          | some ls => if ls.flatten.isEmpty then "@" else showList ls.flatten
          | none => "!"
      s!"ok ns={nsS} mode={modeS} pps={ppS} calls={callS}"

end parse

def answer (line : String) : String :=
  match line.splitOn " " with
  | "parse" :: toks => answerParse (toks.filter (· ≠ ""))
  | ["run", variant, flags, lang, xser, xtype, pkgDir, outdir, gs, om, gnt, ext, stem, tpl, stpl, entries, lookup] =>
    let parsed : Option (Nat × Mode × Args × List Entry × Bool) := do
      let old ← if variant = "old" then some 1 else if variant = "new" then some 0 else if variant = "oldinputs" then some 2 else none
      let m ← parseFlags flags
      let row0 ← table.find? (fun r => r.name = lang)
      let row : LangRow := { row0 with serSupport := row0.serSupport ++ (← parseList ',' decS xser),
                                       typeSupport := row0.typeSupport ++ (← parseList ',' decS xtype) }
      let od ← decS outdir
      let a : Args := {
        lang := row, pkgDir := ← decS pkgDir, outdir := splitOnChar od '/', genSupport := ← parseGs gs,
        omitSer := ← parseBit om, gnt := ← parseBit gnt, extArg := ← parseOpt decS ext,
        stemArg := ← parseOpt decS stem, templates := ← parseOpt (parseList ',' parseTemplateFile) tpl,
        supportTemplates := ← parseOpt (parseList ',' parseTemplateFile) stpl,
        lookupFiles := ← parseList ',' decS lookup }
      let es ← parseList ',' parseEntry entries
      pure (old, m, a, es, od.startsWith "/")
    match parsed with
    | none => "bad-op"
    | some (old, m, a, es, isAbs) =>
      let r := if old = 1 then runBeforeFix m a es else if old = 2 then runBeforeInputsFix m a es else run m a es
      let showPath (p : OutPath) : String := encS ((if isAbs then "/" else "") ++ "/".intercalate p)
      let showOp : FsOp → String
        | .handleOverwrite p => "h" ++ showPath p
        | .mkdirParents p => "m" ++ showPath p
        | .render p => "r" ++ showPath p
        | .copy _ p => "c" ++ showPath p
        | .postProcess p => "p" ++ showPath p
      let status := match r.err with
        | none => "ok"
        | some e => "err:" ++ errName e
      let rd := match buildTree a (treeEntries a es) with
        | .ok tree => if accepted a then reads a tree else []
        | .error _ => []
      s!"{status} ops={showList (r.ops.map showOp)} outputs={showList (r.outputs.map showPath)} inputs={showList (r.inputs.map encS)} reads={showList (rd.map encS)}"
  | _ => "bad-op"

def main : IO Unit := serve answer
