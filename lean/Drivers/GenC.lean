import NunavutVerif.Model.Dsdl
import NunavutVerif.Model.GenC
import NunavutVerif.Model.GenCX
import NunavutVerif.Proto
/-!
Driver `genc`: the codec line protocol (`harness/CODEC_PROTOCOL.md`) answered by the implementation-shaped model
`Model/GenC.lean` of the generated C code.

  `[@OPT] ser <T> <V>`           → `ok <hex>` | `err:<kind>`      buffer of the advertised size, pre-filled with 0xFF
  `[@OPT] serbuf <T> <V> <cap>`  → `ok <hex>` | `err:<kind>`      buffer of exactly `cap` bytes, pre-filled with 0x55
  `[@OPT] de <T> <hex>`          → `ok <V> <consumed bytes>` | `err:<kind>`
  `[@OPT] paths ser|de <T>`      → `ok <helper> <helper> …`       helper each emitted site of `T`'s own function uses

`@OPT` = `@any` (default) or `@little`, optionally `,fill=<byte>` (prior content of destination arrays),
`,asserts` (enable_serialization_asserts: a failing NUNAVUT_ASSERT is answered `err:assert`) and
`,orc=never` (oracle that never claims alignment; default: the exact oracle).  A model-level failure of a primitive
(never expected; proved unreachable) is answered `err:prim-<name>`.

Round 2 (`Model/GenCX.lean`; any of these options routes the request through `serializeCX` / `deserializeCX`):
`,place=above|below|far` evaluates the address assertions of `nunavutCopyBits` with the buffer at address 4096 and
every other object (primitive locals, member arrays) directly above the buffer / directly below it / far away;
`,beforefix` uses the overlap assertions as they were before /repo 443d39c, `,nohg` the unguarded `src != dst` as it
was before /repo 23731cd (`,hg`: the guarded one, default); `,ovr=<c>` is `enable_override_variable_array_capacity` with every non-bool variable-length array
capacity macro defined as `min(c, DSDL capacity)`, `,nocheck` = `<T>_DISABLE_SERIALIZATION_BUFFER_CHECK_` defined.

The request syntax (types, values, hex) is that of `Drivers/Codec.lean`; the parser below is a copy of that file's
(a driver module defines `main` and cannot be imported).
-/
open NunavutVerif NunavutVerif.Dsdl NunavutVerif.Proto

/-! ### Tokens and generic S-expressions -/

inductive Tok where
  | open (c : Char)     -- ( [ { <
  | close (c : Char)    -- ) ] } >
  | atom (s : String)
  deriving Repr, BEq

def isOpen (c : Char) : Bool := c = '(' || c = '[' || c = '{' || c = '<'
def isClose (c : Char) : Bool := c = ')' || c = ']' || c = '}' || c = '>'
def closerOf (c : Char) : Char :=
  if c = '(' then ')' else if c = '[' then ']' else if c = '{' then '}' else '>'

def flushAtom (cur : List Char) (acc : List Tok) : List Tok :=
  if cur.isEmpty then acc else Tok.atom (String.ofList cur.reverse) :: acc

/-- Tokens in reverse order. -/
def tokenizeAux : List Char → List Char → List Tok → List Tok
  | [], cur, acc => flushAtom cur acc
  | c :: cs, cur, acc =>
    if c = ' ' then tokenizeAux cs [] (flushAtom cur acc)
    else if isOpen c then tokenizeAux cs [] (Tok.open c :: flushAtom cur acc)
    else if isClose c then tokenizeAux cs [] (Tok.close c :: flushAtom cur acc)
    else tokenizeAux cs (c :: cur) acc

def tokenize (s : String) : List Tok := (tokenizeAux s.toList [] []).reverse

/-- Generic bracketed tree. -/
inductive Sx where
  | atom (s : String)
  | node (br : Char) (xs : List Sx)
  deriving Inhabited

mutual
partial def parseSx : List Tok → Option (Sx × List Tok)
  | Tok.atom s :: rest => some (Sx.atom s, rest)
  | Tok.open c :: rest =>
    match parseSxList (closerOf c) rest with
    | some (xs, rest') => some (Sx.node c xs, rest')
    | none => none
  | _ => none
partial def parseSxList (cl : Char) : List Tok → Option (List Sx × List Tok)
  | Tok.close c :: rest => if c = cl then some ([], rest) else none
  | toks =>
    match parseSx toks with
    | some (x, rest) =>
      match parseSxList cl rest with
      | some (xs, rest') => some (x :: xs, rest')
      | none => none
    | none => none
end

partial def parseAll (toks : List Tok) : Option (List Sx) :=
  match toks with
  | [] => some []
  | _ =>
    match parseSx toks with
    | some (x, rest) => (parseAll rest).map (x :: ·)
    | none => none

/-! ### Types -/

def parseCast (s : String) : Option Cast :=
  if s = "s" then some .sat else if s = "t" then some .trunc else none

mutual
partial def toTy : Sx → Option Ty
  | Sx.node '(' (Sx.atom "u" :: Sx.atom n :: Sx.atom m :: []) => do
    let n ← n.toNat?; let m ← parseCast m
    if 1 ≤ n ∧ n ≤ 64 then some (.uint n m) else none
  | Sx.node '(' (Sx.atom "i" :: Sx.atom n :: Sx.atom m :: []) => do
    let n ← n.toNat?; let m ← parseCast m
    if 2 ≤ n ∧ n ≤ 64 then some (.sint n m) else none
  | Sx.node '(' (Sx.atom "f" :: Sx.atom n :: Sx.atom m :: []) => do
    let n ← n.toNat?; let m ← parseCast m
    if n = 16 ∨ n = 32 ∨ n = 64 then some (.float n m) else none
  | Sx.node '(' (Sx.atom "b" :: []) => some .bool
  | Sx.node '(' (Sx.atom "v" :: Sx.atom n :: []) => do let n ← n.toNat?; some (.void n)
  | Sx.node '(' (Sx.atom "a" :: t :: Sx.atom n :: []) => do
    let t ← toTy t; let n ← n.toNat?; some (.arr t n)
  | Sx.node '(' (Sx.atom "l" :: t :: Sx.atom n :: []) => do
    let t ← toTy t; let n ← n.toNat?; some (.varr t n)
  | Sx.node '(' (Sx.atom "s" :: fs) => do let fs ← toTys fs; some (.struct fs)
  | Sx.node '(' (Sx.atom "n" :: fs) => do let fs ← toTys fs; some (.union fs)
  | Sx.node '(' (Sx.atom "d" :: Sx.atom e :: c :: []) => do
    let e ← e.toNat?; let c ← toTy c
    if isComposite c then some (.delim e c) else none
  | _ => none
partial def toTys : List Sx → Option (List Ty)
  | [] => some []
  | x :: xs => do let t ← toTy x; let ts ← toTys xs; some (t :: ts)
end

/-! ### Values -/

def hexDigit (c : Char) : Option Nat :=
  if '0' ≤ c ∧ c ≤ '9' then some (c.toNat - '0'.toNat)
  else if 'a' ≤ c ∧ c ≤ 'f' then some (c.toNat - 'a'.toNat + 10)
  else if 'A' ≤ c ∧ c ≤ 'F' then some (c.toNat - 'A'.toNat + 10)
  else none

def parseHexNat (cs : List Char) : Option Nat :=
  cs.foldlM (fun acc c => (hexDigit c).map (acc * 16 + ·)) 0

def parseFloat (s : String) : Option Nat :=
  if s = "xNaN" then some 0x7FF8000000000000 else
  match s.toList with
  | 'x' :: ds => if ds.length = 16 then parseHexNat ds else none
  | _ => none

mutual
partial def toVal : Ty → Sx → Option Val
  | .uint _ _, Sx.atom s => s.toInt?.map Val.int
  | .sint _ _, Sx.atom s => s.toInt?.map Val.int
  | .float _ _, Sx.atom s => (parseFloat s).map Val.float
  | .bool, Sx.atom s => if s = "0" then some (.bool false) else if s = "1" then some (.bool true) else none
  | .void _, Sx.atom s => if s = "_" then some .void else none
  | .arr t _, Sx.node '[' xs => (toVals t xs).map Val.arr
  | .varr t _, Sx.node '[' xs => (toVals t xs).map Val.arr
  | .struct fs, Sx.node '{' xs => (toFieldVals fs xs).map Val.struct
  | .union fs, Sx.node '<' (Sx.atom k :: x :: []) => do
    let k ← k.toNat?
    match fs[k]? with
    | some f => let v ← toVal f x; some (.union k v)
    | none => some (.union k .void)       -- no such option: must be rejected by the serializer
  | .delim _ inner, x => toVal inner x
  | _, _ => none
partial def toVals (t : Ty) : List Sx → Option (List Val)
  | [] => some []
  | x :: xs => do let v ← toVal t x; let vs ← toVals t xs; some (v :: vs)
partial def toFieldVals : List Ty → List Sx → Option (List Val)
  | [], [] => some []
  | f :: fs, x :: xs => do let v ← toVal f x; let vs ← toFieldVals fs xs; some (v :: vs)
  | _, _ => none
end

def hexChar (n : Nat) : Char := if n < 10 then Char.ofNat (48 + n) else Char.ofNat (87 + n)

def hexByte (b : Nat) : String := String.ofList [hexChar (b / 16 % 16), hexChar (b % 16)]

def hexBytes (bs : List Nat) : String :=
  if bs.isEmpty then "-" else String.join (bs.map hexByte)

def hex64 (x : Nat) : String :=
  String.ofList ((List.range 16).map fun i => hexChar (x / 16 ^ (15 - i) % 16))

partial def showVal : Val → String
  | .int i => toString i
  | .bool b => if b then "1" else "0"
  | .float x => if isNaN64 x then "xNaN" else "x" ++ hex64 x
  | .void => "_"
  | .arr vs => "[" ++ " ".intercalate (vs.map showVal) ++ "]"
  | .struct vs => "{" ++ " ".intercalate (vs.map showVal) ++ "}"
  | .union k v => "<" ++ toString k ++ " " ++ showVal v ++ ">"

def parseHexBytes (s : String) : Option (List Nat) :=
  if s = "-" then some [] else
  let rec go : List Char → Option (List Nat)
    | [] => some []
    | a :: b :: rest => do
      let x ← hexDigit a; let y ← hexDigit b; let r ← go rest; some ((x * 16 + y) :: r)
    | _ => none
  go s.toList

/-! ### GenC answers -/

open NunavutVerif.GenC

def showErr : GenC.Err → String
  | .prim e => "err:prim-" ++ e.name
  | .illTyped => "bad-op"
  | .assert => "err:assert"
  | .ret c =>
    if c = -3 then "err:buffer-too-small"
    else if c = -10 then "err:bad-array-length"
    else if c = -11 then "err:bad-union-tag"
    else if c = -12 then "err:bad-delimiter-header"
    else "err:code" ++ toString c

def showSerC : Except GenC.Err (Bits.Buf × Nat) → String
  | .ok (b, n) => "ok " ++ hexBytes (b.take n)
  | .error e => showErr e

def neverOrc : AOff → Bool := fun _ => false

/-- the round-2 options (addresses, capacity override); `none`/`false` everywhere = `Model/GenC.lean` as before -/
structure XMode where
  place : Option String := none
  fixed : Bool := true
  hg : Bool := true
  ovr : Option Nat := none
  noCheck : Bool := false

def XMode.active (m : XMode) : Bool := m.place.isSome || m.ovr.isSome || m.noCheck || !m.fixed || !m.hg

/-- address of the user's buffer in the driver's placements -/
def bufBase : Nat := 4096

def XMode.ext (m : XMode) (L0 : Nat) : GenC.Ext :=
  { addrs := m.place.isSome
    adr := fun _ _ _ sz =>
      if m.place = some "above" then bufBase + L0
      else if m.place = some "below" then bufBase - sz
      else 1000000
    fixed := m.fixed
    headGuarded := m.hg
    ovr := m.ovr.isSome
    ucap := fun _ c => match m.ovr with
      | some u => if u < c then u else c
      | none => c
    noCheck := m.noCheck }

/-- `@any`, `@little`, `@little,fill=255,orc=never`, `@any,asserts,place=above`, `@little,ovr=2` -/
def parseOpts (s : String) : Option (Opts × XMode) :=
  match (s.drop 1).toString.splitOn "," with
  | [] => none
  | e :: rest =>
    let base : Option (Opts × XMode) :=
      if e = "any" then some ({ little := false, orc := exactOrc }, {})
      else if e = "little" then some ({ little := true, orc := exactOrc }, {})
      else none
    rest.foldl (fun acc kv => acc.bind fun (o, m) =>
      match kv.splitOn "=" with
      | ["fill", n] => n.toNat?.map fun n => ({ o with fill := n }, m)
      | ["asserts"] => some ({ o with asserts := true }, m)
      | ["orc", "never"] => some ({ o with orc := neverOrc }, m)
      | ["orc", "exact"] => some (o, m)
      | ["place", p] => if p = "above" || p = "below" || p = "far" then some (o, { m with place := some p }) else none
      | ["beforefix"] => some (o, { m with fixed := false })
      | ["hg"] => some (o, { m with hg := true })
      | ["nohg"] => some (o, { m with hg := false })
      | ["ovr", n] => n.toNat?.map fun n => (o, { m with ovr := some n })
      | ["nocheck"] => some (o, { m with noCheck := true })
      | _ => none) base

/-! ### Static helper selection (structural tie with the generated text) -/

def intPathSer (o : Opts) (signed : Bool) (n : Nat) (d : AOff) : String :=
  if o.orc d ∧ n ≤ 8 then "int:byte"
  else if o.orc d ∧ o.little then "memmove:" ++ toString ((n + 7) / 8)
  else (if signed then "setixx:" else "setuxx:") ++ toString n

def elemsPathSer (o : Opts) (t : Ty) (elem : List String) : List String :=
  match t with
  | .bool => ["copybits"]
  | t => if zeroCost o t then ["copybits"] else "loop" :: elem

mutual
partial def pathsSerAny (o : Opts) : Ty → AOff → List String
  | .uint n _, d => [intPathSer o false n d]
  | .sint n _, d => [intPathSer o true n d]
  | .float n _, d =>
    if o.orc d ∧ o.little then ["memmove:" ++ toString (n / 8)] else ["setf:" ++ toString n]
  | .bool, d => [if o.orc d then "bool:byte" else "bool:rmw"]
  | .void n, d => [if o.orc d then (if n ≤ 8 then "void:byte" else "void:memset") else "void:setuxx"]
  | .arr t n, d =>
    elemsPathSer o t (pathsSerAny o t (d.add (AOff.rangeRep (resBits t) (n - 1) AOff.zero)))
  | .varr t c, d =>
    "lencheck" :: intPathSer o false (prefixBits c) d ::
      elemsPathSer o t (pathsSerAny o t (d.add (resBits (.varr t c))))
  | .struct _, _ => ["call"]
  | .union _, _ => ["call"]
  | .delim _ inner, d =>
    if fixedLen inner then [intPathSer o false 32 d, "call"]
    else ["reserve", "call", if o.little then "patch:memmove" else "patch:setuxx"]
partial def pathsSerFields (o : Opts) : List Ty → Bool → AOff → List String
  | [], _, _ => []
  | f :: fs, first, d =>
    let dF := d.pad (align f)
    (if first ∨ align f ≤ 1 then [] else ["pad"]) ++ pathsSerAny o f dF ++
      pathsSerFields o fs false (dF.add (resBits f))
end

def pathsSerTop (o : Opts) : Ty → List String
  | .struct fs => if maxBits (.struct fs) = 0 then [] else pathsSerFields o fs true AOff.zero ++ ["pad"]
  | .union fs =>
    intPathSer o false (tagBits fs.length) AOff.zero ::
      (fs.flatMap fun f => "opt" :: pathsSerAny o f (AOff.single (tagBits fs.length))) ++ ["pad"]
  | _ => ["?"]

def intPathDe (o : Opts) (signed : Bool) (n : Nat) (d : AOff) : String :=
  if ¬ signed ∧ o.orc d ∧ n ≤ 8 then "int:byte"
  else (if signed then "geti:" else "getu:") ++ toString (storW n)

def elemsPathDe (o : Opts) (t : Ty) (elem : List String) : List String :=
  match t with
  | .bool => ["getbits"]
  | t => if zeroCost o t then ["getbits"] else "loop" :: elem

mutual
partial def pathsDeAny (o : Opts) : Ty → AOff → List String
  | .uint n _, d => [intPathDe o false n d]
  | .sint n _, d => [intPathDe o true n d]
  | .float n _, _ => ["getf:" ++ toString n]
  | .bool, d => [if o.orc d then "bool:aligned" else "bool:shift"]
  | .void _, _ => []
  | .arr t n, d =>
    elemsPathDe o t (pathsDeAny o t (d.add (AOff.rangeRep (resBits t) (n - 1) AOff.zero)))
  | .varr t c, d =>
    intPathDe o false (prefixBits c) d :: "lencheck" ::
      elemsPathDe o t (pathsDeAny o t (d.add (resBits (.varr t c))))
  | .struct _, _ => ["call"]
  | .union _, _ => ["call"]
  | .delim _ _, d => [intPathDe o false 32 d, "call"]
partial def pathsDeFields (o : Opts) : List Ty → Bool → AOff → List String
  | [], _, _ => []
  | f :: fs, first, d =>
    let dF := d.pad (align f)
    (if first ∨ align f ≤ 1 then [] else ["pad"]) ++ pathsDeAny o f dF ++
      pathsDeFields o fs false (dF.add (resBits f))
end

def pathsDeTop (o : Opts) : Ty → List String
  | .struct fs => if maxBits (.struct fs) = 0 then [] else pathsDeFields o fs true AOff.zero ++ ["pad"]
  | .union fs =>
    intPathDe o false (tagBits fs.length) AOff.zero ::
      (fs.flatMap fun f => "opt" :: pathsDeAny o f (AOff.single (tagBits fs.length))) ++ ["pad"]
  | _ => ["?"]

/-- the address assertions of `nunavutCopyBits` the model `GenC.copyAsserts` stands for, as C text (structural tie:
compared with the `NUNAVUT_ASSERT`s about `src`/`dst`/`psrc`/`pdst` in the generated `serialization.h`) -/
def addrAssertTexts (m : XMode) : List String :=
  let g := if m.fixed then "(length_bits > 0U) && " else ""
  let p (c : String) := if m.fixed then "(" ++ g ++ "(" ++ c ++ "))" else "(" ++ c ++ ")"
  [ (if m.hg then "(length_bits == 0U) || (src != dst)" else "src != dst"),
    "(" ++ p "psrc < pdst" ++ " ? ((uintptr_t)(psrc + ((src_offset_bits + length_bits + 7U) / 8U)) <= (uintptr_t)pdst) : 1)",
    "(" ++ p "psrc > pdst" ++ " ? ((uintptr_t)(pdst + ((dst_offset_bits + length_bits + 7U) / 8U)) <= (uintptr_t)psrc) : 1)" ]

def serRun (o : Opts) (m : XMode) (t : Ty) (v : Val) (buf : List Nat) (cap : Nat) :=
  if m.active then serializeCX o (m.ext buf.length) bufBase t v buf cap else serializeC o t v buf cap

def deRun (o : Opts) (m : XMode) (t : Ty) (buf : List Nat) (cap : Nat) :=
  if m.active then deserializeCX o (m.ext buf.length) bufBase t buf cap else deserializeC o t buf cap

def answerWith (o : Opts) (m : XMode) (req : List Sx) : String :=
  match req with
  | [Sx.atom "ser", t, v] =>
    match toTy t with
    | some t => match toVal t v with
      | some v =>
        let cap := (maxBits (topInner t) + 7) / 8
        showSerC (serRun o m t v (List.replicate cap 255) cap)
      | none => "bad-op"
    | none => "bad-op"
  | [Sx.atom "serbuf", t, v, Sx.atom cap] =>
    match toTy t, cap.toNat? with
    | some t, some cap => match toVal t v with
      | some v => showSerC (serRun o m t v (List.replicate cap 85) cap)
      | none => "bad-op"
    | _, _ => "bad-op"
  | [Sx.atom "de", t, Sx.atom hex] =>
    match toTy t, parseHexBytes hex with
    | some t, some bytes =>
      match deRun o m t bytes bytes.length with
      | .ok (v, n) => "ok " ++ showVal v ++ " " ++ toString n
      | .error e => showErr e
    | _, _ => "bad-op"
  | [Sx.atom "addrasserts"] => "ok " ++ " ;; ".intercalate (addrAssertTexts m)
  | [Sx.atom "paths", Sx.atom dir, t] =>
    match toTy t with
    | some t =>
      let ps := if dir = "ser" then pathsSerTop o (topInner t) else pathsDeTop o (topInner t)
      "ok" ++ String.join (ps.map fun p => " " ++ p)
    | none => "bad-op"
  | _ => "bad-op"

def answer (line : String) : String :=
  if line.startsWith "@" then
    match line.splitOn " " with
    | optTok :: rest =>
      match parseOpts optTok, parseAll (tokenize (" ".intercalate rest)) with
      | some (o, m), some req => answerWith o m req
      | _, _ => "bad-op"
    | [] => "bad-op"
  else
    match parseAll (tokenize line) with
    | some req => answerWith { little := false, orc := exactOrc } {} req
    | none => "bad-op"

def main : IO Unit := serve answer
