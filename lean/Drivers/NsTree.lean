import NunavutVerif.Model.Namespace
import NunavutVerif.Model.NamespaceGlue
import NunavutVerif.Proto
/-!
Driver for the C11 correspondence.  One request per line, fields separated by one space; strings are
encoded as in `Proto` (code points joined by '.', `-` = empty string).

  `tree <enable 0|1> <ext> <stem> <outdir> <order> <strops> <types> <refs> <subs> <names>`
      order  : `fwd` | `rev` | the keys of the index in the order the second pass walks them, joined by ',' (`!` = none)
      strops : `name>stropped` pairs joined by ',' (`!` = none)    - the sampled `filter_id(·,"path")`
      types  : the list handed to `build_namespace_tree`, each `c1/c2/…/cn:short:major:minor`, joined by ',' (`!` = none)
      refs   : further types (dependencies living in other root namespaces), same format
      subs   : parts of the language's `support_namespace`, encoded, joined by ',' (`!` = none)
      names  : file names of the support resources (`serialization.j2`, …), encoded, joined by ',' (`!` = none)
    → `err:strop-missing` | `err:order` | `err:value` (a `ValueError` leaves `build_namespace_tree`) |
      `ok <root> <nodes> <namespaces> <datatypes> <alltypes> <find> <inc> <sup>` where
        nodes      : `key=parent=nested+nested=path=ty@path+ty@path` joined by ';' (store order; `~` = none/empty)
        namespaces : keys yielded by `get_all_namespaces`, joined by ';'
        datatypes  : `ty@path` yielded by `get_all_datatypes`, joined by ';'
        alltypes   : `N<key>` / `T<ty>@<path>` yielded by `get_all_types`
        find       : for every yielded namespace (same order) and every type of types++refs (same order)
                     `H<path>` | `K` (KeyError) | `F` (model out of fuel), joined by ';'
        inc        : for every type of types++refs `<include path as posix>@<type_to_include_path as posix>`
        sup        : `<get_support_output_folder() of every yielded namespace, joined by ';'>|<target of every support resource, joined by ';'>`
      paths are parts joined by '/', posix strings are encoded strings, errors `E<kind>`.
  `treeold …`    the same through `Namespace.__eq__` as it was before the fix (stropped full name)
  `path <op> …`  the pathlib fragment on its own:
      `path join <seg>,<seg>,…`      → parts of `PurePosixPath(*segs)`
      `path suffix <seg> <ext>`      → parts of `PurePosixPath(seg).with_suffix(ext)` | `E…`
      `path rel <seg> <seg>`         → parts of `PurePosixPath(a).relative_to(PurePosixPath(b))` | `E…`
      `path posix <seg>`             → encoded `as_posix()`
  the path glue (`Model/NamespaceGlue.lean`); `<glue>` stands for the six fields
      `<route cli|api> <section> <files> <outdir|~> <ext|~> <stem|~>`
      section : `@<language name>` (the section of properties.yaml from `Gen/NsGlue.lean`) or `key=value` pairs joined by ','
                (`~` = null, `!` = empty section)
      files   : sections of the `--configuration` files in order, joined by ';' (`!` = none)
      outdir / ext / stem : the arguments exactly as given (`~` = not given / `None`; route `api` needs an outdir)
  `glue <glue>`                      → `ok <outdir> <ext> <stem>` | `err:key`
  `gtree <glue> <enable> <order> <strops> <types> <refs> <subs> <names>`
                                     → the answer of `tree` for the configuration the route arrives at | `err:key`
  `grun <nsTypes 0|1> <glue> <enable> <order> <strops> <types> <refs> <subs> <names>`
                                     → `ok <files> <dirs>`: encoded `as_posix()` of every file a non-dry run opens for writing and
                                       of every directory its `mkdir(parents=True)` calls may create, joined by ';' | `err:…`
  `resolve <cwd> <links> <spelled>`  → parts of `os.path.realpath(spelled)`; cwd = physical parts joined by '/',
                                       links = `<physical parts>><physical target parts>` joined by ',' (`!` = none)
  `exttype <raw>`                    → encoded `extension_type(raw)`
-/
open NunavutVerif NunavutVerif.Namespace NunavutVerif.Proto

def listOf (s : String) (sep : Char) (f : String → Option α) : Option (List α) :=
  if s = "!" then some [] else (splitOnChar s sep).mapM f

def parseKey (s : String) : Option Key := (splitOnChar s '/').mapM decodeStr

def parseTy (s : String) : Option Ty :=
  match splitOnChar s ':' with
  | [k, sh, ma, mi] =>
    match parseKey k, decodeStr sh, ma.toNat?, mi.toNat? with
    | some k, some sh, some ma, some mi => some ⟨k, sh, ma, mi⟩
    | _, _, _, _ => none
  | _ => none

def parsePair (s : String) : Option (Str × Str) :=
  match splitOnChar s '>' with
  | [a, b] => match decodeStr a, decodeStr b with
    | some a, some b => some (a, b)
    | _, _ => none
  | _ => none

def showKey (k : Key) : String := "/".intercalate (k.map encodeStr)
def showTy (t : Ty) : String := s!"{showKey t.ns}:{encodeStr t.short}:{t.major}:{t.minor}"
def showErr : Err → String
  | .badSuffix => "Ebad-suffix" | .emptyName => "Eempty-name" | .notRelative => "Enot-relative"
  | .keyError => "Ekey-error" | .fuel => "Efuel"
def showParts (p : Path) : String := if p.isEmpty then "~" else "/".intercalate (p.map encodeStr)
def showPathR : PathR → String
  | .ok p => showParts p
  | .error e => showErr e
def showPosix : PathR → String
  | .ok p => encodeStr (asPosix p)
  | .error e => showErr e
def semi (l : List String) : String := if l.isEmpty then "~" else ";".intercalate l
def plus (l : List String) : String := if l.isEmpty then "~" else "+".intercalate l
def showEntry (e : Ty × PathR) : String := s!"{showTy e.1}@{showPathR e.2}"

def showNode (n : Node) : String :=
  let parent := match n.parent with | some p => showKey p | none => "~"
  s!"{showKey n.comps}={parent}={plus (n.nested.map showKey)}={showPathR n.outPath}={plus (n.types.map showEntry)}"

def showItem : Item → String
  | .ns k => "N" ++ showKey k
  | .ty t p => "T" ++ showEntry (t, p)

def showFound : Found → String
  | .hit p => "H" ++ showPathR p
  | .keyError => "K"
  | .fuel => "F"

/-- `fwd` = index insertion order, `rev` = reversed, otherwise the explicit walk order of the real `set`
(must have exactly the members of the model's index). -/
def parseOrder (s : String) (idx : List Key) : Option (List Key) :=
  if s = "fwd" then some idx
  else if s = "rev" then some idx.reverse
  else match listOf s ',' parseKey with
    | some ks => if ks.all (fun k => idx.contains k) ∧ idx.all (fun k => ks.contains k) then some ks else none
    | none => none

def answerTree (old : Bool) (enable : Bool) (ext stem outDir : Str) (order : String) (tab : List (Str × Str))
    (ts refs : List Ty) (subs names : List Str) : String :=
  let needed := (ts ++ refs).flatMap (fun t => shortVer t :: t.ns) ++ (if ts.isEmpty then [[]] else [])
  if needed.any (fun n => (tab.lookup n).isNone) then "err:strop-missing" else
  let cfg : Cfg := ⟨fun s => (tab.lookup s).getD s, enable, ext, stem, outDir⟩
  match parseOrder order (loop1 cfg ts).idx with
  | none => "err:order"
  | some ks =>
  let same : Key → Key → Bool := if old then sameNsBeforeFix cfg else sameNs
  let tr := if old then buildWithBeforeFix cfg ts ks else buildWith cfg ts ks
  if ¬ buildOk cfg tr then "err:value" else
  let nss := allNamespaces tr
  let every := ts ++ refs
  let finds := nss.flatMap (fun s => every.map (fun t => showFound (findPathBy same tr.store s t)))
  let inc := every.map (fun t => s!"{showPosix (includePath cfg t)}@{showPosix (typeToIncludePath cfg tr t)}")
  let sup := semi (nss.map (fun k => showParts (baseOf cfg tr.store k))) ++ "|" ++
    semi (names.map (fun n => showPathR (supportTarget cfg tr subs n)))
  " ".intercalate ["ok", showKey tr.root, semi (tr.store.map showNode), semi (nss.map showKey),
    semi ((allDatatypes tr).map showEntry), semi ((allTypes tr).map showItem), semi finds, semi inc, sup]

def answerPath (args : List String) : String :=
  match args with
  | ["join", segs] =>
    match listOf segs ',' decodeStr with
    | some segs => showParts (ofSegs segs)
    | none => "bad-op"
  | ["suffix", seg, ext] =>
    match decodeStr seg, decodeStr ext with
    | some seg, some ext => showPathR (withSuffix (pjoin [] seg) ext)
    | _, _ => "bad-op"
  | ["rel", a, b] =>
    match decodeStr a, decodeStr b with
    | some a, some b => showPathR (relativeTo (pjoin [] a) (pjoin [] b))
    | _, _ => "bad-op"
  | ["posix", a] =>
    match decodeStr a with
    | some a => encodeStr (asPosix (pjoin [] a))
    | none => "bad-op"
  | ["parent", a] =>
    match decodeStr a with
    | some a => showParts (parentPath (pjoin [] a))
    | none => "bad-op"
  | _ => "bad-op"

def optStr (s : String) : Option (Option Str) := if s = "~" then some none else (decodeStr s).map some

def parseKV (s : String) : Option (Str × Option Str) :=
  match splitOnChar s '=' with
  | [k, v] => match decodeStr k, optStr v with
    | some k, some v => some (k, v)
    | _, _ => none
  | _ => none

def parseSection (s : String) : Option Section := listOf s ',' parseKV

/-- `@<language name>` = the section of properties.yaml as regenerated into `Gen/NsGlue.lean`. -/
def parseLangSection (s : String) : Option Section :=
  if s.startsWith "@" then (decodeStr (s.drop 1).toString).bind langSection else parseSection s

def parseParts (s : String) : Option Path := if s = "~" then some [] else (splitOnChar s '/').mapM decodeStr

def parseLink (s : String) : Option (Path × Path) :=
  match splitOnChar s '>' with
  | [a, b] => match parseParts a, parseParts b with
    | some a, some b => some (a, b)
    | _, _ => none
  | _ => none

/-- The six `<glue>` fields → the configuration (minus `strop`/`enable`, supplied by the caller). -/
def glueCfg (strop : Str → Str) (enable : Bool) (route sec files outdir ext stem : String) : Option (Except Err Cfg) :=
  match parseLangSection sec, listOf files ';' parseSection, optStr outdir, optStr ext, optStr stem with
  | some sec, some files, some outdir, some ext, some stem =>
    if route = "cli" then some (cfgOfCli strop enable sec files ⟨outdir, ext, stem⟩)
    else if route = "api" then
      match outdir with
      | some o => some (cfgOfApi strop enable sec files ext stem o)
      | none => none
    else none
  | _, _, _, _, _ => none

def dedup (l : List Path) : List Path := l.foldl (fun acc p => if acc.contains p then acc else acc ++ [p]) []

def answerRun (nsTypes : Bool) (cfg : Cfg) (order : String) (tab : List (Str × Str))
    (ts refs : List Ty) (subs names : List Str) : String :=
  let needed := (ts ++ refs).flatMap (fun t => shortVer t :: t.ns) ++ (if ts.isEmpty then [[]] else [])
  if needed.any (fun n => (tab.lookup n).isNone) then "err:strop-missing" else
  match parseOrder order (loop1 cfg ts).idx with
  | none => "err:order"
  | some ks =>
  let tr := buildWith cfg ts ks
  if ¬ buildOk cfg tr then "err:value" else
  let files := writtenFiles cfg tr nsTypes subs names
  if files.any (fun r => !isOk r) then "err:value" else
  let fs := okPaths files
  "ok " ++ semi (fs.map (fun p => encodeStr (asPosix p))) ++ " " ++
    semi ((dedup (fs.flatMap mkdirChain)).map (fun p => encodeStr (asPosix p)))

def answerGlue (args : List String) : String :=
  match args with
  | ["glue", route, sec, files, outdir, ext, stem] =>
    match glueCfg id true route sec files outdir ext stem with
    | some (.ok cfg) => s!"ok {encodeStr cfg.outDir} {encodeStr cfg.ext} {encodeStr cfg.stem}"
    | some (.error _) => "err:key"
    | none => "bad-op"
  | [op, route, sec, files, outdir, ext, stem, en, order, strops, types, refs, subs, names] =>
    if op ≠ "gtree" ∨ ¬ (en = "0" ∨ en = "1") then "bad-op" else
    match listOf strops ',' parsePair, listOf types ',' parseTy, listOf refs ',' parseTy,
          listOf subs ',' decodeStr, listOf names ',' decodeStr with
    | some tab, some ts, some refs, some subs, some names =>
      match glueCfg (fun s => (tab.lookup s).getD s) (en = "1") route sec files outdir ext stem with
      | some (.ok cfg) => answerTree false cfg.enable cfg.ext cfg.stem cfg.outDir order tab ts refs subs names
      | some (.error _) => "err:key"
      | none => "bad-op"
    | _, _, _, _, _ => "bad-op"
  | [op, nst, route, sec, files, outdir, ext, stem, en, order, strops, types, refs, subs, names] =>
    if op ≠ "grun" ∨ ¬ (en = "0" ∨ en = "1") ∨ ¬ (nst = "0" ∨ nst = "1") then "bad-op" else
    match listOf strops ',' parsePair, listOf types ',' parseTy, listOf refs ',' parseTy,
          listOf subs ',' decodeStr, listOf names ',' decodeStr with
    | some tab, some ts, some refs, some subs, some names =>
      match glueCfg (fun s => (tab.lookup s).getD s) (en = "1") route sec files outdir ext stem with
      | some (.ok cfg) => answerRun (nst = "1") cfg order tab ts refs subs names
      | some (.error _) => "err:key"
      | none => "bad-op"
    | _, _, _, _, _ => "bad-op"
  | ["resolve", cwd, links, spelled] =>
    match parseParts cwd, listOf links ',' parseLink, decodeStr spelled with
    | some cwd, some links, some spelled => showParts (resolveStr ⟨cwd, fun p => links.lookup p⟩ spelled)
    | _, _, _ => "bad-op"
  | ["exttype", raw] =>
    match decodeStr raw with
    | some raw => encodeStr (extensionType raw)
    | none => "bad-op"
  | _ => "bad-op"

def answer (line : String) : String :=
  match line.splitOn " " with
  | [op, en, ext, stem, outDir, order, strops, types, refs, subs, names] =>
    if op ≠ "tree" ∧ op ≠ "treeold" then "bad-op" else
    match decodeStr ext, decodeStr stem, decodeStr outDir, listOf strops ',' parsePair,
          listOf types ',' parseTy, listOf refs ',' parseTy, listOf subs ',' decodeStr, listOf names ',' decodeStr with
    | some ext, some stem, some outDir, some tab, some ts, some refs, some subs, some names =>
      if en = "0" ∨ en = "1" then
        answerTree (op = "treeold") (en = "1") ext stem outDir order tab ts refs subs names
      else "bad-op"
    | _, _, _, _, _, _, _, _ => "bad-op"
  | "path" :: args => answerPath args
  | args => answerGlue args

def main : IO Unit := serve answer
