import NunavutVerif.Model.Namespace
import NunavutVerif.Proto
/-!
Driver for the C11 correspondence.  One request per line, fields separated by one space; strings are
encoded as in `Proto` (code points joined by '.', `-` = empty string).

  `tree <enable 0|1> <ext> <stem> <outdir> <order> <strops> <types> <refs> <subs> <names>`
      order  : `fwd` | `rev` | the keys of the index in the order the second pass walks them, joined by ',' (`!` = none)
      strops : `name>stropped` pairs joined by ',' (`!` = none)    - the sampled `filter_id(·,"path")`
      types  : the list handed to `build_namespace_tree`, each `c1/c2/…/cn:short:major:minor`, joined by ',' (`!` = none)
      refs   : further types (dependencies living in other root namespaces), same format
      subs   : parts of the language's `support_namespace`, encoded, joined by ',' (`!` = none)
      names  : file names of the support resources (`serialization.j2`, …), encoded, joined by ',' (`!` = none)
    → `err:strop-missing` | `err:order` | `err:value` (a `ValueError` leaves `build_namespace_tree`) |
      `ok <root> <nodes> <namespaces> <datatypes> <alltypes> <find> <inc> <sup>` where
        nodes      : `key=parent=nested+nested=path=ty@path+ty@path` joined by ';' (store order; `~` = none/empty)
        namespaces : keys yielded by `get_all_namespaces`, joined by ';'
        datatypes  : `ty@path` yielded by `get_all_datatypes`, joined by ';'
        alltypes   : `N<key>` / `T<ty>@<path>` yielded by `get_all_types`
        find       : for every yielded namespace (same order) and every type of types++refs (same order)
                     `H<path>` | `K` (KeyError) | `F` (model out of fuel), joined by ';'
        inc        : for every type of types++refs `<include path as posix>@<type_to_include_path as posix>`
        sup        : `<get_support_output_folder() of every yielded namespace, joined by ';'>|<target of every support resource, joined by ';'>`
      paths are parts joined by '/', posix strings are encoded strings, errors `E<kind>`.
  `treeold …`    the same through `Namespace.__eq__` as it was before the fix (stropped full name)
  `path <op> …`  the pathlib fragment on its own:
      `path join <seg>,<seg>,…`      → parts of `PurePosixPath(*segs)`
      `path suffix <seg> <ext>`      → parts of `PurePosixPath(seg).with_suffix(ext)` | `E…`
      `path rel <seg> <seg>`         → parts of `PurePosixPath(a).relative_to(PurePosixPath(b))` | `E…`
      `path posix <seg>`             → encoded `as_posix()`
-/
open NunavutVerif NunavutVerif.Namespace NunavutVerif.Proto

def listOf (s : String) (sep : Char) (f : String → Option α) : Option (List α) :=
  if s = "!" then some [] else (splitOnChar s sep).mapM f

def parseKey (s : String) : Option Key := (splitOnChar s '/').mapM decodeStr

def parseTy (s : String) : Option Ty :=
  match splitOnChar s ':' with
  | [k, sh, ma, mi] =>
    match parseKey k, decodeStr sh, ma.toNat?, mi.toNat? with
    | some k, some sh, some ma, some mi => some ⟨k, sh, ma, mi⟩
    | _, _, _, _ => none
  | _ => none

def parsePair (s : String) : Option (Str × Str) :=
  match splitOnChar s '>' with
  | [a, b] => match decodeStr a, decodeStr b with
    | some a, some b => some (a, b)
    | _, _ => none
  | _ => none

def showKey (k : Key) : String := "/".intercalate (k.map encodeStr)
def showTy (t : Ty) : String := s!"{showKey t.ns}:{encodeStr t.short}:{t.major}:{t.minor}"
def showErr : Err → String
  | .badSuffix => "Ebad-suffix" | .emptyName => "Eempty-name" | .notRelative => "Enot-relative"
  | .keyError => "Ekey-error" | .fuel => "Efuel"
def showParts (p : Path) : String := if p.isEmpty then "~" else "/".intercalate (p.map encodeStr)
def showPathR : PathR → String
  | .ok p => showParts p
  | .error e => showErr e
def showPosix : PathR → String
  | .ok p => encodeStr (asPosix p)
  | .error e => showErr e
def semi (l : List String) : String := if l.isEmpty then "~" else ";".intercalate l
def plus (l : List String) : String := if l.isEmpty then "~" else "+".intercalate l
def showEntry (e : Ty × PathR) : String := s!"{showTy e.1}@{showPathR e.2}"

def showNode (n : Node) : String :=
  let parent := match n.parent with | some p => showKey p | none => "~"
  s!"{showKey n.comps}={parent}={plus (n.nested.map showKey)}={showPathR n.outPath}={plus (n.types.map showEntry)}"

def showItem : Item → String
  | .ns k => "N" ++ showKey k
  | .ty t p => "T" ++ showEntry (t, p)

def showFound : Found → String
  | .hit p => "H" ++ showPathR p
  | .keyError => "K"
  | .fuel => "F"

/-- `fwd` = index insertion order, `rev` = reversed, otherwise the explicit walk order of the real `set`
(must have exactly the members of the model's index). -/
def parseOrder (s : String) (idx : List Key) : Option (List Key) :=
  if s = "fwd" then some idx
  else if s = "rev" then some idx.reverse
  else match listOf s ',' parseKey with
    | some ks => if ks.all (fun k => idx.contains k) ∧ idx.all (fun k => ks.contains k) then some ks else none
    | none => none

def answerTree (old : Bool) (enable : Bool) (ext stem outDir : Str) (order : String) (tab : List (Str × Str))
    (ts refs : List Ty) (subs names : List Str) : String :=
  let needed := (ts ++ refs).flatMap (fun t => shortVer t :: t.ns) ++ (if ts.isEmpty then [[]] else [])
  if needed.any (fun n => (tab.lookup n).isNone) then "err:strop-missing" else
  let cfg : Cfg := ⟨fun s => (tab.lookup s).getD s, enable, ext, stem, outDir⟩
  match parseOrder order (loop1 cfg ts).idx with
  | none => "err:order"
  | some ks =>
  let same : Key → Key → Bool := if old then sameNsBeforeFix cfg else sameNs
  let tr := if old then buildWithBeforeFix cfg ts ks else buildWith cfg ts ks
  if ¬ buildOk cfg tr then "err:value" else
  let nss := allNamespaces tr
  let every := ts ++ refs
  let finds := nss.flatMap (fun s => every.map (fun t => showFound (findPathBy same tr.store s t)))
  let inc := every.map (fun t => s!"{showPosix (includePath cfg t)}@{showPosix (typeToIncludePath cfg tr t)}")
  let sup := semi (nss.map (fun k => showParts (baseOf cfg tr.store k))) ++ "|" ++
    semi (names.map (fun n => showPathR (supportTarget cfg tr subs n)))
  " ".intercalate ["ok", showKey tr.root, semi (tr.store.map showNode), semi (nss.map showKey),
    semi ((allDatatypes tr).map showEntry), semi ((allTypes tr).map showItem), semi finds, semi inc, sup]

def answerPath (args : List String) : String :=
  match args with
  | ["join", segs] =>
    match listOf segs ',' decodeStr with
    | some segs => showParts (ofSegs segs)
    | none => "bad-op"
  | ["suffix", seg, ext] =>
    match decodeStr seg, decodeStr ext with
    | some seg, some ext => showPathR (withSuffix (pjoin [] seg) ext)
    | _, _ => "bad-op"
  | ["rel", a, b] =>
    match decodeStr a, decodeStr b with
    | some a, some b => showPathR (relativeTo (pjoin [] a) (pjoin [] b))
    | _, _ => "bad-op"
  | ["posix", a] =>
    match decodeStr a with
    | some a => encodeStr (asPosix (pjoin [] a))
    | none => "bad-op"
  | ["parent", a] =>
    match decodeStr a with
    | some a => showParts (parentPath (pjoin [] a))
    | none => "bad-op"
  | _ => "bad-op"

def answer (line : String) : String :=
  match line.splitOn " " with
  | [op, en, ext, stem, outDir, order, strops, types, refs, subs, names] =>
    if op ≠ "tree" ∧ op ≠ "treeold" then "bad-op" else
    match decodeStr ext, decodeStr stem, decodeStr outDir, listOf strops ',' parsePair,
          listOf types ',' parseTy, listOf refs ',' parseTy, listOf subs ',' decodeStr, listOf names ',' decodeStr with
    | some ext, some stem, some outDir, some tab, some ts, some refs, some subs, some names =>
      if en = "0" ∨ en = "1" then
        answerTree (op = "treeold") (en = "1") ext stem outDir order tab ts refs subs names
      else "bad-op"
    | _, _, _, _, _, _, _, _ => "bad-op"
  | "path" :: args => answerPath args
  | _ => "bad-op"

def main : IO Unit := serve answer
