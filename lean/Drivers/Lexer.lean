import NunavutVerif.Model.LexerFull
import NunavutVerif.Model.Autoindent
import NunavutVerif.Gen.LexerTables
import NunavutVerif.Proto
/-!
Driver for the C19 correspondence.  One request per line (strings are '.'-separated code points, `-` = empty):

  `isspace <codepoint>`                       → `1` / `0`
  `root <cfg> <bol> <src>`                    → `none` | `<kind> <data> <value> <rest length>`
  `scan <cfg> <bol> <src> <inner>`            → events joined by `;`: `T <data> <kind> <value>` | `L <data>` | `E`
                                                 inner: `-` or comma list `<rest length>=<n>` / `<rest length>=x`
                                                 (what the tag state consumes when entered with that much text left)
  `norm <0|1> <src>`                          → `normalizeSource keep_trailing_newline src`
  `lp <prefix> <s>`                           → `lineprefix prefix s`
  `spec <prefix> <s>`                         → `specPrefix prefix s`
  `plain <s>`                                 → `1` / `0` (`plainLines`)
  `marker <data> <value> <plain output>`      → `renderMarker`
  `assert <0|1> <msg>`                        → `ok <str>` | `err assertion <msg>`
  `uses <q> <0|1> <name> <body> <segs>`       → `ok <str>` | `err undefined <name>` | `err syntax` | `err assertion <msg>`
                                                 q: `-` or comma list `<name>=<0|1>`; segs: `-` or `;` list `<eu|en|el|end>,<name>,<body>`

  `isword <codepoint>` / `isdigit <codepoint>`  → `1` / `0` (classes of `Gen/LexerTables.lean`)
  `lex <env> <ls> <lc> <keep> <src>`          → `Lexer.tokeniter`: tokens joined by `;`: `<lineno> <type> <value>` |
                                                 `<lineno> E <error> [<c> [<expected>]]` | `F`;  `-` when there is none
  `ptok <env> <ls> <lc> <keep> <seq> <src>`   → `wrap(tokeniter)`: `<lineno> <type> <value> <0|1 parser wraps>` | error as above
                                                 env: `<S|B|O><lstrip><trim>[o]` e.g. `B01` (`o`: parser as found); ls / lc: line statement / comment
                                                 prefix or `~` (None); seq = newline_sequence
  `tree <env> <ls> <lc> <keep> <seq> <src>`   → lexer → tags → `Parser.subparse`: `ok <nodes>` | `err eof` | `err unknown <name>` |
                                                 `err fuel` | `none` (lexer error / open tag); nodes joined by `,`:
                                                 `t:<s>` `e:<expr>` `E:<prefix>:<expr>` `s:<name>:<arg>` `S:<name>:<arg>[<body>][<else>]` `B:<prefix>[<body>]`
  `render <env> <ls> <lc> <keep> <seq> <src> <exprs> <conds> <counts> <simples>` → `ok <text>` | `none`
                                                 valuations: `-` or comma lists `<key>=<text>`, `<key>=<0|1>`, `<key>=<n>`, `<name>/<arg>=<text>`

  `assertat <0|1> <msg|~> <lineno> <name>`    → `ok <str>` | `err assertion <msg> <lineno> <name>`
  `qv <q> <0|1> <N|O|S:<name>>`               → `ok <0|1>` | `err undefined <name>` | `err unknown-query-name` | `err type`
  `builder <trim> <lstrip>`                   → the lexer settings of `CodeGenEnvironmentBuilder` in that state, space separated

cfg: `S0` `S1` (upstream, lstrip off/on), `B0` `B1` (bundled, repaired), `O0` `O1` (bundled before the fix).
-/
open NunavutVerif NunavutVerif.Lexer NunavutVerif.Proto

def parseCfg (s : String) : Option Cfg :=
  if s = "S0" then some (stock false) else if s = "S1" then some (stock true)
  else if s = "B0" then some (bundled false) else if s = "B1" then some (bundled true)
  else if s = "O0" then some (bundledBeforeFix false) else if s = "O1" then some (bundledBeforeFix true)
  else none

def parseBool (s : String) : Option Bool :=
  if s = "1" then some true else if s = "0" then some false else none

def kindName : Kind → String
  | .raw => "raw" | .variable => "variable" | .comment => "comment" | .block => "block"

def parseInner (s : String) : Option (List (Nat × Option Nat)) :=
  if s = "-" then some [] else
  (splitOnChar s ',').mapM fun t =>
    match t.splitOn "=" with
    | [a, b] =>
      match a.toNat? with
      | some k => if b = "x" then some (k, none) else b.toNat?.map fun n => (k, some n)
      | none => none
    | _ => none

def innerOf (tab : List (Nat × Option Nat)) (_ : Kind) (rest : Str) : Option Nat :=
  match tab.lookup rest.length with
  | some r => r
  | none => none

def showEv : Ev → String
  | .tag d k v => s!"T {encodeStr d} {kindName k} {encodeStr v}"
  | .tail d => s!"L {encodeStr d}"
  | .error => "E"

def parseQ (s : String) : Option (List (Str × Bool)) :=
  if s = "-" then some [] else
  (splitOnChar s ',').mapM fun t =>
    match t.splitOn "=" with
    | [a, b] =>
      match decodeStr a, parseBool b with
      | some n, some v => some (n, v)
      | _, _ => none
    | _ => none

def parseSegs (s : String) : Option (List Seg) :=
  if s = "-" then some [] else
  (splitOnChar s ';').mapM fun t =>
    match splitOnChar t ',' with
    | [tg, n, b] =>
      let tag : Option Tag :=
        if tg = "eu" then some .elifuses else if tg = "en" then some .elifnuses
        else if tg = "el" then some .else_ else if tg = "end" then some .end_ else none
      match tag, decodeStr n, decodeStr b with
      | some tg, some n, some b => some ⟨tg, n, b⟩
      | _, _, _ => none
    | _ => none

def showRes : Except Err Str → String
  | .ok s => s!"ok {encodeStr s}"
  | .error (.assertion m) => s!"err assertion {encodeStr m}"
  | .error (.undefinedQuery n) => s!"err undefined {encodeStr n}"
  | .error .syntax => "err syntax"
  | .error .unknownQueryName => "err unknown-query-name"
  | .error .typeError => "err type"


/-! ### whole-lexer ops -/

def inRanges (n : Nat) : List (Nat × Nat) → Bool
  | [] => false
  | (a, b) :: rs => if n < a then false else if n ≤ b then true else inRanges n rs

def realTables : Tables where
  isWord c := inRanges c.toNat Gen.LexerTables.wordRanges
  isDigit c := inRanges c.toNat Gen.LexerTables.digitRanges
  operators := Gen.LexerTables.operators

def parseOptStr (s : String) : Option (Option Str) :=
  if s = "~" then some none else (decodeStr s).map some

/-- a fourth character `o` selects the parser as found (marker test `endswith('*')`) for `ptok` / `tree` / `render` -/
def oldParser (s : String) : Bool := s.length = 4 && s.back = 'o'

def parseEnv (s0 ls lc : String) : Option Env :=
  let s := if oldParser s0 then (s0.dropEnd 1).toString else s0
  match s.toList, parseOptStr ls, parseOptStr lc with
  | [v, l, t], some ls, some lc =>
    let flags : Option (Bool × Bool) :=
      if v = 'S' then some (false, false) else if v = 'B' then some (true, false)
      else if v = 'O' then some (true, true) else none
    match flags, parseBool (String.singleton l), parseBool (String.singleton t) with
    | some (st, cs), some l, some t => some ⟨st, cs, l, t, ls, lc⟩
    | _, _, _ => none
  | _, _, _ => none

def ttName : TT → String
  | .data => "data" | .rawBegin => "raw_begin" | .variableBegin => "variable_begin" | .commentBegin => "comment_begin"
  | .blockBegin => "block_begin" | .lstmtBegin => "linestatement_begin" | .lcmtBegin => "linecomment_begin"
  | .comment => "comment" | .commentEnd => "comment_end" | .blockEnd => "block_end" | .variableEnd => "variable_end"
  | .rawEnd => "raw_end" | .lstmtEnd => "linestatement_end" | .lcmt => "linecomment" | .lcmtEnd => "linecomment_end"
  | .whitespace => "whitespace" | .float => "float" | .integer => "integer" | .name => "name" | .string => "string"
  | .operator => "operator"

def errName : LexErr → String
  | .missingComment => "missing-comment"
  | .missingRaw => "missing-raw"
  | .unexpectedChar c => s!"unexpected-char {c.toNat}"
  | .unexpectedClose c => s!"unexpected-close {c.toNat}"
  | .unexpectedCloseExpected c e => s!"unexpected-close {c.toNat} {e.toNat}"

def showTok : Nat × Tok → String
  | (l, .tok t v) => s!"{l} {ttName t} {encodeStr v}"
  | (l, .err e) => s!"{l} E {errName e}"
  | (_, .outOfFuel) => "F"

def showPTok (old : Bool) (p : PTok) : String :=
  match p with
  | .tok l t v => s!"{l} {ttName t} {encodeStr v} {if (if old then parserWrapsBeforeFix p else parserWraps p) then 1 else 0}"
  | .err l e => s!"{l} E {errName e}"
  | .outOfFuel => "F"

def joinOr (xs : List String) : String := if xs.isEmpty then "-" else ";".intercalate xs

def answerFull (line : String) : Option String :=
  match line.splitOn " " with
  | ["isword", n] => n.toNat?.map fun k => if realTables.isWord (Char.ofNat k) then "1" else "0"
  | ["isdigit", n] => n.toNat?.map fun k => if realTables.isDigit (Char.ofNat k) then "1" else "0"
  | ["lex", env, ls, lc, keep, src] =>
    match parseEnv env ls lc, parseBool keep, decodeStr src with
    | some e, some keep, some src => some (joinOr ((linenos 1 (tokeniter e realTables keep src)).map showTok))
    | _, _, _ => none
  | ["ptok", env, ls, lc, keep, seq, src] =>
    match parseEnv env ls lc, parseBool keep, decodeStr seq, decodeStr src with
    | some e, some keep, some seq, some src => some (joinOr ((tokenize e realTables keep seq src).map (showPTok (oldParser env))))
    | _, _, _, _ => none
  | _ => none

/-! ### subparse / render ops -/

mutual
def showNode : Node → String
  | .text s => s!"t:{encodeStr s}"
  | .expr e => s!"e:{encodeStr e}"
  | .exprWrapped p e => s!"E:{encodeStr p}:{encodeStr e}"
  | .stmt n a b alt => s!"S:{encodeStr n}:{encodeStr a}[{showNodes b}][{showNodes alt}]"
  | .simple n a => s!"s:{encodeStr n}:{encodeStr a}"
  | .blockWrapped p b => s!"B:{encodeStr p}[{showNodes b}]"
def showNodes : List Node → String
  | [] => ""
  | [n] => showNode n
  | n :: m :: ns => showNode n ++ "," ++ showNodes (m :: ns)
end

def parsePairs (s : String) : Option (List (String × String)) :=
  if s = "-" then some [] else
  (splitOnChar s ',').mapM fun t =>
    match t.splitOn "=" with
    | [a, b] => some (a, b)
    | _ => none

def lookupStr (tab : List (String × String)) (key : String) : Option String := tab.lookup key

def mkVal (exprs conds counts simples : List (String × String)) : Val where
  expr e := match lookupStr exprs (encodeStr e) with | some v => (decodeStr v).getD [] | none => []
  cond c := match lookupStr conds (encodeStr c) with | some v => v = "1" | none => false
  count c := match lookupStr counts (encodeStr c) with | some v => v.toNat?.getD 0 | none => 0
  simple n a := match lookupStr simples (encodeStr n ++ "/" ++ encodeStr a) with | some v => (decodeStr v).getD [] | none => []

def answerParse (line : String) : Option String :=
  match line.splitOn " " with
  | ["tree", env, ls, lc, keep, seq, src] =>
    match parseEnv env ls lc, parseBool keep, decodeStr seq, decodeStr src with
    | some e, some keep, some seq, some src =>
      match groupItems none (tokenize e realTables keep seq src) with
      | none => some "none"
      | some items =>
        match parseItems (if oldParser env then coreStmtsBeforeFix else coreStmts) items with
        | .ok ns => some s!"ok {showNodes ns}"
        | .error .unexpectedEof => some "err eof"
        | .error (.unknownTag n) => some s!"err unknown {encodeStr n}"
        | .error .outOfFuel => some "err fuel"
    | _, _, _, _ => none
  | ["render", env, ls, lc, keep, seq, src, ex, co, cn, si] =>
    match parseEnv env ls lc, parseBool keep, decodeStr seq, decodeStr src, parsePairs ex, parsePairs co, parsePairs cn, parsePairs si with
    | some e, some keep, some seq, some src, some ex, some co, some cn, some si =>
      match renderTemplate e realTables (if oldParser env then coreStmtsBeforeFix else coreStmts) (mkVal ex co cn si) keep seq src with
      | some out => some s!"ok {encodeStr out}"
      | none => some "none"
    | _, _, _, _, _, _, _, _ => none
  | _ => none

def answer (line : String) : String :=
  match answerFull line with
  | some a => a
  | none =>
  match answerParse line with
  | some a => a
  | none =>
  match line.splitOn " " with
  | ["isspace", n] =>
    match n.toNat? with
    | some k => if isSpace (Char.ofNat k) then "1" else "0"
    | none => "bad-op"
  | ["root", cfg, bol, src] =>
    match parseCfg cfg, parseBool bol, decodeStr src with
    | some cfg, some bol, some src =>
      match rootStep cfg bol src with
      | none => "none"
      | some st => s!"{kindName st.kind} {encodeStr st.data} {encodeStr st.value} {st.rest.length}"
    | _, _, _ => "bad-op"
  | ["scan", cfg, bol, src, inner] =>
    match parseCfg cfg, parseBool bol, decodeStr src, parseInner inner with
    | some cfg, some bol, some src, some tab =>
      let evs := scan cfg (innerOf tab) (src.length + 1) bol src
      if evs.isEmpty then "-" else ";".intercalate (evs.map showEv)
    | _, _, _, _ => "bad-op"
  | ["norm", k, s] =>
    match parseBool k, decodeStr s with
    | some k, some s => encodeStr (normalizeSource k s)
    | _, _ => "bad-op"
  | ["lp", p, s] =>
    match decodeStr p, decodeStr s with
    | some p, some s => encodeStr (lineprefix p s)
    | _, _ => "bad-op"
  | ["spec", p, s] =>
    match decodeStr p, decodeStr s with
    | some p, some s => encodeStr (specPrefix p s)
    | _, _ => "bad-op"
  | ["plain", s] =>
    match decodeStr s with
    | some s => if plainLines s then "1" else "0"
    | none => "bad-op"
  | ["marker", d, v, o] =>
    match decodeStr d, decodeStr v, decodeStr o with
    | some d, some v, some o => encodeStr (renderMarker d v o)
    | _, _, _ => "bad-op"
  | ["assert", t, m] =>
    match parseBool t, decodeStr m with
    | some t, some m => showRes (doAssert t m)
    | _, _ => "bad-op"
  | ["uses", q, ng, n, b, segs] =>
    match parseQ q, parseBool ng, decodeStr n, decodeStr b, parseSegs segs with
    | some q, some ng, some n, some b, some segs =>
      match parseUses ng n b segs with
      | .ok node => showRes (evalIf (fun x => q.lookup x) node)
      | .error e => showRes (.error e)
    | _, _, _, _, _ => "bad-op"
  | ["assertat", t, m, l, n] =>
    match parseBool t, parseOptStr m, l.toNat?, decodeStr n with
    | some t, some m, some l, some n =>
      match doAssertAt t m l n with
      | .ok s => s!"ok {encodeStr s}"
      | .error f => s!"err assertion {encodeStr f.msg} {f.lineno} {encodeStr f.name}"
    | _, _, _, _ => "bad-op"
  | ["qv", q, ng, n] =>
    let qn : Option QName :=
      if n = "N" then some .none_ else if n = "O" then some .other
      else if n.startsWith "S:" then (decodeStr (n.drop 2).toString).map QName.str else none
    match parseQ q, parseBool ng, qn with
    | some q, some ng, some qn =>
      match useQueryV (fun x => q.lookup x) ng qn with
      | .ok b => if b then "ok 1" else "ok 0"
      | .error e => showRes (.error e)
    | _, _, _ => "bad-op"
  | ["builder", t, l] =>
    match parseBool t, parseBool l with
    | some t, some l =>
      let s := builderSettings ⟨t, l⟩
      let o (x : Option Str) := match x with | some v => encodeStr v | none => "~"
      let b (x : Bool) := if x then "1" else "0"
      s!"{encodeStr s.blockStart} {encodeStr s.blockEnd} {encodeStr s.variableStart} {encodeStr s.variableEnd} {encodeStr s.commentStart} {encodeStr s.commentEnd} {o s.lineStatementPrefix} {o s.lineCommentPrefix} {b s.trimBlocks} {b s.lstripBlocks} {encodeStr s.newlineSequence} {b s.keepTrailingNewline}"
    | _, _ => "bad-op"
  | _ => "bad-op"

def main : IO Unit := serve answer
