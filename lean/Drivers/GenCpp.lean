import NunavutVerif.Model.Dsdl
import NunavutVerif.Model.GenCpp
import NunavutVerif.Proto
/-!
Driver `gencpp`: the codec line protocol (`harness/CODEC_PROTOCOL.md`) answered by the implementation-shaped model
`Model/GenCpp.lean` of the generated C++ code.

  `[@OPT] ser <T> <V>`           → `ok <hex>` | `err:<kind>`      span over a buffer of the advertised size, pre-filled 0xFF
  `[@OPT] serbuf <T> <V> <cap>`  → `ok <hex>` | `err:<kind>`      span over exactly `cap` bytes, pre-filled with 0x55
  `[@OPT] de <T> <hex>`          → `ok <V> <consumed bytes>` | `err:<kind>`
  `[@OPT] paths ser|de <T>`      → `ok <token> <token> …`         bitspan-method sequence of `T`'s own function

`@OPT` = `@cpp`, optionally `,asserts` (enable_serialization_asserts: a failing NUNAVUT_ASSERT is answered
`err:assert`; `paths` then lists the emitted assertions too), `,orc=never` (oracle that never claims alignment;
default: the exact oracle), `,prior=junk` (the destination object of `de` holds non-default contents of the right
shape; default: a value-initialised object, as the harness shim does) and `,noclear` (the template before fix
46d1abc: no `clear()` before the `push_back` loop).  A model-level failure of a primitive (never expected; proved
unreachable) is answered `err:prim-<name>`.  For `ser`/`serbuf` the answer `ok` also requires that nothing beyond the
returned size was written (as the shim checks): otherwise `err:wrote-beyond-reported-size`.

The request syntax (types, values, hex) is that of `Drivers/Codec.lean`; the parser below is a copy of that file's
(a driver module defines `main` and cannot be imported).
-/
open NunavutVerif NunavutVerif.Dsdl NunavutVerif.Proto

/-! ### Tokens and generic S-expressions -/

inductive Tok where
  | open (c : Char)     -- ( [ { <
  | close (c : Char)    -- ) ] } >
  | atom (s : String)
  deriving Repr, BEq

def isOpen (c : Char) : Bool := c = '(' || c = '[' || c = '{' || c = '<'
def isClose (c : Char) : Bool := c = ')' || c = ']' || c = '}' || c = '>'
def closerOf (c : Char) : Char :=
  if c = '(' then ')' else if c = '[' then ']' else if c = '{' then '}' else '>'

def flushAtom (cur : List Char) (acc : List Tok) : List Tok :=
  if cur.isEmpty then acc else Tok.atom (String.ofList cur.reverse) :: acc

/-- Tokens in reverse order. -/
def tokenizeAux : List Char → List Char → List Tok → List Tok
  | [], cur, acc => flushAtom cur acc
  | c :: cs, cur, acc =>
    if c = ' ' then tokenizeAux cs [] (flushAtom cur acc)
    else if isOpen c then tokenizeAux cs [] (Tok.open c :: flushAtom cur acc)
    else if isClose c then tokenizeAux cs [] (Tok.close c :: flushAtom cur acc)
    else tokenizeAux cs (c :: cur) acc

def tokenize (s : String) : List Tok := (tokenizeAux s.toList [] []).reverse

/-- Generic bracketed tree. -/
inductive Sx where
  | atom (s : String)
  | node (br : Char) (xs : List Sx)
  deriving Inhabited

mutual
partial def parseSx : List Tok → Option (Sx × List Tok)
  | Tok.atom s :: rest => some (Sx.atom s, rest)
  | Tok.open c :: rest =>
    match parseSxList (closerOf c) rest with
    | some (xs, rest') => some (Sx.node c xs, rest')
    | none => none
  | _ => none
partial def parseSxList (cl : Char) : List Tok → Option (List Sx × List Tok)
  | Tok.close c :: rest => if c = cl then some ([], rest) else none
  | toks =>
    match parseSx toks with
    | some (x, rest) =>
      match parseSxList cl rest with
      | some (xs, rest') => some (x :: xs, rest')
      | none => none
    | none => none
end

partial def parseAll (toks : List Tok) : Option (List Sx) :=
  match toks with
  | [] => some []
  | _ =>
    match parseSx toks with
    | some (x, rest) => (parseAll rest).map (x :: ·)
    | none => none

/-! ### Types -/

def parseCast (s : String) : Option Cast :=
  if s = "s" then some .sat else if s = "t" then some .trunc else none

mutual
partial def toTy : Sx → Option Ty
  | Sx.node '(' (Sx.atom "u" :: Sx.atom n :: Sx.atom m :: []) => do
    let n ← n.toNat?; let m ← parseCast m
    if 1 ≤ n ∧ n ≤ 64 then some (.uint n m) else none
  | Sx.node '(' (Sx.atom "i" :: Sx.atom n :: Sx.atom m :: []) => do
    let n ← n.toNat?; let m ← parseCast m
    if 2 ≤ n ∧ n ≤ 64 then some (.sint n m) else none
  | Sx.node '(' (Sx.atom "f" :: Sx.atom n :: Sx.atom m :: []) => do
    let n ← n.toNat?; let m ← parseCast m
    if n = 16 ∨ n = 32 ∨ n = 64 then some (.float n m) else none
  | Sx.node '(' (Sx.atom "b" :: []) => some .bool
  | Sx.node '(' (Sx.atom "v" :: Sx.atom n :: []) => do let n ← n.toNat?; some (.void n)
  | Sx.node '(' (Sx.atom "a" :: t :: Sx.atom n :: []) => do
    let t ← toTy t; let n ← n.toNat?; some (.arr t n)
  | Sx.node '(' (Sx.atom "l" :: t :: Sx.atom n :: []) => do
    let t ← toTy t; let n ← n.toNat?; some (.varr t n)
  | Sx.node '(' (Sx.atom "s" :: fs) => do let fs ← toTys fs; some (.struct fs)
  | Sx.node '(' (Sx.atom "n" :: fs) => do let fs ← toTys fs; some (.union fs)
  | Sx.node '(' (Sx.atom "d" :: Sx.atom e :: c :: []) => do
    let e ← e.toNat?; let c ← toTy c
    if isComposite c then some (.delim e c) else none
  | _ => none
partial def toTys : List Sx → Option (List Ty)
  | [] => some []
  | x :: xs => do let t ← toTy x; let ts ← toTys xs; some (t :: ts)
end

/-! ### Values -/

def hexDigit (c : Char) : Option Nat :=
  if '0' ≤ c ∧ c ≤ '9' then some (c.toNat - '0'.toNat)
  else if 'a' ≤ c ∧ c ≤ 'f' then some (c.toNat - 'a'.toNat + 10)
  else if 'A' ≤ c ∧ c ≤ 'F' then some (c.toNat - 'A'.toNat + 10)
  else none

def parseHexNat (cs : List Char) : Option Nat :=
  cs.foldlM (fun acc c => (hexDigit c).map (acc * 16 + ·)) 0

def parseFloat (s : String) : Option Nat :=
  if s = "xNaN" then some 0x7FF8000000000000 else
  match s.toList with
  | 'x' :: ds => if ds.length = 16 then parseHexNat ds else none
  | _ => none

mutual
partial def toVal : Ty → Sx → Option Val
  | .uint _ _, Sx.atom s => s.toInt?.map Val.int
  | .sint _ _, Sx.atom s => s.toInt?.map Val.int
  | .float _ _, Sx.atom s => (parseFloat s).map Val.float
  | .bool, Sx.atom s => if s = "0" then some (.bool false) else if s = "1" then some (.bool true) else none
  | .void _, Sx.atom s => if s = "_" then some .void else none
  | .arr t _, Sx.node '[' xs => (toVals t xs).map Val.arr
  | .varr t _, Sx.node '[' xs => (toVals t xs).map Val.arr
  | .struct fs, Sx.node '{' xs => (toFieldVals fs xs).map Val.struct
  | .union fs, Sx.node '<' (Sx.atom k :: x :: []) => do
    let k ← k.toNat?
    match fs[k]? with
    | some f => let v ← toVal f x; some (.union k v)
    | none => some (.union k .void)       -- no such option: must be rejected by the serializer
  | .delim _ inner, x => toVal inner x
  | _, _ => none
partial def toVals (t : Ty) : List Sx → Option (List Val)
  | [] => some []
  | x :: xs => do let v ← toVal t x; let vs ← toVals t xs; some (v :: vs)
partial def toFieldVals : List Ty → List Sx → Option (List Val)
  | [], [] => some []
  | f :: fs, x :: xs => do let v ← toVal f x; let vs ← toFieldVals fs xs; some (v :: vs)
  | _, _ => none
end

def hexChar (n : Nat) : Char := if n < 10 then Char.ofNat (48 + n) else Char.ofNat (87 + n)

def hexByte (b : Nat) : String := String.ofList [hexChar (b / 16 % 16), hexChar (b % 16)]

def hexBytes (bs : List Nat) : String :=
  if bs.isEmpty then "-" else String.join (bs.map hexByte)

def hex64 (x : Nat) : String :=
  String.ofList ((List.range 16).map fun i => hexChar (x / 16 ^ (15 - i) % 16))

partial def showVal : Val → String
  | .int i => toString i
  | .bool b => if b then "1" else "0"
  | .float x => if isNaN64 x then "xNaN" else "x" ++ hex64 x
  | .void => "_"
  | .arr vs => "[" ++ " ".intercalate (vs.map showVal) ++ "]"
  | .struct vs => "{" ++ " ".intercalate (vs.map showVal) ++ "}"
  | .union k v => "<" ++ toString k ++ " " ++ showVal v ++ ">"

def parseHexBytes (s : String) : Option (List Nat) :=
  if s = "-" then some [] else
  let rec go : List Char → Option (List Nat)
    | [] => some []
    | a :: b :: rest => do
      let x ← hexDigit a; let y ← hexDigit b; let r ← go rest; some ((x * 16 + y) :: r)
    | _ => none
  go s.toList

/-! ### GenCpp answers -/

open NunavutVerif.GenCpp
open NunavutVerif.GenC (AOff resBits exactOrc isStd storW trivVal)

def showErr : GenC.Err → String
  | .prim e => "err:prim-" ++ e.name
  | .illTyped => "bad-op"
  | .assert => "err:assert"
  | .ret c =>
    if c = -3 then "err:buffer-too-small"
    else if c = -10 then "err:bad-array-length"
    else if c = -11 then "err:bad-union-tag"
    else if c = -12 then "err:bad-delimiter-header"
    else "err:code" ++ toString c

/-- the shim's `tail_untouched` check is part of the answer -/
def showSer (fill : Nat) : Except GenC.Err (Bits.Buf × Nat) → String
  | .ok (b, n) =>
    if (b.drop n).all (· == fill) then "ok " ++ hexBytes (b.take n) else "err:wrote-beyond-reported-size"
  | .error e => showErr e

def neverOrc : AOff → Bool := fun _ => false

structure DOpts where
  o : Opts
  junk : Bool := false

/-- `@cpp`, `@cpp,asserts,orc=never,prior=junk,noclear` -/
def parseOpts (s : String) : Option DOpts :=
  match (s.drop 1).toString.splitOn "," with
  | [] => none
  | e :: rest =>
    let base : Option DOpts := if e = "cpp" then some { o := { orc := exactOrc } } else none
    rest.foldl (fun acc kv => acc.bind fun d =>
      match kv.splitOn "=" with
      | ["asserts"] => some { d with o := { d.o with asserts := true } }
      | ["noclear"] => some { d with o := { d.o with clearFirst := false } }
      | ["orc", "never"] => some { d with o := { d.o with orc := neverOrc } }
      | ["orc", "exact"] => some d
      | ["prior", "junk"] => some { d with junk := true }
      | ["prior", "default"] => some d
      | _ => none) base

/-! ### a destination object with non-default contents -/

mutual
partial def junkVal : Ty → Val
  | .uint n _ => .int (if n ≥ 3 then 5 else 1)
  | .sint _ _ => .int (-1)
  | .float _ _ => .float 0x3FF8000000000000
  | .bool => .bool true
  | .void _ => .void
  | .arr t n => .arr (List.replicate n (junkVal t))
  | .varr t c => .arr (List.replicate (min c 2) (junkVal t))
  | .struct fs => .struct (fs.map junkVal)
  | .union fs =>
    match fs.getLast? with
    | some f => .union (fs.length - 1) (junkVal f)
    | none => .union 0 .void
  | .delim _ inner => junkVal inner
end

/-! ### Static method sequence (structural tie with the generated text) -/

def tok (o : Opts) (s : String) : List String := if o.asserts then [s] else []

/-- the assertions at the head of `_serialize_any` -/
def guardS (o : Opts) (t : Ty) (d : AOff) : List String :=
  (if align t > 1 then tok o "a:al8" else []) ++ (if o.orc d then tok o "a:byte" else []) ++
    (if maxBits t > 0 then tok o ("a:room:" ++ toString (maxBits t)) else [])

def guardD (o : Opts) (t : Ty) (d : AOff) : List String :=
  (if align t > 1 then tok o "a:al8" else []) ++ (if o.orc d then tok o "a:byte" else [])

def sizeAsserts (o : Opts) (name : String) (t : Ty) : List String :=
  if minBits t == maxBits t then tok o name else tok o name ++ tok o name

def intSer (signed : Bool) (n : Nat) (sat : Bool) : List String :=
  (if sat ∧ ¬ isStd n then ["sat"] else []) ++ [(if signed then "setixx:" else "setuxx:") ++ toString n]

def compositeSer (o : Opts) (isDelim : Bool) (inner : Ty) : List String :=
  [if isDelim then "subspan:32" else "subspan:0"] ++ tok o "a:sub" ++ ["call"] ++ sizeAsserts o "a:nsize" inner ++
    (if isDelim then ["setuxx:32"] else [])

mutual
partial def pathsSerAny (o : Opts) (t : Ty) (d : AOff) : List String :=
  guardS o t d ++
  match t with
  | .uint n m => intSer false n (m == .sat)
  | .sint n m => intSer true n (m == .sat)
  | .float n m => (if m == .sat ∧ n = 16 then ["sat"] else []) ++ ["setf:" ++ toString n]
  | .bool => ["setbit"]
  | .void n => ["zeros:" ++ toString n]
  | .arr e n =>
    ["loop"] ++ pathsSerAny o e (d.add (AOff.rangeRep (resBits e) (n - 1) AOff.zero)) ++ sizeAsserts o "a:asize" (.arr e n)
  | .varr e c =>
    ["lencheck", "setuxx:" ++ toString (prefixBits c)] ++
      (if o.orc (d.add (AOff.single (prefixBits c))) then tok o "a:byte" else []) ++
      ["loop"] ++ pathsSerAny o e (d.add (resBits (.varr e c)))
  | .struct fs => compositeSer o false (.struct fs)
  | .union fs => compositeSer o false (.union fs)
  | .delim _ inner => compositeSer o true inner
partial def pathsSerFields (o : Opts) : List Ty → Bool → AOff → List String
  | [], _, _ => []
  | f :: fs, first, d =>
    let dF := d.pad (align f)
    (if first ∨ align f ≤ 1 then [] else ["pad"]) ++ pathsSerAny o f dF ++
      pathsSerFields o fs false (dF.add (resBits f))
end

def pathsSerTop (o : Opts) (t : Ty) : List String :=
  if maxBits t = 0 then [] else
  let body : List String :=
    match t with
    | .struct fs => pathsSerFields o fs true AOff.zero
    | .union fs =>
      ["setuxx:" ++ toString (tagBits fs.length)] ++
        (fs.flatMap fun f => "opt" :: pathsSerAny o f (AOff.single (tagBits fs.length))) ++ ["tagerr"]
    | _ => ["?"]
  ["capcheck"] ++ tok o "a:byte" ++ body ++ ["pad"] ++ sizeAsserts o "a:fsize" t ++ tok o "a:byte"

def intDe (signed : Bool) (n : Nat) : String :=
  (if signed then "geti:" else "getu:") ++ toString (storW n) ++ ":" ++ toString n

def compositeDe (o : Opts) (isDelim : Bool) : List String :=
  (if isDelim then [intDe false 32, "hdrcheck"] else []) ++ tok o "a:byte" ++
    [if isDelim then "call:bytes" else "call:rest"] ++ (if isDelim then tok o "a:byte" else [])

mutual
partial def pathsDeAny (o : Opts) (t : Ty) (d : AOff) : List String :=
  guardD o t d ++
  match t with
  | .uint n _ => [intDe false n]
  | .sint n _ => [intDe true n]
  | .float n _ => ["getf:" ++ toString n]
  | .bool => ["getbit"]
  | .void n => ["skip:" ++ toString n]
  | .arr e n => ["loop"] ++ pathsDeAny o e (d.add (AOff.rangeRep (resBits e) (n - 1) AOff.zero))
  | .varr e c =>
    [intDe false (prefixBits c), "lencheck"] ++ (if o.clearFirst then ["clear"] else []) ++ ["reserve"] ++
      (if o.orc (d.add (AOff.single (prefixBits c))) then tok o "a:byte" else []) ++
      ["loop"] ++ pathsDeAny o e (d.add (resBits (.varr e c))) ++ ["push"]
  | .struct _ => compositeDe o false
  | .union _ => compositeDe o false
  | .delim _ _ => compositeDe o true
partial def pathsDeFields (o : Opts) : List Ty → Bool → AOff → List String
  | [], _, _ => []
  | f :: fs, first, d =>
    let dF := d.pad (align f)
    (if first ∨ align f ≤ 1 then [] else ["pad"]) ++ pathsDeAny o f dF ++
      pathsDeFields o fs false (dF.add (resBits f))
end

def pathsDeTop (o : Opts) (t : Ty) : List String :=
  if maxBits t = 0 then [] else
  let body : List String :=
    match t with
    | .struct fs => pathsDeFields o fs true AOff.zero
    | .union fs =>
      [intDe false (tagBits fs.length)] ++
        (fs.flatMap fun f => "opt" :: "emplace" :: pathsDeAny o f (AOff.single (tagBits fs.length))) ++ ["tagerr"]
    | _ => ["?"]
  ["capbits"] ++ body ++ ["pad"] ++ tok o "a:byte" ++ ["got"] ++ tok o "a:got"

def answerWith (d : DOpts) (req : List Sx) : String :=
  let o := d.o
  match req with
  | [Sx.atom "ser", t, v] =>
    match toTy t with
    | some t => match toVal t v with
      | some v =>
        let cap := (maxBits (topInner t) + 7) / 8
        showSer 255 (serializeCpp o t v (List.replicate cap 255))
      | none => "bad-op"
    | none => "bad-op"
  | [Sx.atom "serbuf", t, v, Sx.atom cap] =>
    match toTy t, cap.toNat? with
    | some t, some cap => match toVal t v with
      | some v => showSer 85 (serializeCpp o t v (List.replicate cap 85))
      | none => "bad-op"
    | _, _ => "bad-op"
  | [Sx.atom "de", t, Sx.atom hex] =>
    match toTy t, parseHexBytes hex with
    | some t, some bytes =>
      match deserializeCpp o t (if d.junk then junkVal t else trivVal t) bytes with
      | .ok (v, n) => "ok " ++ showVal v ++ " " ++ toString n
      | .error e => showErr e
    | _, _ => "bad-op"
  | [Sx.atom "paths", Sx.atom dir, t] =>
    match toTy t with
    | some t =>
      let ps := if dir = "ser" then pathsSerTop o (topInner t) else pathsDeTop o (topInner t)
      "ok" ++ String.join (ps.map fun p => " " ++ p)
    | none => "bad-op"
  | _ => "bad-op"

def answer (line : String) : String :=
  if line.startsWith "@" then
    match line.splitOn " " with
    | optTok :: rest =>
      match parseOpts optTok, parseAll (tokenize (" ".intercalate rest)) with
      | some o, some req => answerWith o req
      | _, _ => "bad-op"
    | [] => "bad-op"
  else
    match parseAll (tokenize line) with
    | some req => answerWith { o := { orc := exactOrc } } req
    | none => "bad-op"

def main : IO Unit := serve answer
