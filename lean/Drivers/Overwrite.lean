import NunavutVerif.Model.Overwrite
import NunavutVerif.Proto
/-!
Driver for the C12 correspondence.  One request per line:

  `hist <root 0|1>,<createMode> <initfs> <runs>`

* `initfs`: `-` or `|`-separated `path=content=mode` (mode decimal)
* `runs`: `;`-separated `<allow 0|1>:<pps>:<writes>`
  * `pps`: `-` or `,`-separated `M<mode>` (SetFileMode) / `E<table>` (external program; `table` is `-` or
    `+`-separated `in>out` (edited in place) / `in>out~mode` (the program left that mode: temp file + rename,
    or chmod) / `in>!` (= exits non-zero); a content not in the table fails)
  * `writes`: `-` or `,`-separated `path=content=kind`, kind `R` (rendered), `X` (template raises after
    writing `content`), `C<mode>` (`shutil.copy` from a resource with that mode)

Answer: per run, `;`-separated, `<status>#<ops>#<fs>`:
* status `ok` | `conflict@p` | `eacces@p` | `render@p` | `pp@p@i`
* ops `-` or `,`-separated `chmod@p@mode` `mkdirs@p` `open@p` `denied@p` `exec@p@i` `exec@p@i@mode`
* fs  `-` or `|`-separated `path=content=mode` over all paths named in the request, sorted.
-/
open NunavutVerif NunavutVerif.Overwrite NunavutVerif.Proto

def parseList (s : String) (sep : Char) : List String :=
  if s = "-" then [] else splitOnChar s sep

def parseFile (s : String) : Option (Path × File) :=
  match splitOnChar s '=' with
  | [p, c, m] => m.toNat?.map fun m => (p, ⟨c, m⟩)
  | _ => none

def parseTable (s : String) : Option (List (Content × Option (Content × Option Nat))) :=
  (parseList s '+').mapM fun t =>
    match splitOnChar t '>' with
    | [a, b] =>
      if b = "!" then some (a, none) else
      match splitOnChar b '~' with
      | [c] => some (a, some (c, none))
      | [c, m] => m.toNat?.map fun m => (a, some (c, some m))
      | _ => none
    | _ => none

def parsePP (s : String) : Option FilePP :=
  if s.startsWith "M" then (s.drop 1).toString.toNat?.map FilePP.setMode
  else if s.startsWith "E" then
    (parseTable (s.drop 1).toString).map fun tbl =>
      FilePP.edit fun c => (tbl.lookup c).bind id
  else none

def parseWrite (s : String) : Option Write :=
  match splitOnChar s '=' with
  | [p, c, k] =>
    if k = "R" then some ⟨p, c, true, none⟩
    else if k = "X" then some ⟨p, c, false, none⟩
    else if k.startsWith "C" then (k.drop 1).toString.toNat?.map fun m => ⟨p, c, true, some m⟩
    else none
  | _ => none

def parseRun (s : String) : Option Run :=
  match splitOnChar s ':' with
  | [a, pps, ws] =>
    if a ≠ "0" ∧ a ≠ "1" then none else
    match (parseList pps ',').mapM parsePP, (parseList ws ',').mapM parseWrite with
    | some pps, some ws => some ⟨a = "1", pps, ws⟩
    | _, _ => none
  | _ => none

def parseEnv (s : String) : Option Env :=
  match splitOnChar s ',' with
  | [r, m] => if r ≠ "0" ∧ r ≠ "1" then none else m.toNat?.map fun m => ⟨r = "1", m⟩
  | _ => none

def showErr : Option Err → String
  | none => "ok"
  | some (.conflict p) => s!"conflict@{p}"
  | some (.eacces p) => s!"eacces@{p}"
  | some (.render p) => s!"render@{p}"
  | some (.pp p i) => s!"pp@{p}@{i}"

def showOp : Op → String
  | .chmod p m => s!"chmod@{p}@{m}"
  | .mkdirs p => s!"mkdirs@{p}"
  | .openW p => s!"open@{p}"
  | .denied p => s!"denied@{p}"
  | .exec p i none => s!"exec@{p}@{i}"
  | .exec p i (some m) => s!"exec@{p}@{i}@{m}"

def joinOr (sep : String) (xs : List String) : String :=
  if xs.isEmpty then "-" else sep.intercalate xs

def showFS (allPaths : List Path) (fs : FS) : String :=
  joinOr "|" (allPaths.filterMap fun p => (fs p).map fun f => s!"{p}={f.content}={f.mode}")

def answer (line : String) : String :=
  match line.splitOn " " with
  | ["hist", env, init, runs] =>
    match parseEnv env, (parseList init '|').mapM parseFile, (parseList runs ';').mapM parseRun with
    | some env, some init, some runs =>
      let fs₀ : FS := init.foldl (fun fs pf => fs.set pf.1 pf.2) FS.empty
      let paths := init.map (·.1) ++ (runs.map Run.paths).flatten
      let allPaths := (paths.mergeSort (fun a b => !(b < a))).eraseDups
      let steps := runHistory env runs fs₀
      joinOr ";" (steps.map fun s =>
        s!"{showErr s.2.2.err}#{joinOr "," (s.2.2.ops.map showOp)}#{showFS allPaths s.2.2.fs}")
    | _, _, _ => "bad-op"
  | _ => "bad-op"

def main : IO Unit := serve answer
