import NunavutVerif.Model.Overwrite
import NunavutVerif.Model.OverwriteFs
import NunavutVerif.Proto
/-!
Driver for the C12 correspondence.  One request per line:

  `hist <root 0|1>,<createMode> <initfs> <runs>`

* `initfs`: `-` or `|`-separated `path=content=mode` (mode decimal)
* `runs`: `;`-separated `<allow 0|1>:<pps>:<writes>`
  * `pps`: `-` or `,`-separated `M<mode>` (SetFileMode) / `E<table>` (external program; `table` is `-` or
    `+`-separated `in>out` (edited in place) / `in>out~mode` (the program left that mode: temp file + rename,
    or chmod) / `in>!` (= exits non-zero); a content not in the table fails)
  * `writes`: `-` or `,`-separated `path=content=kind`, kind `R` (rendered), `X` (template raises after
    writing `content`), `C<mode>` (`shutil.copy` from a resource with that mode)

Answer: per run, `;`-separated, `<status>#<ops>#<fs>`:
* status `ok` | `conflict@p` | `eacces@p` | `render@p` | `pp@p@i`
* ops `-` or `,`-separated `chmod@p@mode` `mkdirs@p` `open@p` `denied@p` `exec@p@i` `exec@p@i@mode`
* fs  `-` or `|`-separated `path=content=mode` over all paths named in the request, sorted.

A second request runs the extended file-system model (`Model/OverwriteFs.lean`: directories, symbolic links):

  `fsx <root 0|1>,<createMode>,<dirMode> <nodes> <runs> <probe>`

* `nodes`: `-` or `|`-separated `F:path=content=mode` / `D:path=mode` / `L:path=target` (paths `/`-joined components, a link's
  target is the real path it points to)
* `runs`: as above
* `probe`: `,`-separated paths whose entries are reported
Answer per run: `<status>#<ops>#<nodes>` with status `ok` | `<error>@path[@i]`, ops `chmod@p@mode` `mkdir@p` `open@p`
`openfail@p` `exec@p@i[@mode]`, nodes in the request syntax over the probe paths.
-/
open NunavutVerif NunavutVerif.Overwrite NunavutVerif.Proto

def parseList (s : String) (sep : Char) : List String :=
  if s = "-" then [] else splitOnChar s sep

def parseFile (s : String) : Option (Path × File) :=
  match splitOnChar s '=' with
  | [p, c, m] => m.toNat?.map fun m => (p, ⟨c, m⟩)
  | _ => none

def parseTable (s : String) : Option (List (Content × Option (Content × Option Nat))) :=
  (parseList s '+').mapM fun t =>
    match splitOnChar t '>' with
    | [a, b] =>
      if b = "!" then some (a, none) else
      match splitOnChar b '~' with
      | [c] => some (a, some (c, none))
      | [c, m] => m.toNat?.map fun m => (a, some (c, some m))
      | _ => none
    | _ => none

def parsePP (s : String) : Option FilePP :=
  if s.startsWith "M" then (s.drop 1).toString.toNat?.map FilePP.setMode
  else if s.startsWith "E" then
    (parseTable (s.drop 1).toString).map fun tbl =>
      FilePP.edit fun c => (tbl.lookup c).bind id
  else none

def parseWrite (s : String) : Option Write :=
  match splitOnChar s '=' with
  | [p, c, k] =>
    if k = "R" then some ⟨p, c, true, none⟩
    else if k = "X" then some ⟨p, c, false, none⟩
    else if k.startsWith "C" then (k.drop 1).toString.toNat?.map fun m => ⟨p, c, true, some m⟩
    else none
  | _ => none

def parseRun (s : String) : Option Run :=
  match splitOnChar s ':' with
  | [a, pps, ws] =>
    if a ≠ "0" ∧ a ≠ "1" then none else
    match (parseList pps ',').mapM parsePP, (parseList ws ',').mapM parseWrite with
    | some pps, some ws => some ⟨a = "1", pps, ws⟩
    | _, _ => none
  | _ => none

def parseEnv (s : String) : Option Env :=
  match splitOnChar s ',' with
  | [r, m] => if r ≠ "0" ∧ r ≠ "1" then none else m.toNat?.map fun m => ⟨r = "1", m⟩
  | _ => none

def showErr : Option Err → String
  | none => "ok"
  | some (.conflict p) => s!"conflict@{p}"
  | some (.eacces p) => s!"eacces@{p}"
  | some (.render p) => s!"render@{p}"
  | some (.pp p i) => s!"pp@{p}@{i}"

def showOp : Op → String
  | .chmod p m => s!"chmod@{p}@{m}"
  | .mkdirs p => s!"mkdirs@{p}"
  | .openW p => s!"open@{p}"
  | .denied p => s!"denied@{p}"
  | .exec p i none => s!"exec@{p}@{i}"
  | .exec p i (some m) => s!"exec@{p}@{i}@{m}"

def joinOr (sep : String) (xs : List String) : String :=
  if xs.isEmpty then "-" else sep.intercalate xs

def showFS (allPaths : List Path) (fs : FS) : String :=
  joinOr "|" (allPaths.filterMap fun p => (fs p).map fun f => s!"{p}={f.content}={f.mode}")

/-! ### extended model -/
namespace Fsx
open NunavutVerif.OverwriteFs

def toP (s : String) : P := (splitOnChar s '/').filter (· ≠ "")
def ofP (p : P) : String := if p.isEmpty then "." else "/".intercalate p

def parseNode (s : String) : Option (P × Node) :=
  if s.startsWith "F:" then
    match splitOnChar (s.drop 2).toString '=' with
    | [p, c, m] => m.toNat?.map fun m => (toP p, .file ⟨c, m⟩)
    | _ => none
  else if s.startsWith "D:" then
    match splitOnChar (s.drop 2).toString '=' with
    | [p, m] => m.toNat?.map fun m => (toP p, .dir m)
    | _ => none
  else if s.startsWith "L:" then
    match splitOnChar (s.drop 2).toString '=' with
    | [p, t] => some (toP p, .link (toP t))
    | _ => none
  else none

def parseEnvFs (s : String) : Option EnvFs :=
  match splitOnChar s ',' with
  | [r, m, d] => if r ≠ "0" ∧ r ≠ "1" then none else
    match m.toNat?, d.toNat? with
    | some m, some d => some ⟨r = "1", m, d⟩
    | _, _ => none
  | _ => none

def toRun (r : Overwrite.Run) : OverwriteFs.Run :=
  ⟨r.allowOverwrite, r.filePPs, r.writes.map fun w => ⟨toP w.path, w.content, w.renderOk, w.copyMode⟩⟩

def showErrFs : Option OverwriteFs.Err → String
  | none => "ok"
  | some (.conflict p) => s!"conflict@{ofP p}"
  | some (.eacces p) => s!"eacces@{ofP p}"
  | some (.isdir p) => s!"isdir@{ofP p}"
  | some (.noent p) => s!"noent@{ofP p}"
  | some (.notdir p) => s!"notdir@{ofP p}"
  | some (.exists_ p) => s!"exists@{ofP p}"
  | some (.unsupported p) => s!"unsupported@{ofP p}"
  | some (.render p) => s!"render@{ofP p}"
  | some (.pp p i) => s!"pp@{ofP p}@{i}"

def showOpFs : OverwriteFs.Op → String
  | .chmod p m => s!"chmod@{ofP p}@{m}"
  | .mkdir p => s!"mkdir@{ofP p}"
  | .openW p => s!"open@{ofP p}"
  | .openFail p => s!"openfail@{ofP p}"
  | .exec p i none => s!"exec@{ofP p}@{i}"
  | .exec p i (some m) => s!"exec@{ofP p}@{i}@{m}"

def showNode (p : P) : Node → String
  | .file f => s!"F:{ofP p}={f.content}={f.mode}"
  | .dir m => s!"D:{ofP p}={m}"
  | .link t => s!"L:{ofP p}={ofP t}"

def answer (env init runs probe : String) : String :=
  match parseEnvFs env, (parseList init '|').mapM parseNode, (parseList runs ';').mapM parseRun with
  | some env, some init, some runs =>
    let fs₀ : OverwriteFs.FS := init.foldl (fun fs pn => fs.set pn.1 pn.2) OverwriteFs.FS.empty
    let probes := (parseList probe ',').map toP
    let steps := OverwriteFs.runHistory env (runs.map toRun) fs₀
    joinOr ";" (steps.map fun s =>
      let nodes := probes.filterMap fun p => (s.2.2.fs p).map (showNode p)
      s!"{showErrFs s.2.2.err}#{joinOr "," (s.2.2.ops.map showOpFs)}#{joinOr "|" nodes}")
  | _, _, _ => "bad-op"

end Fsx

def answer (line : String) : String :=
  match line.splitOn " " with
  | ["fsx", env, init, runs, probe] => Fsx.answer env init runs probe
  | ["hist", env, init, runs] =>
    match parseEnv env, (parseList init '|').mapM parseFile, (parseList runs ';').mapM parseRun with
    | some env, some init, some runs =>
      let fs₀ : FS := init.foldl (fun fs pf => fs.set pf.1 pf.2) FS.empty
      let paths := init.map (·.1) ++ (runs.map Run.paths).flatten
      let allPaths := (paths.mergeSort (fun a b => !(b < a))).eraseDups
      let steps := runHistory env runs fs₀
      joinOr ";" (steps.map fun s =>
        s!"{showErr s.2.2.err}#{joinOr "," (s.2.2.ops.map showOp)}#{showFS allPaths s.2.2.fs}")
    | _, _, _ => "bad-op"
  | _ => "bad-op"

def main : IO Unit := serve answer
