import NunavutVerif.Model.PyObj
import NunavutVerif.Model.PyReflect
import NunavutVerif.Proto
/-!
Driver for the C18 correspondence.  Everything is a stream of space-separated tokens in prefix form.

Types   `B` | `I <signed 0/1> <w> <trunc 0/1>` | `F <w> <trunc>` | `A <fixed 0/1> <cap> <Ty>` |
        `C <cls> <union 0/1> <n> <Ty>*n`
Values  `N` (None) | `M` (missing key) | `b <0/1>` | `i <int>` | `f <neg 0/1> <m> <e>` (magnitude `m * 2^e` in units of 2^-1074, printed with `m` odd) |
        `inf <neg>` | `nan` | `s <hex|->` (str, UTF-8) | `y <mutable 0/1> <hex|->` (bytes/bytearray) |
        `l <n> <Py>*n` | `a <dt> <n> <Py>*n` (ndarray; dt = `b`,`u8`..`u64`,`i8`..,`f16`..,`O`) |
        `o <cls> <n> <Py>*n` | `d <extra 0/1> <n> <Py>*n`

Requests
  `set <Ty> <Py>`                       the setter of a field of that type        → `ok <Py>` | `err <kind>`
  `new <Ty> <n> <Py>*n`                 constructor                              → `ok <Py>` | `err <kind>`
  `ops <Ty> <n> <Py>*n <k> (<i> <Py>)*k` constructor, then attribute assignments  → `<ctor outcome>` then per
                                        assignment ` ; <ok|err kind> <object after it>`
  `tb <Ty> <Py>`                        to_builtin                               → `ok <Py>` | `err <kind>`
  `ufb <Ty> <dest Py | D> <src Py>`     update_from_builtin (D = fresh `C()`)    → `ok <Py>` | `err <kind>`
  `hasty <strict 0/1> <Ty> <Py>`        well-typedness                           → `1` | `0`
  `default <Ty>`                        `C()` / field default                    → `<Py>`
  `aliases <n> (<name> <major> <minor> <deprecated 0/1>)*n`  alias assignments of the package `__init__`  → `(<Name_M> <Name_M_m>)*` | `-`
  `import <k> <dotted module path>*k <dotted namespace>`  `do_import` of get_class over that package tree → path | `none`
  `tbtop <service 0/1> <Ty> <Py>` / `ufbtop <service 0/1> <Ty> <dest Py | D> <src Py>`  to_builtin / update_from_builtin
                                        at the top level (service classes: `err type`)
  `aliasset <n> (<dotted ns> <name> <major> <minor>)*n <index of the declared class> <dotted package> <name> <major>`
                                        `obj.field = pkg.Name_M()` for a field declared as class #index → `ok` | `err <kind>`
  `regen <r> (<n> (<dotted ns> <name> <major> <minor> <model> <request|-> <response|->)*n)*r <q> <query>*q`
                                        r generation runs into one (initially empty) directory, models are opaque words;
                                        query = `cls <dotted module> <dotted class path>` | `via <dotted package> <attr>`
                                        → per query the model word or `none`
  `segments <n> <word>`                 the string literals `filter_pickle` emits for the text → `<segment>*` | `-`
Errors: `value` `type` `overflow` `other`; outside the modelled domain the answer is `unmodelled`.
-/
open NunavutVerif NunavutVerif.PyObj NunavutVerif.PyReflect NunavutVerif.Proto

abbrev Toks := List String

def hexVal (c : Char) : Option Nat :=
  if '0' ≤ c ∧ c ≤ '9' then some (c.toNat - 48)
  else if 'a' ≤ c ∧ c ≤ 'f' then some (c.toNat - 87)
  else none

def parseHexList : List Char → Option (List Nat)
  | [] => some []
  | a :: b :: r => do
    let x ← hexVal a
    let y ← hexVal b
    let rest ← parseHexList r
    pure ((x * 16 + y) :: rest)
  | _ => none

def parseHex (s : String) : Option (List Nat) := if s = "-" then some [] else parseHexList s.toList

def hexDigit (n : Nat) : Char := if n < 10 then Char.ofNat (48 + n) else Char.ofNat (87 + n)

def showHex (bs : List Nat) : String :=
  if bs.isEmpty then "-" else String.ofList (bs.flatMap fun b => [hexDigit (b / 16 % 16), hexDigit (b % 16)])

def parseBool (s : String) : Option Bool := if s = "1" then some true else if s = "0" then some false else none

def parseDT (s : String) : Option DType :=
  if s = "b" then some .bool else if s = "O" then some .obj
  else match s.toList with
    | 'u' :: r => (String.ofList r).toNat?.map .u
    | 'i' :: r => (String.ofList r).toNat?.map .i
    | 'f' :: r => (String.ofList r).toNat?.map .f
    | _ => none

def showDT : DType → String
  | .bool => "b" | .obj => "O" | .u w => s!"u{w}" | .i w => s!"i{w}" | .f w => s!"f{w}"

mutual
def parseTy : Nat → Toks → Option (Ty × Toks)
  | 0, _ => none
  | fuel + 1, toks =>
    match toks with
    | "B" :: r => some (.bool, r)
    | "I" :: s :: w :: c :: r => do
      let s ← parseBool s; let w ← w.toNat?; let c ← parseBool c
      pure (.int s w c, r)
    | "F" :: w :: c :: r => do
      let w ← w.toNat?; let c ← parseBool c
      pure (.float w c, r)
    | "A" :: fx :: cap :: r => do
      let fx ← parseBool fx; let cap ← cap.toNat?
      let (e, r) ← parseTy fuel r
      pure (.arr fx cap e, r)
    | "C" :: cls :: u :: n :: r => do
      let cls ← cls.toNat?; let u ← parseBool u; let n ← n.toNat?
      let (fs, r) ← parseTys fuel n r
      pure (.comp cls u fs, r)
    | _ => none
def parseTys : Nat → Nat → Toks → Option (List Ty × Toks)
  | 0, _, _ => none
  | _ + 1, 0, r => some ([], r)
  | fuel + 1, n + 1, r => do
    let (t, r) ← parseTy fuel r
    let (ts, r) ← parseTys fuel n r
    pure (t :: ts, r)
end

mutual
def parsePy : Nat → Toks → Option (Py × Toks)
  | 0, _ => none
  | fuel + 1, toks =>
    match toks with
    | "N" :: r => some (.none, r)
    | "M" :: r => some (.missing, r)
    | "nan" :: r => some (.float .nan, r)
    | "b" :: b :: r => do let b ← parseBool b; pure (.bool b, r)
    | "i" :: i :: r => do let i ← i.toInt?; pure (.int i, r)
    | "f" :: n :: m :: e :: r => do
      let n ← parseBool n; let m ← m.toNat?; let e ← e.toNat?
      pure (.float (.fin n (m * 2 ^ e)), r)
    | "inf" :: n :: r => do let n ← parseBool n; pure (.float (.inf n), r)
    | "s" :: h :: r => do let bs ← parseHex h; pure (.str bs, r)
    | "y" :: m :: h :: r => do let m ← parseBool m; let bs ← parseHex h; pure (.bytes m bs, r)
    | "l" :: n :: r => do
      let n ← n.toNat?
      let (xs, r) ← parsePys fuel n r
      pure (.list xs, r)
    | "a" :: dt :: n :: r => do
      let dt ← parseDT dt; let n ← n.toNat?
      let (xs, r) ← parsePys fuel n r
      pure (.nd dt xs, r)
    | "o" :: c :: n :: r => do
      let c ← c.toNat?; let n ← n.toNat?
      let (xs, r) ← parsePys fuel n r
      pure (.obj c xs, r)
    | "d" :: e :: n :: r => do
      let e ← parseBool e; let n ← n.toNat?
      let (xs, r) ← parsePys fuel n r
      pure (.dict xs e, r)
    | _ => none
def parsePys : Nat → Nat → Toks → Option (List Py × Toks)
  | 0, _, _ => none
  | _ + 1, 0, r => some ([], r)
  | fuel + 1, n + 1, r => do
    let (x, r) ← parsePy fuel r
    let (xs, r) ← parsePys fuel n r
    pure (x :: xs, r)
end

def b01 (b : Bool) : String := if b then "1" else "0"

/-- `a = m * 2^e` with `m` odd (or `0 0`). -/
partial def oddPart (a e : Nat) : Nat × Nat :=
  if a = 0 then (0, 0) else if a % 2 = 1 then (a, e) else oddPart (a / 2) (e + 1)

partial def showPy : Py → String
  | .none => "N"
  | .missing => "M"
  | .bool b => s!"b {b01 b}"
  | .int i => s!"i {i}"
  | .float (.fin n a) => let (m, e) := oddPart a 0; s!"f {b01 n} {m} {e}"
  | .float (.inf n) => s!"inf {b01 n}"
  | .float .nan => "nan"
  | .str bs => s!"s {showHex bs}"
  | .bytes m bs => s!"y {b01 m} {showHex bs}"
  | .list xs => " ".intercalate (s!"l {xs.length}" :: xs.map showPy)
  | .nd dt xs => " ".intercalate (s!"a {showDT dt} {xs.length}" :: xs.map showPy)
  | .obj c xs => " ".intercalate (s!"o {c} {xs.length}" :: xs.map showPy)
  | .dict xs e => " ".intercalate (s!"d {b01 e} {xs.length}" :: xs.map showPy)

def showExc : Exc → String
  | .value => "err value" | .type => "err type" | .overflow => "err overflow" | .other => "err other"
  | .unmodelled => "unmodelled"

def showRes : Except Exc Py → String
  | .ok v => "ok " ++ showPy v
  | .error e => showExc e

def parseOps : Nat → Nat → Toks → Option (List (Nat × Py) × Toks)
  | _, 0, r => some ([], r)
  | fuel, n + 1, i :: r => do
    let i ← i.toNat?
    let (x, r) ← parsePy fuel r
    let (ops, r) ← parseOps fuel n r
    pure ((i, x) :: ops, r)
  | _, _, _ => none

def runTrace (t : Ty) : Py → List (Nat × Py) → List String
  | _, [] => []
  | o, (i, x) :: ops =>
    match objSet npArray t i x o with
    | .ok o' => ("ok " ++ showPy o') :: runTrace t o' ops
    | .error e => (showExc e ++ " " ++ showPy o) :: runTrace t o ops

def dotted (s : String) : List String := if s = "-" then [] else s.splitOn "."

def parseKeys : Nat → Toks → Option (List ClsKey × Toks)
  | 0, r => some ([], r)
  | n + 1, ns :: nm :: ma :: mi :: r => do
    let ma ← ma.toNat?; let mi ← mi.toNat?
    let (ks, r) ← parseKeys n r
    pure (⟨dotted ns, nm, ma, mi⟩ :: ks, r)
  | _, _ => none

def parseDefs : Nat → Toks → Option (List (Def String) × Toks)
  | 0, r => some ([], r)
  | n + 1, ns :: nm :: ma :: mi :: m :: rq :: rs :: r => do
    let ma ← ma.toNat?; let mi ← mi.toNat?
    let (ds, r) ← parseDefs n r
    pure (⟨dotted ns, nm, ma, mi, m, if rq = "-" then none else some (rq, rs)⟩ :: ds, r)
  | _, _ => none

def parseRuns : Nat → Toks → Option (List (List (Def String)) × Toks)
  | 0, r => some ([], r)
  | k + 1, n :: r => do
    let n ← n.toNat?
    let (ds, r) ← parseDefs n r
    let (runs, r) ← parseRuns k r
    pure (ds :: runs, r)
  | _, _ => none

def answerQueries (fs : FS String) : Nat → Toks → Option (List String)
  | 0, [] => some []
  | q + 1, "cls" :: m :: c :: r => do
    let rest ← answerQueries fs q r
    pure (((classModel idCodec fs (dotted m) (dotted c)).getD "none") :: rest)
  | q + 1, "via" :: p :: a :: r => do
    let rest ← answerQueries fs q r
    pure (((getModelVia idCodec fs (dotted p) a).getD "none") :: rest)
  | _, _ => none

def answer (line : String) : String :=
  let toks := (line.splitOn " ").filter (· ≠ "")
  let fuel := toks.length + 1
  match toks with
  | "set" :: r =>
    match parseTy fuel r with
    | some (t, r) =>
      match parsePy fuel r with
      | some (x, []) => showRes (setField npArray t x)
      | _ => "bad-op"
    | none => "bad-op"
  | "new" :: r =>
    match parseTy fuel r with
    | some (t, n :: r) =>
      match n.toNat?.bind (fun n => parsePys fuel n r) with
      | some (args, []) => showRes (construct npArray t args)
      | _ => "bad-op"
    | _ => "bad-op"
  | "ops" :: r =>
    match parseTy fuel r with
    | some (t, n :: r) =>
      match n.toNat?.bind (fun n => parsePys fuel n r) with
      | some (args, k :: r) =>
        match k.toNat?.bind (fun k => parseOps fuel k r) with
        | some (ops, []) =>
          match construct npArray t args with
          | .ok o => " ; ".intercalate (("ok " ++ showPy o) :: runTrace t o ops)
          | .error e => showExc e
        | _ => "bad-op"
      | _ => "bad-op"
    | _ => "bad-op"
  | "tb" :: r =>
    match parseTy fuel r with
    | some (t, r) =>
      match parsePy fuel r with
      | some (x, []) => showRes (toBuiltin t x)
      | _ => "bad-op"
    | none => "bad-op"
  | "ufb" :: r =>
    match parseTy fuel r with
    | some (t, "D" :: r) =>
      match parsePy fuel r with
      | some (v, []) => showRes (update npArray t (defaultVal t) v)
      | _ => "bad-op"
    | some (t, r) =>
      match parsePy fuel r with
      | some (d, r) =>
        match parsePy fuel r with
        | some (v, []) => showRes (update npArray t d v)
        | _ => "bad-op"
      | none => "bad-op"
    | none => "bad-op"
  | "tbtop" :: svc :: r =>
    match parseBool svc, parseTy fuel r with
    | some svc, some (t, r) =>
      match parsePy fuel r with
      | some (x, []) => showRes (toBuiltinTop svc t x)
      | _ => "bad-op"
    | _, _ => "bad-op"
  | "ufbtop" :: svc :: r =>
    match parseBool svc, parseTy fuel r with
    | some svc, some (t, "D" :: r) =>
      match parsePy fuel r with
      | some (v, []) => showRes (updateTop npArray svc t (defaultVal t) v)
      | _ => "bad-op"
    | some svc, some (t, r) =>
      match parsePy fuel r with
      | some (d, r) =>
        match parsePy fuel r with
        | some (v, []) => showRes (updateTop npArray svc t d v)
        | _ => "bad-op"
      | none => "bad-op"
    | _, _ => "bad-op"
  | "aliasset" :: n :: r =>
    match n.toNat?.bind (fun n => parseKeys n r) with
    | some (tbl, [idx, pkg, nm, ma]) =>
      match idx.toNat?.bind (fun i => tbl[i]?), ma.toNat? with
      | some decl, some ma =>
        match setViaAlias npArray tbl decl false [] (dotted pkg) nm ma [] with
        | .ok _ => "ok"
        | .error e => showExc e
      | _, _ => "bad-op"
    | _ => "bad-op"
  | "regen" :: k :: r =>
    match k.toNat?.bind (fun k => parseRuns k r) with
    | some (runs, q :: r) =>
      match q.toNat?.bind (fun q => answerQueries (regenerate idCodec emptyFS runs) q r) with
      | some out => if out.isEmpty then "-" else " ".intercalate out
      | none => "bad-op"
    | _ => "bad-op"
  | ["segments", n, w] =>
    match n.toNat? with
    | some n => let out := (segments n w.toList).map String.ofList; if out.isEmpty then "-" else " ".intercalate out
    | none => "bad-op"
  | "hasty" :: s :: r =>
    match parseBool s, parseTy fuel r with
    | some s, some (t, r) =>
      match parsePy fuel r with
      | some (x, []) => b01 (hasTy s t x)
      | _ => "bad-op"
    | _, _ => "bad-op"
  | "aliases" :: n :: r =>
    let rec go : Nat → Toks → Option (List TyId)
      | 0, [] => some []
      | k + 1, nm :: ma :: mi :: dep :: rest => do
        let ma ← ma.toNat?; let mi ← mi.toNat?; let dep ← parseBool dep
        let ts ← go k rest
        pure (⟨nm, ma, mi, dep⟩ :: ts)
      | _, _ => none
    match n.toNat?.bind (fun n => go n r) with
    | some tys =>
      -- the alias assignments of the package's `__init__` as rendered by (the repaired) Namespace.j2
      let defs : List (Def String) := tys.map fun t => ⟨["p"], t.name, t.major, t.minor, "", none⟩
      let out := match (renderPackage (B := String) defs ["p"]) with
        | .package _ als => als.map fun a => s!"{a.1} {a.2}"
        | _ => []
      if out.isEmpty then "-" else " ".intercalate out
    | none => "bad-op"
  | "import" :: k :: r =>
    match k.toNat? with
    | some k =>
      if r.length = k + 1 then
        let tree := (r.take k).map (fun p => p.splitOn ".")
        let comps := (r.getD k "").splitOn "."
        match doImport (fun p => tree.contains p) [] comps with
        | some p => ".".intercalate p
        | none => "none"
      else "bad-op"
    | none => "bad-op"
  | "default" :: r =>
    match parseTy fuel r with
    | some (t, []) => showPy (defaultVal t)
    | _ => "bad-op"
  | _ => "bad-op"

def main : IO Unit := serve answer
