import NunavutVerif.Model.Html
import NunavutVerif.Model.HtmlPage
import NunavutVerif.Gen.HtmlTpl
import NunavutVerif.Proto
/-!
Driver for the C20 correspondence.  One request per line, fields separated by one blank; strings in the protocol
encoding of `Proto` (`-` = empty), lists of strings `|`-separated (`!` = empty list):

  `esc <s>` / `escstd <s>` / `unesc <s>`                  → encoded string
  `escval <0|1> <s>`                                      → `escape(value)` for a plain (0) / Markup (1) value with text s
  `tagid <comps> <major> <minor> <hps>`                   → `filter_tag_id` of a composite
  `tagidarr <str(element_type)>`                          → `filter_tag_id` of an array
  `url <comps> <major> <minor> <hps>` / `urlold …`        → `filter_url_from_type` (after / before the fix)
  `href <nscomps> <comps> <major> <minor> <hps>` / `hrefold …`   → the href on the page of namespace `nscomps`
  `back <comps> <major> <minor>`                          → the back link of a type page
  `resolve <pagepath> <href>`                             → `ok <path> <fragment>` | `none`
  `pagens <nscomps>` / `pagety <comps> <major> <minor>`   → page path
  `unique <bases>`                                        → `|`-list of results, generator state threaded
  `display <dt>` / `displayold <dt>`                      → `filter_display_type`; dt = `;`-separated prefix form
  `nested <toks>`                                         → `1`/`0`   toks: `,`-separated `o:<tag>` `c:<tag>` `v:<tag>`
  `accept <root template name> <toks>`                    → `1`/`0`   is the tag-event sequence a rendering of the term?
  `entryids <tree>` / `nsentryids <tree>`                 → `|`-list; tree = `;`-separated prefix form
  `lexstay <state> <s>`                                   → `1`/`0`   does `s` keep the tokenizer in `state`?
Round 2 (reference inventory; `<nsd>` = `;`-separated prefix form of a namespace tree with entries, see `parseNsD`):
  `pageitems <nsd>`                                       → `|`-list of `attribute=value` strings: the page of that namespace
  `typeitems <comps> <major> <minor>`                     → the same for a type page
  `sitepages <k> <nsd>…`                                  → `|`-list of the paths (`/`-joined) of all files of k runs
  `sitelinks <k> <nsd>…`                                  → `|`-list of `path<TAB>href<TAB>verdict` for every relative link of the
                                                            site; verdict `ok` | `nofrag` (page exists, id missing) | `nopage`
  `hyps <k> <nsd>…`                                       → `<runOk> <closed>` bits: the hypotheses of the link theorem for k runs
  `simple <nsd>`                                          → `1`/`0`   `simpleRun`: the sufficient condition for unique ids on the page
  `cssident <s>` / `urlsafe <s>`                          → `1`/`0`
-/
open NunavutVerif NunavutVerif.Html NunavutVerif.Proto

def decList (s : String) : Option (List Str) :=
  if s = "!" then some [] else (splitOnChar s '|').mapM decodeStr

def encList (l : List Str) : String :=
  if l.isEmpty then "!" else "|".intercalate (l.map encodeStr)

def decBool (s : String) : Option Bool := if s = "1" then some true else if s = "0" then some false else none

def mkType (comps major minor hps : String) : Option CType := do
  let c ← decList comps
  let ma ← major.toNat?
  let mi ← minor.toNat?
  let h ← decBool hps
  pure ⟨c, ma, mi, h⟩

/-- tag name → number: index in the generated table, else an injective code above it -/
def tagCode (name : String) : Nat :=
  match Gen.HtmlTpl.tagNames.idxOf? name with
  | some i => i
  | none => 1000 + name.toList.foldl (fun acc ch => acc * 1114112 + ch.toNat) 1

def decTok (s : String) : Option Tok :=
  match s.splitOn ":" with
  | ["o", t] => some (.op (tagCode t))
  | ["c", t] => some (.cl (tagCode t))
  | ["v", t] => some (.vd (tagCode t))
  | _ => none

def decToks (s : String) : Option (List Tok) :=
  if s = "!" then some [] else (splitOnChar s ',').mapM decTok

/-- `;`-separated prefix form of `DT` -/
def parseDT : Nat → List String → Option (DT × List String)
  | 0, _ => none
  | f + 1, "fa" :: cap :: rest => do
    let n ← cap.toNat?
    let (el, r) ← parseDT f rest
    pure (.fixedArr el n, r)
  | f + 1, "va" :: cap :: rest => do
    let n ← cap.toNat?
    let (el, r) ← parseDT f rest
    pure (.varArr el n, r)
  | _ + 1, "pad" :: s :: rest => do
    let s ← decodeStr s
    pure (.padding s, rest)
  | f + 1, "fld" :: name :: rest => do
    let nm ← decodeStr name
    let (dt, r) ← parseDT f rest
    pure (.field dt nm, r)
  | f + 1, "cst" :: name :: value :: rest => do
    let nm ← decodeStr name
    let vl ← decodeStr value
    let (dt, r) ← parseDT f rest
    pure (.const dt nm vl, r)
  | _ + 1, "prim" :: sat :: s :: rest => do
    let b ← decBool sat
    let s ← decodeStr s
    pure (.prim b s, rest)
  | _ + 1, "oth" :: s :: rest => do
    let s ← decodeStr s
    pure (.other s, rest)
  | _, _ => none

def decDT (s : String) : Option DT :=
  match parseDT 64 (s.splitOn ";") with
  | some (d, []) => some d
  | _ => none

def parseTypes : Nat → List String → Option (List CType × List String)
  | 0, r => some ([], r)
  | k + 1, comps :: ma :: mi :: hps :: r => do
    let t ← mkType comps ma mi hps
    let (ts, r') ← parseTypes k r
    pure (t :: ts, r')
  | _, _ => none

mutual
def parseTree : Nat → List String → Option (NsTree × List String)
  | 0, _ => none
  | f + 1, "n" :: name :: k :: rest => do
    let nm ← decList name
    let kt ← k.toNat?
    let (ts, r1) ← parseTypes kt rest
    match r1 with
    | m :: r2 => do
      let km ← m.toNat?
      let (cs, r3) ← parseTrees f km r2
      pure (.node nm ts cs, r3)
    | [] => none
  | _, _ => none
def parseTrees : Nat → Nat → List String → Option (List NsTree × List String)
  | _, 0, r => some ([], r)
  | 0, _, _ => none
  | f + 1, k + 1, r => do
    let (t, r1) ← parseTree f r
    let (ts, r2) ← parseTrees f k r1
    pure (t :: ts, r2)
end

mutual
/-- `c;<comps>;<major>;<minor>;<hps>;<service>;<k>;<ent>*k` | `a;<str(element_type)>;<k>;<ent>*k` -/
def parseEnt : Nat → List String → Option (Ent × List String)
  | 0, _ => none
  | f + 1, "c" :: comps :: ma :: mi :: hps :: svc :: k :: rest => do
    let ct ← mkType comps ma mi hps
    let sv ← decBool svc
    let n ← k.toNat?
    let (es, r) ← parseEnts f n rest
    pure (.comp ct sv es, r)
  | f + 1, "a" :: es :: k :: rest => do
    let s ← decodeStr es
    let n ← k.toNat?
    let (el, r) ← parseEnts f n rest
    pure (.arr s el, r)
  | _, _ => none
def parseEnts : Nat → Nat → List String → Option (List Ent × List String)
  | _, 0, r => some ([], r)
  | 0, _, _ => none
  | f + 1, k + 1, r => do
    let (e, r1) ← parseEnt f r
    let (es, r2) ← parseEnts f k r1
    pure (e :: es, r2)
end

mutual
/-- `n;<name>;<k>;<ent>*k;<m>;<nsd>*m` -/
def parseNsD : Nat → List String → Option (NsD × List String)
  | 0, _ => none
  | f + 1, "n" :: name :: k :: rest => do
    let nm ← decList name
    let kt ← k.toNat?
    let (ts, r1) ← parseEnts 64 kt rest
    match r1 with
    | m :: r2 => do
      let km ← m.toNat?
      let (cs, r3) ← parseNsDs f km r2
      pure (.node nm ts cs, r3)
    | [] => none
  | _, _ => none
def parseNsDs : Nat → Nat → List String → Option (List NsD × List String)
  | _, 0, r => some ([], r)
  | 0, _, _ => none
  | f + 1, k + 1, r => do
    let (t, r1) ← parseNsD f r
    let (ts, r2) ← parseNsDs f k r1
    pure (t :: ts, r2)
end

def decNsD (s : String) : Option NsD :=
  match parseNsD 64 (s.splitOn ";") with
  | some (t, []) => some t
  | _ => none

def renderItem : Item → Str
  | .id s => "id=".toList ++ s
  | .href h => "href=".toList ++ h
  | .dataTarget s => "data-target=#".toList ++ s
  | .onclick s none => "onclick=toggleCollapse(event, '".toList ++ s ++ "')".toList
  | .onclick s (some r) => "onclick=toggleCollapse(event, '".toList ++ s ++ "', '".toList ++ r ++ "')".toList
  | .aria s => "aria-controls=".toList ++ s
  | .for_ s => "for=".toList ++ s
  | .jsSel s => "script=#".toList ++ s

def siteLinks (files : List (List Str × List Item)) : List Str :=
  files.flatMap fun f => f.2.filterMap fun it =>
    it.relLink.map fun h =>
      let verdict := match resolveIn files f.1 h with
        | some (_, _, true) => "ok"
        | some (_, _, false) => "nofrag"
        | none => "nopage"
      joinWith '/' f.1 ++ '\t' :: h ++ '\t' :: verdict.toList

def decState (s : String) : Option LexSt :=
  match s with
  | "data" => some .data
  | "attrDq" => some .attrDq
  | "attrSq" => some .attrSq
  | "rawText" => some .rawText
  | _ => none

def threadUnique : List Str → List Str → List Str
  | _, [] => []
  | seen, b :: bs => let (r, seen') := makeUnique seen b; r :: threadUnique seen' bs

def bit (b : Bool) : String := if b then "1" else "0"

def orBad (o : Option String) : String := o.getD "bad-op"

def answer (line : String) : String :=
  match line.splitOn " " with
  | ["esc", s] => orBad do pure (encodeStr (escape (← decodeStr s)))
  | ["escval", m, s] => orBad do pure (encodeStr (escapeVal ⟨← decBool m, ← decodeStr s⟩))
  | ["escstd", s] => orBad do pure (encodeStr (escapeStd (← decodeStr s)))
  | ["unesc", s] => orBad do pure (encodeStr (unescape (← decodeStr s)))
  | ["tagid", c, ma, mi, h] => orBad do pure (encodeStr (tagId (← mkType c ma mi h)))
  | ["tagidarr", s] => orBad do pure (encodeStr (tagIdArray (← decodeStr s)))
  | ["url", c, ma, mi, h] => orBad do pure (encodeStr (urlFromType (← mkType c ma mi h)))
  | ["urlold", c, ma, mi, h] => orBad do pure (encodeStr (urlFromTypeBeforeFix (← mkType c ma mi h)))
  | ["href", ns, c, ma, mi, h] => orBad do pure (encodeStr (typeHref (← decList ns) (← mkType c ma mi h)))
  | ["hrefold", ns, c, ma, mi, h] => orBad do pure (encodeStr (typeHrefBeforeFix (← decList ns) (← mkType c ma mi h)))
  | ["back", c, ma, mi] => orBad do pure (encodeStr (backHref (← mkType c ma mi "0")))
  | ["resolve", page, href] => orBad do
    let p ← decList page
    let h ← decodeStr href
    match resolve p h with
    | some (path, frag) => pure s!"ok {encList path} {encodeStr frag}"
    | none => pure "none"
  | ["pagens", ns] => orBad do pure (encList (nsPagePath (← decList ns)))
  | ["pagety", c, ma, mi] => orBad do pure (encList (typePagePath (← mkType c ma mi "0")))
  | ["unique", bases] => orBad do pure (encList (threadUnique [] (← decList bases)))
  | ["display", d] => orBad do pure (encodeStr (displayType (← decDT d)))
  | ["displayold", d] => orBad do pure (encodeStr (displayTypeBeforeFix (← decDT d)))
  | ["nested", toks] => orBad do pure (bit (wellNested (← decToks toks)))
  | ["accept", root, toks] => orBad do
    let ts ← decToks toks
    match Gen.HtmlTpl.roots.find? (fun r => r.1 == root) with
    | some (_, t) => pure (bit (accepts Gen.HtmlTpl.macros 1000000 t ts))
    | none => none
  | ["entryids", tree] => orBad do
    match parseTree 64 (tree.splitOn ";") with
    | some (t, []) => pure (encList (entryIds t))
    | _ => none
  | ["nsentryids", tree] => orBad do
    match parseTree 64 (tree.splitOn ";") with
    | some (t, []) => pure (encList (nsEntryIds t))
    | _ => none
  | ["lexstay", st, s] => orBad do
    let q ← decState st
    let cs ← decodeStr s
    pure (bit (cs.all fun ch => lexStep q ch == q))
  | ["pageitems", t] => orBad do pure (encList ((nsPageItems (← decNsD t)).map renderItem))
  | ["typeitems", c, ma, mi] => orBad do pure (encList ((typePageItems (← mkType c ma mi "0")).map renderItem))
  | "sitepages" :: k :: ts => orBad do
    let n ← k.toNat?
    if ts.length ≠ n then none
    let runs ← ts.mapM decNsD
    pure (encList ((site runs).map fun f => joinWith '/' f.1))
  | "sitelinks" :: k :: ts => orBad do
    let n ← k.toNat?
    if ts.length ≠ n then none
    let runs ← ts.mapM decNsD
    pure (encList (siteLinks (site runs)))
  | "hyps" :: k :: ts => orBad do
    let n ← k.toNat?
    if ts.length ≠ n then none
    let runs ← ts.mapM decNsD
    pure s!"{bit (runs.all runOkB)} {bit (closedB runs)}"
  | ["simple", t] => orBad do pure (bit (simpleRun (← decNsD t)))
  | ["cssident", s] => orBad do pure (bit (isCssIdent (← decodeStr s)))
  | ["urlsafe", s] => orBad do pure (bit (urlSafe (← decodeStr s)))
  | _ => "bad-op"

def main : IO Unit := serve answer
