import NunavutVerif.Model.Bits
import NunavutVerif.Model.BitsCpp
import NunavutVerif.Model.BitsPy
import NunavutVerif.Model.BitsPyArgs
import NunavutVerif.Model.BitsGlue
import NunavutVerif.Proto
/-!
Driver for the C14 correspondence (integer/bit part).  One request per line, tokens separated by one space,
buffers as lower-case hex (`-` = empty buffer), numbers in decimal.

C (`nunavut/support/serialization.h`; `_le` = the `target_endianness: little` rendering)
  `copy <dst> <dOff> <len> <src> <sOff>`            → `ok <dst'>`
  `sat <size> <off> <len>`                          → `ok <n>`
  `getbits <out> <buf> <size> <off> <len>`          → `ok <out'>`
  `setbit <buf> <size> <off> <0|1>`                 → `ok <rc> <buf'>`
  `setu[_le] <buf> <size> <off> <value> <len>`      → `ok <rc> <buf'>`
  `seti[_le] <buf> <size> <off> <value> <len>`      → `ok <rc> <buf'>`
  `getbit <buf> <size> <off>`                       → `ok <0|1>`
  `getu<W>[_le] <buf> <size> <off> <len>`           → `ok <n>`        (W = 8, 16, 32, 64)
  `geti<W>[_le] <buf> <size> <off> <len>`           → `ok <z>`
C++ (`nunavut/support/serialization.hpp`; a span is `<data> <offset_bits>`)
  `x.copy <dst> <dOff> <src> <sOff> <len>`          → `ok <dst'>`          (`src.copyTo(dst, len)`)
  `x.getbits <src> <sOff> <out> <len>`              → `ok <out'>`
  `x.setzeros <data> <off> <len>`                   → `ok <rc> <data'>`    (`x.setzeros_old`: as shipped before the fix)
  `x.pad <data> <off> <n>`                          → `ok <rc> <data'> <off'>`   (`x.pad_old` likewise)
  `x.subspan <data> <off> <bitsAt> <sizeBits>`      → `ok <rc> <first byte|-> <bytes> <off'>`
  `x.setbit <data> <off> <0|1>`                     → `ok <rc> <data'>`
  `x.setu <data> <off> <value> <len>`, `x.seti …`   → `ok <rc> <data'>`
  `x.getbit <data> <off>`                           → `ok <0|1>`
  `x.getu<W> <data> <off> <len>`, `x.geti<W> …`     → `ok <n>`
Python (`nunavut_support.py`; a serializer / deserializer state is `<buf> <bit offset>`; bit lists are strings of
`0`/`1`, `-` = empty)
  `p.add_ubytes <buf> <off> <bytes>`, `p.add_abytes …`                 → `ok <buf'> <off'>`
  `p.add_uu|p.add_us|p.add_auns|p.add_asig <buf> <off> <value> <bits>`  → `ok <buf'> <off'>`
  `p.add_ubit <buf> <off> <0|1>`, `p.add_ubits|p.add_abits <buf> <off> <bitlist>`, `p.pad <buf> <off> <n>`
  `p.add_au<W>|p.add_ai<W> <buf> <off> <value>`                         → `ok <buf'> <off'>`
  `p.u2b <value> <bits>`                                                → `ok <bytes>`
  `p.f_ubytes|p.f_abytes <buf> <off> <count>`                           → `ok <bytes> <off'>`
  `p.f_uu|p.f_us|p.f_auns|p.f_asig <buf> <off> <bits>`                  → `ok <value> <off'>`
  `p.f_ubit <buf> <off>`, `p.f_ubits|p.f_abits <buf> <off> <count>`     → `ok <bitlist> <off'>`
  `p.f_au<W>|p.f_ai<W> <buf> <off>`                                     → `ok <value> <off'>`
  `p.f_pad <buf> <off> <n>`                                             → `ok <off'>`
  `p.slice <buf> <left> <right>` → `ok <bytes>`;  `p.byte <buf> <i>` → `ok <n>`
Round 2 (typed arguments `<value>:<type>`, type = int | bool | npbool | i8 | i16 | i32 | i64 | u8 | u16 | u32 | u64; NumPy = `Py.numpy2`)
  `pv.add_uu|pv.add_us|pv.add_auns|pv.add_asig <buf> <off> <value>:<type> <bits>`, `pv.add_au<W>|pv.add_ai<W> <buf> <off> <value>:<type>`,
  `pv.add_ubit <buf> <off> <value>:<type>`, `pv.us_noint|pv.asig_noint …` (signed helpers before fix 2f4c1c9)  → `ok <buf'> <off'>`
  `min <a> <b>`; `setf<W>[_le] <buf> <size> <off> <pattern>` → `ok <rc> <buf'>`; `getf<W>[_le] <buf> <size> <off>` → `ok <pattern>`
  `x.info <d> <off> <a>` → `ok <size> <offset> <offset_bytes> <offset_bytes_ceil> <misalignment> <aligns> <aligns to byte>`
  `x.atoff <d> <off> <bits>` → `ok <off'> <size'>`; `x.sub1 <d> <off> <bits>` / `x.subbytes <d> <off> <n>` → `ok <off'> <size'> <first 64 bits>`
  `x.aref <d> <off> <plus>` → `ok <byte index> <byte>`; `x.copyall <dst> <dOff> <src> <sOff>`; `x.zeroall <d> <off>`; `x.align<n> <off>` → `ok <off'>`
  `x.setf<W> <d> <off> <pattern>`, `x.getf<W> <d> <off>`
  `p.new <n>`, `p.buffer <buf> <off>`, `p.skip <buf> <off> <n>`, `p.fork <buf> <off> <k>`, `p.forkadd <buf> <off> <k> <value> <bits>`
  `p.addf_a|p.addf_u|p.addstd_a|p.addstd_u <buf> <off> <bytes>`, `p.ff_a|p.ff_u <buf> <off> <W>`, `p.fstd_a|p.fstd_u <buf> <off> <itemsize> <count>`
  `p.zeb <frag,frag,…>`, `p.bytez <buf> <i>`, `p.slicez <buf> <l> <r>`, `p.zfork <buf> <o> <l>`, `p.dfork <buf> <off> <k>`,
  `p.remaining <buf> <off>`, `p.dskip <buf> <off> <n>`, `p.fz_abytes|fz_abits|fz_ubits|fz_auns|fz_uu <buf> <off> <count>` (any integer)
Any model error is answered `err:<kind>` (`oob`, `fuel`, `wrap`, `overflow`, `usage`); malformed lines `bad-op`.
-/
open NunavutVerif NunavutVerif.Bits NunavutVerif.Proto

namespace BitsDriver

def hexVal (c : Char) : Option Nat :=
  if '0' ≤ c ∧ c ≤ '9' then some (c.toNat - '0'.toNat)
  else if 'a' ≤ c ∧ c ≤ 'f' then some (c.toNat - 'a'.toNat + 10)
  else none

def parseHexAux : List Char → Option Buf
  | [] => some []
  | [_] => none
  | a :: b :: rest => do
    let x ← hexVal a
    let y ← hexVal b
    let r ← parseHexAux rest
    some ((x * 16 + y) :: r)

def parseHex (s : String) : Option Buf :=
  if s = "-" then some [] else parseHexAux s.toList

def hexDigit (n : Nat) : Char :=
  if n < 10 then Char.ofNat ('0'.toNat + n) else Char.ofNat ('a'.toNat + n - 10)

def toHex (b : Buf) : String :=
  if b.isEmpty then "-" else
  String.ofList (b.foldr (fun x acc => hexDigit (x / 16 % 16) :: hexDigit (x % 16) :: acc) [])

def showE {α} (f : α → String) : Except Err α → String
  | .ok a => "ok " ++ f a
  | .error e => "err:" ++ e.name

def showRcBuf (p : Int × Buf) : String := toString p.1 ++ " " ++ toHex p.2

/-- `getu16_le` ↦ (`getu`, 16, little) -/
def splitOp (op : String) (stem : String) : Option (Nat × Bool) :=
  if op.startsWith stem then
    let rest := (op.drop stem.length).toString
    let (w, le) := if rest.endsWith "_le" then ((rest.dropEnd 3).toString, true) else (rest, false)
    match w.toNat? with
    | some W => if W = 8 ∨ W = 16 ∨ W = 32 ∨ W = 64 then some (W, le) else none
    | none => none
  else none

def answerC (toks : List String) : Option String :=
  match toks with
  | ["copy", dst, dOff, len, src, sOff] => do
    let dst ← parseHex dst; let dOff ← dOff.toNat?; let len ← len.toNat?
    let src ← parseHex src; let sOff ← sOff.toNat?
    some (showE toHex (copyBits dst dOff len src sOff))
  | ["copyself", buf, dOff, len, sOff] => do
    -- source and destination are regions of ONE buffer (aligned overlap is allowed by the documentation: memmove)
    let buf ← parseHex buf; let dOff ← dOff.toNat?; let len ← len.toNat?; let sOff ← sOff.toNat?
    some (showE toHex (copyBits buf dOff len buf sOff))
  | ["sat", size, off, len] => do
    let size ← size.toNat?; let off ← off.toNat?; let len ← len.toNat?
    some ("ok " ++ toString (saturate size off len))
  | ["getbits", out, buf, size, off, len] => do
    let out ← parseHex out; let buf ← parseHex buf
    let size ← size.toNat?; let off ← off.toNat?; let len ← len.toNat?
    some (showE toHex (getBits out buf size off len))
  | ["setbit", buf, size, off, v] => do
    let buf ← parseHex buf; let size ← size.toNat?; let off ← off.toNat?
    let v ← if v = "1" then some true else if v = "0" then some false else none
    some (showE showRcBuf (setBit buf size off v))
  | ["getbit", buf, size, off] => do
    let buf ← parseHex buf; let size ← size.toNat?; let off ← off.toNat?
    some (showE (fun b => if b then "1" else "0") (getBit buf size off))
  | [op, buf, size, off, value, len] => do
    let buf ← parseHex buf; let size ← size.toNat?; let off ← off.toNat?; let len ← len.toNat?
    if op = "setu" ∨ op = "setu_le" then
      let value ← value.toNat?
      some (showE showRcBuf (setUxx (op = "setu_le") buf size off value len))
    else if op = "seti" ∨ op = "seti_le" then
      let value ← value.toInt?
      some (showE showRcBuf (setIxx (op = "seti_le") buf size off value len))
    else none
  | [op, buf, size, off, len] => do
    let buf ← parseHex buf; let size ← size.toNat?; let off ← off.toNat?; let len ← len.toNat?
    match splitOp op "getu" with
    | some (W, le) => some (showE toString (getU le W buf size off len))
    | none =>
      match splitOp op "geti" with
      | some (W, le) => some (showE toString (getI le W buf size off len))
      | none => none
  | _ => none

def showRcBufOff (p : Int × Buf × Nat) : String := toString p.1 ++ " " ++ toHex p.2.1 ++ " " ++ toString p.2.2

def answerCpp (toks : List String) : Option String :=
  match toks with
  | ["x.copy", dst, dOff, src, sOff, len] => do
    let dst ← parseHex dst; let dOff ← dOff.toNat?; let src ← parseHex src; let sOff ← sOff.toNat?
    let len ← len.toNat?
    some (showE toHex (Cpp.copyTo ⟨src, sOff⟩ ⟨dst, dOff⟩ len))
  | ["x.getbits", src, sOff, out, len] => do
    let src ← parseHex src; let sOff ← sOff.toNat?; let out ← parseHex out; let len ← len.toNat?
    some (showE toHex (Cpp.getBits ⟨src, sOff⟩ out len))
  | ["x.subspan", d, off, bitsAt, sizeBits] => do
    let d ← parseHex d; let off ← off.toNat?; let bitsAt ← bitsAt.toNat?; let sizeBits ← sizeBits.toNat?
    let (rc, a, b, c) := Cpp.subspan ⟨d, off⟩ bitsAt sizeBits
    -- an empty window has no observable first byte
    let first := if rc = 0 ∧ b = 0 then "-" else toString a
    some s!"ok {rc} {first} {b} {c}"
  | [op, d, off, value, len] => do
    let d ← parseHex d; let off ← off.toNat?; let len ← len.toNat?
    if op = "x.setu" then
      let value ← value.toNat?
      some (showE showRcBuf (Cpp.setUxx ⟨d, off⟩ value len))
    else if op = "x.seti" then
      let value ← value.toInt?
      some (showE showRcBuf (Cpp.setIxx ⟨d, off⟩ value len))
    else none
  | [op, d, off, n] => do
    let d ← parseHex d; let off ← off.toNat?; let n ← n.toNat?
    if op = "x.setzeros" then some (showE showRcBuf (Cpp.setZeros ⟨d, off⟩ n))
    else if op = "x.setzeros_old" then some (showE showRcBuf (Cpp.setZerosBeforeFix ⟨d, off⟩ n))
    else if op = "x.pad" then some (showE showRcBufOff (Cpp.padAndMoveToAlignment ⟨d, off⟩ n))
    else if op = "x.pad_old" then some (showE showRcBufOff (Cpp.padAndMoveToAlignmentBeforeFix ⟨d, off⟩ n))
    else if op = "x.setbit" then
      if n ≤ 1 then some (showE showRcBuf (Cpp.setBit ⟨d, off⟩ (n = 1))) else none
    else
      match splitOp op "x.getu" with
      | some (W, false) => some (showE toString (Cpp.getU W ⟨d, off⟩ n))
      | _ =>
        match splitOp op "x.geti" with
        | some (W, false) => some (showE toString (Cpp.getI W ⟨d, off⟩ n))
        | _ => none
  | ["x.getbit", d, off] => do
    let d ← parseHex d; let off ← off.toNat?
    some (showE (fun b => if b then "1" else "0") (Cpp.getBit ⟨d, off⟩))
  | _ => none

def parseBits (s : String) : Option (List Bool) :=
  if s = "-" then some [] else
  s.toList.mapM fun c => if c = '1' then some true else if c = '0' then some false else none

def showBits (b : List Bool) : String :=
  if b.isEmpty then "-" else String.ofList (b.map fun x => if x then '1' else '0')

def showSer (s : Py.Ser) : String := toHex s.buf ++ " " ++ toString s.off

def showFetch {α} (f : α → String) (p : α × Py.De) : String := f p.1 ++ " " ++ toString p.2.off

def answerPy (toks : List String) : Option String :=
  match toks with
  | ["p.u2b", value, bl] => do
    let value ← value.toNat?; let bl ← bl.toNat?
    some (showE toHex (Py.unsignedToBytes value bl))
  | ["p.slice", buf, l, r] => do
    let buf ← parseHex buf; let l ← l.toNat?; let r ← r.toNat?
    some (showE toHex (Py.getUnsignedSlice buf l r))
  | ["p.byte", buf, i] => do
    let buf ← parseHex buf; let i ← i.toNat?
    some ("ok " ++ toString (Py.getByte buf i))
  | [op, buf, off, value, bl] => do
    let buf ← parseHex buf; let off ← off.toNat?; let value ← value.toInt?; let bl ← bl.toNat?
    let s : Py.Ser := ⟨buf, off⟩
    if op = "p.add_uu" then some (showE showSer (Py.addUnalignedUnsigned s value bl))
    else if op = "p.add_us" then some (showE showSer (Py.addUnalignedSigned s value bl))
    else if op = "p.add_auns" then some (showE showSer (Py.addAlignedUnsigned s value bl))
    else if op = "p.add_asig" then some (showE showSer (Py.addAlignedSigned s value bl))
    else none
  | [op, buf, off, arg] => do
    let buf ← parseHex buf; let off ← off.toNat?
    let s : Py.Ser := ⟨buf, off⟩
    let d : Py.De := ⟨buf, off⟩
    if op = "p.add_ubytes" then (parseHex arg).map fun v => showE showSer (Py.addUnalignedBytes s v)
    else if op = "p.add_abytes" then (parseHex arg).map fun v => showE showSer (Py.addAlignedBytes s v)
    else if op = "p.add_ubits" then (parseBits arg).map fun v => showE showSer (Py.addUnalignedArrayOfBits s v)
    else if op = "p.add_abits" then (parseBits arg).map fun v => showE showSer (Py.addAlignedArrayOfBits s v)
    else if op = "p.add_ubit" then
      if arg = "1" then some (showE showSer (Py.addUnalignedBit s true))
      else if arg = "0" then some (showE showSer (Py.addUnalignedBit s false)) else none
    else if op = "p.pad" then arg.toNat?.map fun n => showE showSer (Py.padToAlignment s n)
    else if op = "p.f_ubytes" then arg.toNat?.map fun n => showE (showFetch toHex) (Py.fetchUnalignedBytes d n)
    else if op = "p.f_abytes" then arg.toNat?.map fun n => showE (showFetch toHex) (Py.fetchAlignedBytes d n)
    else if op = "p.f_uu" then arg.toNat?.map fun n => showE (showFetch toString) (Py.fetchUnalignedUnsigned d n)
    else if op = "p.f_us" then arg.toNat?.map fun n => showE (showFetch toString) (Py.fetchUnalignedSigned d n)
    else if op = "p.f_auns" then arg.toNat?.map fun n => showE (showFetch toString) (Py.fetchAlignedUnsigned d n)
    else if op = "p.f_asig" then arg.toNat?.map fun n => showE (showFetch toString) (Py.fetchAlignedSigned d n)
    else if op = "p.f_ubits" then arg.toNat?.map fun n => showE (showFetch showBits) (Py.fetchUnalignedArrayOfBits d n)
    else if op = "p.f_abits" then arg.toNat?.map fun n => showE (showFetch showBits) (Py.fetchAlignedArrayOfBits d n)
    else if op = "p.f_pad" then arg.toNat?.map fun n => showE (fun (x : Py.De) => toString x.off) (Py.dePadToAlignment d n)
    else
      match splitOp op "p.add_au", arg.toInt? with
      | some (W, false), some v =>
        some (showE showSer (if W = 8 then Py.addAlignedU8 s v else if W = 16 then Py.addAlignedU16 s v
          else if W = 32 then Py.addAlignedU32 s v else Py.addAlignedU64 s v))
      | _, _ =>
        match splitOp op "p.add_ai", arg.toInt? with
        | some (W, false), some v => some (showE showSer (Py.addAlignedI W s v))
        | _, _ => none
  | [op, buf, off] => do
    let buf ← parseHex buf; let off ← off.toNat?
    let d : Py.De := ⟨buf, off⟩
    if op = "p.f_ubit" then some (showE (showFetch fun (b : Bool) => if b then "1" else "0") (Py.fetchUnalignedBit d))
    else
      match splitOp op "p.f_au" with
      | some (W, false) => some (showE (showFetch toString) (Py.fetchAlignedU W d))
      | _ =>
        match splitOp op "p.f_ai" with
        | some (W, false) => some (showE (showFetch toString) (Py.fetchAlignedI W d))
        | _ => none
  | _ => none

def parseKind (t : String) : Option Py.NpKind :=
  if t = "i8" then some .i8 else if t = "i16" then some .i16 else if t = "i32" then some .i32 else if t = "i64" then some .i64
  else if t = "u8" then some .u8 else if t = "u16" then some .u16 else if t = "u32" then some .u32 else if t = "u64" then some .u64
  else none

/-- `<value>:<type>`; a NumPy scalar must hold a value of its type -/
def parseVal (t : String) : Option Py.PyVal :=
  match t.splitOn ":" with
  | [v] => v.toInt?.map Py.PyVal.int
  | [v, ty] => do
    let v ← v.toInt?
    if ty = "int" then some (.int v)
    else if ty = "bool" then (if v = 0 then some (.bool false) else if v = 1 then some (.bool true) else none)
    else if ty = "npbool" then (if v = 0 then some (.npbool false) else if v = 1 then some (.npbool true) else none)
    else do
      let k ← parseKind ty
      if k.fits v then some (.np k v) else none
  | _ => none

def first64 (sp : Cpp.Span) : String :=
  let n := min sp.size 64
  showE toHex (Cpp.getBits sp (List.replicate 8 0) n)

def answerExt (toks : List String) : Option String :=
  let np := Py.numpy2
  match toks with
  | ["min", a, b] => do
    let a ← a.toNat?; let b ← b.toNat?
    some ("ok " ++ toString (chooseMin a b))
  | ["p.new", n] => n.toNat?.map fun n => "ok " ++ showSer (Py.Ser.new n)
  | ["p.zeb", frags] => do
    let fs ← (if frags = "!" then some [] else (frags.splitOn ",").mapM parseHex)
    let b := Py.zebNew fs
    some s!"ok {toHex b} {Py.zebBitLength b}"
  | [op, a1, a2] => do
    if op = "p.buffer" then
      let buf ← parseHex a1; let off ← a2.toNat?
      some ("ok " ++ toHex (Py.bufferView ⟨buf, off⟩))
    else if op = "p.remaining" then
      let buf ← parseHex a1; let off ← a2.toNat?
      some s!"ok {Py.consumedBitLength ⟨buf, off⟩} {Py.remainingBitLength ⟨buf, off⟩}"
    else if op = "p.bytez" then
      let buf ← parseHex a1; let i ← a2.toInt?
      some (showE toString (Py.getByteZ buf i))
    else if op = "x.zeroall" then
      let d ← parseHex a1; let off ← a2.toNat?
      some (showE showRcBuf (Cpp.setZerosAll ⟨d, off⟩))
    else
      match splitOp op "x.getf" with
      | some (W, false) => do
        let d ← parseHex a1; let off ← a2.toNat?
        some (showE toString (Cpp.getF W ⟨d, off⟩))
      | _ => none
  | [op, a1, a2, a3] => do
    if op = "p.skip" then
      let buf ← parseHex a1; let off ← a2.toNat?; let n ← a3.toInt?
      some (showE showSer (Py.skipBitsZ ⟨buf, off⟩ n))
    else if op = "p.fork" then
      let buf ← parseHex a1; let off ← a2.toNat?; let k ← a3.toNat?
      some (showE showSer (Py.forkBytes ⟨buf, off⟩ k))
    else if op = "p.slicez" then
      let buf ← parseHex a1; let l ← a2.toInt?; let r ← a3.toInt?
      some (showE toHex (Py.getUnsignedSliceZ buf l r))
    else if op = "p.zfork" then
      let buf ← parseHex a1; let o ← a2.toNat?; let l ← a3.toNat?
      some (showE toHex (Py.zebForkBytes buf o l))
    else if op = "p.dfork" then
      let buf ← parseHex a1; let off ← a2.toNat?; let k ← a3.toNat?
      some (showE (fun (f : Py.De) => s!"{toHex f.buf} {Py.remainingBitLength f}") (Py.deForkBytes ⟨buf, off⟩ k))
    else if op = "p.dskip" then
      let buf ← parseHex a1; let off ← a2.toNat?; let n ← a3.toInt?
      some (showE (fun (d : Py.De) => toString d.off) (Py.deSkipBitsZ ⟨buf, off⟩ n))
    else if op = "p.fz_abytes" ∨ op = "p.fz_abits" ∨ op = "p.fz_ubits" ∨ op = "p.fz_auns" ∨ op = "p.fz_uu" then
      let buf ← parseHex a1; let off ← a2.toNat?; let n ← a3.toInt?
      let d : Py.De := ⟨buf, off⟩
      if op = "p.fz_abytes" then some (showE (showFetch toHex) (Py.fetchZ Py.fetchAlignedBytes d n))
      else if op = "p.fz_abits" then some (showE (showFetch showBits) (Py.fetchZ Py.fetchAlignedArrayOfBits d n))
      else if op = "p.fz_ubits" then some (showE (showFetch showBits) (Py.fetchZ Py.fetchUnalignedArrayOfBits d n))
      else if op = "p.fz_auns" then some (showE (showFetch toString) (Py.fetchZ Py.fetchAlignedUnsigned d n))
      else some (showE (showFetch toString) (Py.fetchZ Py.fetchUnalignedUnsigned d n))
    else if op = "p.addf_a" ∨ op = "p.addf_u" ∨ op = "p.addstd_a" ∨ op = "p.addstd_u" then
      let buf ← parseHex a1; let off ← a2.toNat?; let bytes ← parseHex a3
      if op = "p.addf_a" ∨ op = "p.addf_u" then some (showE showSer (Py.addFloat (op = "p.addf_a") ⟨buf, off⟩ bytes))
      else some (showE showSer (Py.addStdArray (op = "p.addstd_a") ⟨buf, off⟩ bytes))
    else if op = "p.ff_a" ∨ op = "p.ff_u" then
      let buf ← parseHex a1; let off ← a2.toNat?; let W ← a3.toNat?
      some (showE (showFetch toHex) (Py.fetchFloat (op = "p.ff_a") ⟨buf, off⟩ W))
    else if op = "pv.add_ubit" then
      let buf ← parseHex a1; let off ← a2.toNat?; let x ← parseVal a3
      some (showE showSer (Py.addUnalignedBitV np ⟨buf, off⟩ x))
    else if op = "x.info" then
      let d ← parseHex a1; let off ← a2.toNat?; let a ← a3.toNat?
      let sp : Cpp.Span := ⟨d, off⟩
      match Cpp.offsetMisalignment sp a, Cpp.offsetAlignsTo sp a, Cpp.offsetAlignsTo sp 8 with
      | .ok m, .ok al, .ok al8 =>
        some s!"ok {sp.size} {sp.off} {Cpp.offsetBytes sp} {Cpp.offsetBytesCeil sp} {m} {if al then 1 else 0} {if al8 then 1 else 0}"
      | _, _, _ => some "err:usage"
    else if op = "x.atoff" then
      let d ← parseHex a1; let off ← a2.toNat?; let bits ← a3.toNat?
      let r := Cpp.atOffset ⟨d, off⟩ bits
      some s!"ok {r.off} {r.size}"
    else if op = "x.sub1" then
      let d ← parseHex a1; let off ← a2.toNat?; let bits ← a3.toNat?
      let r := Cpp.subspan1 ⟨d, off⟩ bits
      some s!"ok {r.off} {r.size} {first64 r}"
    else if op = "x.subbytes" then
      let d ← parseHex a1; let off ← a2.toNat?; let n ← a3.toNat?
      let r := Cpp.subspanBytes ⟨d, off⟩ n
      some s!"ok {r.off} {r.size} {first64 r}"
    else if op = "x.aref" then
      let d ← parseHex a1; let off ← a2.toNat?; let plus ← a3.toNat?
      some (showE (fun (b : Nat) => s!"{Cpp.alignedPtr ⟨d, off⟩ plus} {b}") (Cpp.alignedRef ⟨d, off⟩ plus))
    else
      match splitOp op "x.setf", a3.toNat? with
      | some (W, false), some bits => do
        let d ← parseHex a1; let off ← a2.toNat?
        some (showE showRcBuf (Cpp.setF W ⟨d, off⟩ bits))
      | _, _ =>
        match splitOp op "getf" with
        | some (W, le) => do
          let buf ← parseHex a1; let size ← a2.toNat?; let off ← a3.toNat?
          some (showE toString (getF le W buf size off))
        | none =>
          match splitOp op "pv.add_au", parseVal a3 with
          | some (W, false), some x => do
            let buf ← parseHex a1; let off ← a2.toNat?
            let s : Py.Ser := ⟨buf, off⟩
            some (showE showSer (if W = 8 then Py.addAlignedU8V np s x else if W = 16 then Py.addAlignedU16V np s x
              else if W = 32 then Py.addAlignedU32V np s x else Py.addAlignedU64V np s x))
          | _, _ =>
            match splitOp op "pv.add_ai", parseVal a3 with
            | some (W, false), some x => do
              let buf ← parseHex a1; let off ← a2.toNat?
              some (showE showSer (Py.addAlignedIV np W ⟨buf, off⟩ x))
            | _, _ => none
  | [op, a1, a2, a3, a4] => do
    if op = "pv.add_uu" ∨ op = "pv.add_us" ∨ op = "pv.add_auns" ∨ op = "pv.add_asig" ∨ op = "pv.us_noint" ∨ op = "pv.asig_noint" then
      let buf ← parseHex a1; let off ← a2.toNat?; let x ← parseVal a3; let bl ← a4.toNat?
      let s : Py.Ser := ⟨buf, off⟩
      if op = "pv.add_uu" then some (showE showSer (Py.addUnalignedUnsignedV np s x bl))
      else if op = "pv.add_us" then some (showE showSer (Py.addUnalignedSignedV np s x bl))
      else if op = "pv.add_auns" then some (showE showSer (Py.addAlignedUnsignedV np s x bl))
      else if op = "pv.add_asig" then some (showE showSer (Py.addAlignedSignedV np s x bl))
      else some (showE showSer (Py.addSignedNoInt np (op = "pv.asig_noint") s x bl))
    else if op = "p.fstd_a" ∨ op = "p.fstd_u" then
      let buf ← parseHex a1; let off ← a2.toNat?; let isz ← a3.toNat?; let cnt ← a4.toNat?
      some (showE (showFetch toHex) (Py.fetchStdArray (op = "p.fstd_a") ⟨buf, off⟩ isz cnt))
    else if op = "x.copyall" then
      let dst ← parseHex a1; let dOff ← a2.toNat?; let src ← parseHex a3; let sOff ← a4.toNat?
      some (showE toHex (Cpp.copyToAll ⟨src, sOff⟩ ⟨dst, dOff⟩))
    else
      match splitOp op "setf", a4.toNat? with
      | some (W, le), some bits => do
        let buf ← parseHex a1; let size ← a2.toNat?; let off ← a3.toNat?
        some (showE showRcBuf (setF le W buf size off bits))
      | _, _ => none
  | ["p.forkadd", buf, off, k, value, bl] => do
    let buf ← parseHex buf; let off ← off.toNat?; let k ← k.toNat?; let value ← value.toInt?; let bl ← bl.toNat?
    let s : Py.Ser := ⟨buf, off⟩
    some (showE showSer (do
      let f ← Py.forkBytes s k
      let f' ← Py.addUnalignedUnsigned f value bl
      let s' ← Py.skipBitsZ ⟨Py.joinFork s f', s.off⟩ f'.off
      pure s'))
  | [op, off] =>
    match splitOp op "x.align", off.toNat? with
    | some (W, false), some o => some s!"ok {(Cpp.alignOffsetTo W ⟨[], o⟩).off}"
    | _, _ => none
  | _ => none

end BitsDriver

def answer (line : String) : String :=
  let toks := line.splitOn " "
  match BitsDriver.answerExt toks with
  | some a => a
  | none =>
  match BitsDriver.answerC toks with
  | some a => a
  | none =>
    match BitsDriver.answerCpp toks with
    | some a => a
    | none =>
      match BitsDriver.answerPy toks with
      | some a => a
      | none => "bad-op"

def main : IO Unit := serve answer
