import NunavutVerif.Model.Variant
import NunavutVerif.Model.CppObj
import NunavutVerif.Model.CBuf
import NunavutVerif.Gen.VariantTables
import NunavutVerif.Gen.CArrayKinds
import NunavutVerif.Gen.ErrorCodes
import NunavutVerif.Proto
/-!
Driver for the C04 correspondence.  One request per line:

  `wf <kinds>`                       → `1` / `0` / `unknown`      well-formedness of the generated program of union <kinds>
  `run <kinds> <slots> <ops>`        → `ok tags=<t|->/… owning=<n>` | `fault <kind> <member> op=<index>`
        ops: comma list of `c<d>` ctor, `cc<d>.<s>` copy-ctor, `mc<d>.<s>` move-ctor, `e<d>.<i>` emplace<i>,
        `ca<d>.<s>` copy-assign, `ma<d>.<s>` move-assign, `d<d>` destructor (`-` = no op); `owning` = number of live
        members whose type owns memory, over all slots
  `twice <fix 0|1> <T> <hexA> <hexB>` → `ok sizes=<n.n…|-> consumed=<bytes>` | `err:<kind>` | `first:<kind>`
        decode A into a value-initialised C++ object, then B into the same object (`fix` = repaired template);
        sizes = sizes of all containers of the final object in traversal order
  `cser <checkCap> <cmpStorage> <capBytes> <fields> <vals>` / `cde <cmpStorage> <fields> <hex>`
  `cserapi <objNull> <bufNull> <sizeNull> <checkCap> <cmpStorage> <capBytes> <fields> <vals>` / `cdeapi <objNull> <bufNull> <sizeNull> <cmpStorage> <fields> <hex>`
  `rowfield <kind> <override> <little> <lp> <eb> <cap> <usr>` (Gen/CArrayKinds) / `codes c|cpp|c-returned|cpp-returned` (Gen/ErrorCodes)
  fields: `p:w:c` | `v:lp:eb:cap:sl:lpc:ec` | `vb:lp:cap:sl:storMacro:cmpS:cmpD:lpc` | `fa:eb:cap:ec` | `fb:cap`
        the flat index-safety model (`Model/CBuf.lean`); fields `;`-separated `p:<w>:<checked>` |
        `v:<lp>:<eb>:<cap>:<sl>:<lpChecked>:<elemsChecked>`; vals `p` | `c:<count>`
        → `ok <bits>` | `err:<code>` | `oob-buffer` | `oob-object` | `shape`
-/
open NunavutVerif NunavutVerif.Proto

namespace VDrv
open NunavutVerif.Variant

def parseOp (s : String) : Option Op :=
  let two (rest : String) : Option (Nat × Nat) :=
    match rest.splitOn "." with
    | [a, b] => match a.toNat?, b.toNat? with | some x, some y => some (x, y) | _, _ => none
    | _ => none
  if s.startsWith "cc" then (two (s.drop 2).toString).map fun (d, t) => .copyCtor d t
  else if s.startsWith "mc" then (two (s.drop 2).toString).map fun (d, t) => .moveCtor d t
  else if s.startsWith "ca" then (two (s.drop 2).toString).map fun (d, t) => .copyAssign d t
  else if s.startsWith "ma" then (two (s.drop 2).toString).map fun (d, t) => .moveAssign d t
  else if s.startsWith "c" then (s.drop 1).toString.toNat?.map .ctor
  else if s.startsWith "e" then (two (s.drop 1).toString).map fun (d, i) => .emplace d i
  else if s.startsWith "d" then (s.drop 1).toString.toNat?.map .dtor
  else none

def showFault : Fault → String
  | .wildDestroy m => s!"wild-destroy {m}"
  | .typeConfusion m => s!"type-confusion {m}"
  | .leak m => s!"leak {m}"
  | .readDead m => s!"read-dead {m}"
  | .badAlt => "bad-alt 0"

def owning (p : Prog) (w : World) : Nat :=
  w.foldl (fun acc s =>
    match s with
    | none => acc
    | some o => acc + ((o.live.zip p.nontrivial).filter fun (l, nt) => l && nt).length) 0

def showWorld (p : Prog) (w : World) : String :=
  let tags := w.map fun s => match s with | none => "-" | some o => toString o.tag
  s!"ok tags={"/".intercalate tags} owning={owning p w}"

def runOps (p : Prog) : World → List Op → Nat → String
  | w, [], _ => showWorld p w
  | w, op :: rest, i =>
    match step p w op with
    | .error f => s!"fault {showFault f} op={i}"
    | .ok w' => runOps p w' rest (i + 1)

def answerRun (kinds slots ops : String) : String :=
  match Gen.VariantTables.progOf kinds, slots.toNat? with
  | some p, some k =>
    let opl := if ops = "-" then some [] else (splitOnChar ops ',').mapM parseOp
    match opl with
    | some l => runOps p (emptyWorld k) l 0
    | none => "bad-op"
  | _, _ => "bad-op"

end VDrv

namespace XDrv
open NunavutVerif.Dsdl NunavutVerif.CppObj

/-- tokens of a type expression: "(" ")" and atoms -/
def tokenize (s : String) : List String :=
  let rec go (cs : List Char) (cur : List Char) (acc : List String) : List String :=
    match cs with
    | [] => (if cur.isEmpty then acc else String.ofList cur.reverse :: acc).reverse
    | c :: rest =>
      if c = '(' || c = ')' then
        go rest [] (String.singleton c :: (if cur.isEmpty then acc else String.ofList cur.reverse :: acc))
      else if c = ' ' then go rest [] (if cur.isEmpty then acc else String.ofList cur.reverse :: acc)
      else go rest (c :: cur) acc
  go s.toList [] []

def parseCast (s : String) : Option Cast :=
  if s = "s" then some .sat else if s = "t" then some .trunc else none

mutual
partial def parseTy : List String → Option (Ty × List String)
  | "(" :: "u" :: n :: m :: ")" :: rest => do some (.uint (← n.toNat?) (← parseCast m), rest)
  | "(" :: "i" :: n :: m :: ")" :: rest => do some (.sint (← n.toNat?) (← parseCast m), rest)
  | "(" :: "f" :: n :: m :: ")" :: rest => do some (.float (← n.toNat?) (← parseCast m), rest)
  | "(" :: "b" :: ")" :: rest => some (.bool, rest)
  | "(" :: "v" :: n :: ")" :: rest => do some (.void (← n.toNat?), rest)
  | "(" :: "a" :: rest => do
    let (t, r1) ← parseTy rest
    match r1 with
    | n :: ")" :: r2 => some (.arr t (← n.toNat?), r2)
    | _ => none
  | "(" :: "l" :: rest => do
    let (t, r1) ← parseTy rest
    match r1 with
    | n :: ")" :: r2 => some (.varr t (← n.toNat?), r2)
    | _ => none
  | "(" :: "s" :: rest => do let (fs, r) ← parseTys rest; some (.struct fs, r)
  | "(" :: "n" :: rest => do let (fs, r) ← parseTys rest; some (.union fs, r)
  | "(" :: "d" :: e :: rest => do
    let (t, r1) ← parseTy rest
    match r1 with
    | ")" :: r2 => some (.delim (← e.toNat?) t, r2)
    | _ => none
  | _ => none
partial def parseTys : List String → Option (List Ty × List String)
  | ")" :: rest => some ([], rest)
  | toks => do
    let (t, r) ← parseTy toks
    let (ts, r2) ← parseTys r
    some (t :: ts, r2)
end

def hexVal (c : Char) : Option Nat :=
  if '0' ≤ c ∧ c ≤ '9' then some (c.toNat - 48)
  else if 'a' ≤ c ∧ c ≤ 'f' then some (c.toNat - 87)
  else if 'A' ≤ c ∧ c ≤ 'F' then some (c.toNat - 55)
  else none

def parseHex (s : String) : Option (List Nat) :=
  if s = "-" then some [] else
  let rec go : List Char → Option (List Nat)
    | [] => some []
    | a :: b :: rest => do some (((← hexVal a) * 16 + (← hexVal b)) :: (← go rest))
    | _ => none
  go s.toList

def showDeErr : DeErr → String
  | .badArrayLength => "bad-array-length"
  | .badUnionTag => "bad-union-tag"
  | .badDelimiterHeader => "bad-delimiter-header"

def showErr : Err → String
  | .de e => showDeErr e
  | .shape => "shape"

def answerTwice (fix : String) (tyToks : List String) (hexA hexB : String) : String :=
  match parseTy tyToks, parseHex hexA, parseHex hexB with
  | some (t, []), some a, some b =>
    let fx := fix = "1"
    let o0 := defaultX (topInner t)
    match deIntoTop fx t (unpackBytes a) o0 with
    | .error e => "first:" ++ showErr e
    | .ok (o1, _) =>
      match deIntoTop fx t (unpackBytes b) o1 with
      | .error e => "err:" ++ showErr e
      | .ok (o2, n) =>
        let sz := sizes o2
        let s := if sz.isEmpty then "-" else ".".intercalate (sz.map toString)
        s!"ok sizes={s} consumed={(n + 7) / 8}"
  | _, _, _ => "bad-op"

end XDrv

namespace BDrv
open NunavutVerif.CBuf

def parseBool (s : String) : Option Bool := if s = "1" then some true else if s = "0" then some false else none

def parseCmp (s : String) : Option Cmp := if s = "lit" then some .lit else if s = "macro" then some .macro else none

def parseField (s : String) : Option Field :=
  match s.splitOn ":" with
  | ["p", w, c] => do some (.prim (← w.toNat?) (← parseBool c))
  | ["v", lp, eb, cap, sl, a, b] =>
    do some (.varr (← lp.toNat?) (← eb.toNat?) (← cap.toNat?) (← sl.toNat?) (← parseBool a) (← parseBool b))
  | ["vb", lp, cap, sl, sm, cS, cD, a] =>
    do some (.vbits (← lp.toNat?) (← cap.toNat?) (← sl.toNat?) (← parseBool sm) (← parseCmp cS) (← parseCmp cD) (← parseBool a))
  | ["fa", eb, cap, c] => do some (.farr (← eb.toNat?) (← cap.toNat?) (← parseBool c))
  | ["fb", cap] => do some (.fbits (← cap.toNat?))
  | _ => none

def b01 (b : Bool) : String := if b then "1" else "0"

def showCmp : Cmp → String
  | .lit => "lit"
  | .macro => "macro"

def showField : Field → String
  | .prim w c => s!"p:{w}:{b01 c}"
  | .varr lp eb cap sl a b => s!"v:{lp}:{eb}:{cap}:{sl}:{b01 a}:{b01 b}"
  | .vbits lp cap sl sm cS cD a => s!"vb:{lp}:{cap}:{sl}:{b01 sm}:{showCmp cS}:{showCmp cD}:{b01 a}"
  | .farr eb cap c => s!"fa:{eb}:{cap}:{b01 c}"
  | .fbits cap => s!"fb:{cap}"

/-- `rowfield <kind> <override> <little> <lp> <eb> <cap> <usr>`: the model field of the generated table's row -/
def answerRowField (kind ov le lp eb cap usr : String) : String :=
  match parseBool ov, parseBool le, lp.toNat?, eb.toNat?, cap.toNat?, usr.toNat? with
  | some ov, some le, some lp, some eb, some cap, some usr =>
    match Gen.CArrayKinds.rows.find? (fun r => r.kind == kind && r.override == ov && r.little == le) with
    | some r =>
      match r.field lp eb cap usr with
      | some f => s!"ok {showField f} cs={b01 r.cs} safe={b01 r.safe}"
      | none => s!"inexpressible safe={b01 r.safe}"
    | none => "unknown-row"
  | _, _, _, _, _, _ => "bad-op"

def showCodes (l : List (String × Nat)) : String := ",".intercalate (l.map fun p => s!"{p.1}={p.2}")

def parseVal (s : String) : Option FVal :=
  match s.splitOn ":" with
  | ["p"] => some .prim
  | ["c", n] => n.toNat?.map .count
  | _ => none

def showOut : Out → String
  | .ok b => s!"ok {b}"
  | .err .bufferTooSmall => "err:buffer-too-small"
  | .err .badArrayLength => "err:bad-array-length"
  | .err .badUnionTag => "err:bad-union-tag"
  | .err .invalidArgument => "err:invalid-argument"
  | .oobBuffer _ _ => "oob-buffer"
  | .oobObject _ _ => "oob-object"
  | .shape => "shape"

/-- little-endian bit read with implicit zero extension -/
def rdBytes (bytes : List Nat) (off len : Nat) : Nat :=
  let bits := NunavutVerif.Dsdl.unpackBytes bytes
  NunavutVerif.Dsdl.readNat len (bits.drop off)

end BDrv

def answer (line : String) : String :=
  match line.splitOn " " with
  | ["wf", kinds] =>
    match Gen.VariantTables.progOf kinds with
    | some p => if p.wf then "1" else "0"
    | none => "unknown"
  | ["run", kinds, slots, ops] => VDrv.answerRun kinds slots ops
  | "twice" :: fix :: rest =>
    -- the type expression contains spaces: the last two tokens are the byte strings
    match rest.reverse with
    | hexB :: hexA :: tyRev => XDrv.answerTwice fix (XDrv.tokenize (" ".intercalate tyRev.reverse)) hexA hexB
    | _ => "bad-op"
  | ["cser", cc, cs, cap, fields, vals] =>
    match BDrv.parseBool cc, BDrv.parseBool cs, cap.toNat?, (splitOnChar fields ';').mapM BDrv.parseField,
          (splitOnChar vals ';').mapM BDrv.parseVal with
    | some cc, some cs, some cap, some fs, some vs => BDrv.showOut (CBuf.ser cc cs (.struct fs) (.struct vs) cap)
    | _, _, _, _, _ => "bad-op"
  | ["cserapi", n1, n2, n3, cc, cs, cap, fields, vals] =>
    match BDrv.parseBool n1, BDrv.parseBool n2, BDrv.parseBool n3, BDrv.parseBool cc, BDrv.parseBool cs, cap.toNat?,
          (splitOnChar fields ';').mapM BDrv.parseField, (splitOnChar vals ';').mapM BDrv.parseVal with
    | some n1, some n2, some n3, some cc, some cs, some cap, some fs, some vs =>
      BDrv.showOut (CBuf.serApi n1 n2 n3 cc cs (.struct fs) (.struct vs) cap)
    | _, _, _, _, _, _, _, _ => "bad-op"
  | ["cdeapi", n1, n2, n3, cs, fields, hex] =>
    match BDrv.parseBool n1, BDrv.parseBool n2, BDrv.parseBool n3, BDrv.parseBool cs, (splitOnChar fields ';').mapM BDrv.parseField,
          XDrv.parseHex hex with
    | some n1, some n2, some n3, some cs, some fs, some bytes =>
      BDrv.showOut (CBuf.deApi n1 n2 n3 bytes.length cs (BDrv.rdBytes bytes) (.struct fs))
    | _, _, _, _, _, _ => "bad-op"
  | ["rowfield", kind, ov, le, lp, eb, cap, usr] => BDrv.answerRowField kind ov le lp eb cap usr
  | ["codes", "c"] => BDrv.showCodes Gen.ErrorCodes.c
  | ["codes", "cpp"] => BDrv.showCodes Gen.ErrorCodes.cpp
  | ["codes", "c-returned"] => ",".intercalate Gen.ErrorCodes.cReturned
  | ["codes", "cpp-returned"] => ",".intercalate Gen.ErrorCodes.cppReturned
  | ["cde", cs, fields, hex] =>
    match BDrv.parseBool cs, (splitOnChar fields ';').mapM BDrv.parseField, XDrv.parseHex hex with
    | some cs, some fs, some bytes => BDrv.showOut (CBuf.de cs (BDrv.rdBytes bytes) (.struct fs))
    | _, _, _ => "bad-op"
  | _ => "bad-op"

def main : IO Unit := serve answer
