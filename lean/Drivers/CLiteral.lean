import NunavutVerif.Model.CLiteral
import NunavutVerif.Gen.CLiteralCfg
import NunavutVerif.Proto
/-!
Driver for the constant-literal slice of C05.  One request per line (strings: `.`-separated code points, `-` empty):

  `lit <cfg> <ty> <val>`   `filterLiteral`            → `ok <str>` | `err:<kind>`
  `old <cfg> <ty> <val>`   `filterLiteralBeforeFix`   → same
  `py <ty> <val>`          `pyConstantExpr`           → same
  `macro <str>`            `cMacroBody`               → `<str>`
  `evalc <c11|cpp14> <str>`   lex + parse + evaluate  → `int <ctype> <value>` | `flt <ctype> <hex bits>` | `err:<kind>`
  `evalpy <str>`              Python expression       → `int <v>` | `bool <0|1>` | `float <hex bits>` | `err:<kind>`
  `repr <hex bits64>`      `pyFloatRepr`              → `<str>`
  `short <hex bits64>`     `shortestDigits?` found and `reprReadsBack` → `1` | `0`
  `isexact <int>`          `isExact`                  → `1` | `0`
  `div <n> <d>`            `pyTrueDiv`                → `<hex bits>` | `err:<kind>`
  `rne <32|64> <n> <d>`    `roundTo` of the rational `n / d ≥ 0` → `<hex bits>`

  cfg: `c` | `cpp` (generated from properties.yaml) | `x:<true>:<false>:<fmt>`, fmt: `N` (option missing) or a
       `,`-list of `l<str>` / `t` / `v`
  ty:  `b` | `u<w>` | `s<w>` | `f<w>` | `o`
  val: `T` | `F` | `<num>/<den>`
-/
open NunavutVerif NunavutVerif.CLiteral NunavutVerif.Proto

def hexOf (n : Nat) : String := String.ofList (Nat.toDigits 16 n)

def parseHex (s : String) : Option Nat :=
  s.toList.foldlM (fun acc c =>
    if c.isDigit then some (acc * 16 + (c.toNat - '0'.toNat))
    else if 'a' ≤ c ∧ c ≤ 'f' then some (acc * 16 + (c.toNat - 'a'.toNat + 10))
    else if 'A' ≤ c ∧ c ≤ 'F' then some (acc * 16 + (c.toNat - 'A'.toNat + 10))
    else none) 0

def parseTy (s : String) : Option DTy :=
  if s = "b" then some .bool
  else if s = "o" then some .other
  else if s.startsWith "u" then (s.drop 1).toString.toNat?.map DTy.uint
  else if s.startsWith "s" then (s.drop 1).toString.toNat?.map DTy.sint
  else if s.startsWith "f" then (s.drop 1).toString.toNat?.map DTy.float
  else none

def parseVal (s : String) : Option PyVal :=
  if s = "T" then some (.bool true)
  else if s = "F" then some (.bool false)
  else match s.splitOn "/" with
    | [a, b] =>
      match a.toInt?, b.toNat? with
      | some n, some d => some (.frac ⟨n, d⟩)
      | _, _ => none
    | _ => none

def parsePiece (s : String) : Option FmtPiece :=
  if s = "t" then some .ty
  else if s = "v" then some .val
  else if s.startsWith "l" then (decodeStr (s.drop 1).toString).map FmtPiece.lit
  else none

def parseCfg (s : String) : Option LangCfg :=
  if s = "c" then some Gen.cCfg
  else if s = "cpp" then some Gen.cppCfg
  else match s.splitOn ":" with
    | ["x", t, f, fmt] =>
      match decodeStr t, decodeStr f with
      | some t, some f =>
        if fmt = "N" then some ⟨t, f, none⟩
        else ((splitOnChar fmt ',').mapM parsePiece).map fun ps => ⟨t, f, some ps⟩
      | _, _ => none
    | _ => none

def showRenderErr : RenderErr → String
  | .castFormatMissing => "err:cast-format-missing"
  | .notALiteralType => "err:not-a-literal-type"
  | .tooWide => "err:too-wide"
  | .overflow => "err:overflow"
  | .zeroDivision => "err:zero-division"

def showRender : Except RenderErr Str → String
  | .ok s => "ok " ++ encodeStr s
  | .error e => showRenderErr e

def showCType : CType → String
  | .bool => "bool" | .int => "int" | .uint => "uint" | .long => "long" | .ulong => "ulong"
  | .llong => "llong" | .ullong => "ullong" | .float => "float" | .double => "double"

def showEvalErr : EvalErr → String
  | .lex => "err:lex" | .parse => "err:parse" | .intLiteralNoType => "err:int-literal-no-type"
  | .signedOverflow => "err:signed-overflow" | .divisionByZero => "err:division-by-zero"
  | .fltLiteralRange => "err:float-literal-range" | .castRange => "err:cast-range" | .unsupported => "err:unsupported"

def showCVal : Except EvalErr CVal → String
  | .ok (.int t v) => s!"int {showCType t} {v}"
  | .ok (.flt t x) => s!"flt {showCType t} {hexOf (toBits t.fmt x)}"
  | .error e => showEvalErr e

def showPyV : Except PyErr PyV → String
  | .ok (.int v) => s!"int {v}"
  | .ok (.bool b) => if b then "bool 1" else "bool 0"
  | .ok (.float x) => s!"float {hexOf (toBits binary64 x)}"
  | .error .lex => "err:lex" | .error .parse => "err:parse" | .error .overflow => "err:overflow"
  | .error .zeroDivision => "err:zero-division" | .error .unsupported => "err:unsupported"

def answer (line : String) : String :=
  match line.splitOn " " with
  | ["lit", cfg, ty, val] =>
    match parseCfg cfg, parseTy ty, parseVal val with
    | some c, some t, some v => showRender (filterLiteral c v t)
    | _, _, _ => "bad-op"
  | ["old", cfg, ty, val] =>
    match parseCfg cfg, parseTy ty, parseVal val with
    | some c, some t, some v => showRender (filterLiteralBeforeFix c v t)
    | _, _, _ => "bad-op"
  | ["py", ty, val] =>
    match parseTy ty, parseVal val with
    | some t, some v => showRender (pyConstantExpr v t)
    | _, _ => "bad-op"
  | ["macro", s] =>
    match decodeStr s with
    | some cs => encodeStr (cMacroBody cs)
    | none => "bad-op"
  | ["evalc", d, s] =>
    match (if d = "c11" then some Dialect.c11 else if d = "cpp14" then some Dialect.cpp14 else none), decodeStr s with
    | some d, some cs => showCVal (evalStr d cs)
    | _, _ => "bad-op"
  | ["evalpy", s] =>
    match decodeStr s with
    | some cs => showPyV (pyEvalStr cs)
    | none => "bad-op"
  | ["repr", h] =>
    match parseHex h with
    | some b => encodeStr (pyFloatRepr (ofBits binary64 b))
    | none => "bad-op"
  | ["short", h] =>
    match parseHex h with
    | some b =>
      match ofBits binary64 b with
      | .fin _ m E => if (m = 0 ∨ (shortestDigits? m E).isSome) ∧ reprReadsBack m E then "1" else "0"
      | _ => "1"
    | none => "bad-op"
  | ["isexact", x] =>
    match x.toInt? with
    | some i => if isExact i then "1" else "0"
    | none => "bad-op"
  | ["div", n, d] =>
    match n.toInt?, d.toInt? with
    | some n, some d =>
      match pyTrueDiv n d with
      | .ok x => hexOf (toBits binary64 x)
      | .error e => showRenderErr e
    | _, _ => "bad-op"
  | ["rne", w, n, d] =>
    match (if w = "32" then some binary32 else if w = "64" then some binary64 else none), n.toNat?, d.toNat? with
    | some f, some n, some d =>
      if d = 0 then "bad-op" else hexOf (toBits f (roundTo f false (n * 2 ^ f.bias) d))
    | _, _, _ => "bad-op"
  | _ => "bad-op"

def main : IO Unit := serve answer
