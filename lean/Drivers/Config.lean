import NunavutVerif.Model.Config
import NunavutVerif.Model.ConfigHeap
import NunavutVerif.Model.ConfigCtx
import NunavutVerif.Gen.CppDefaults
import NunavutVerif.Gen.LangTable
import NunavutVerif.Proto
/-!
Driver for the C13 correspondence.  One request per line, tokens separated by one blank.

Values:   `S<atom>` scalar · `D<atom>` DefaultValue · `[a,a,…]` list · `{k=V;k=V;…}` mapping
Heap:     objects separated by `|` (`-` = empty heap), object = `{k=E;…}`, entry E = `S<atom>` · `D<atom>` ·
          `[…]` · `@<address>`
Atoms:    raw over `[A-Za-z0-9_.:+-]` (non-empty) or `%<hex of UTF-8>`

  merge <T> <S>…                 fold of `deep_update` (any values)            → ok <V> | err:<e>
  cfg <C> <doc>…                 `LanguageConfig.update` sequence               → ok <V> | err:<e>
  build <C0> <op>…               builder: F<V> O<k>=<V|!> L<k|!> C (create) X / P (create, then the C++ / Python
                                 language class post-processes its section)
                                 → the configuration after every create, then `err:<e>` if a call raised
  cppstd <defaults|gen> <opts>   `_validate_language_options`                    → ok <V> | err:<e>
  hmerge <0|1> <heap> <E> <a,…>  object-level merges of the dicts at a,… into E (1 = fixed code)
                                 → ok <V result> <initial addresses reachable from the result> <V of each source>
  proc <C0> <pop>…               a process history (`Model/ConfigCtx.lean`): file system, builders, contexts, reads through
                                 every access path.  `/`-separated fields:
                                   W/<path>/<V>  B/<b>/<0|1>  A/<b>/<p,p,…|->  O/<b>/<k>/<V|!>  L/<b>/<k|!>  C/<b>/<j>
                                   R/<b>/<j>/<cv|co|lv|lo>/<sect|name>/<key>   R/<b>/<j>/<tv|to>/<key>   R/<b>/<j>/nm
                                 → one answer per op: `-` · `v<V>` · `v!` · `n<name,…>` (sorted) · `err:<e>`
  ynorm <Y>                      PyYAML's mapping constructor on a mapping node with possibly repeated keys → ok <V>
  ycfg <C> <Y>…                  `update_from_yaml_string` sequence: construct each document, then `update`
                                 → ok <V> | err:<e>
-/
open NunavutVerif NunavutVerif.Config NunavutVerif.Proto

abbrev PV := V String String
abbrev PM := M String String

/-! ### atoms -/

def atomChar (c : Char) : Bool := c.isAlphanum || c = '_' || c = '.' || c = ':' || c = '+' || c = '-'

def hexVal (c : Char) : Option Nat :=
  if '0' ≤ c ∧ c ≤ '9' then some (c.toNat - '0'.toNat)
  else if 'a' ≤ c ∧ c ≤ 'f' then some (c.toNat - 'a'.toNat + 10)
  else none

def unhex : List Char → Option (List UInt8)
  | [] => some []
  | a :: b :: r => do
    let x ← hexVal a
    let y ← hexVal b
    let rest ← unhex r
    pure (UInt8.ofNat (x * 16 + y) :: rest)
  | _ => none

def hexDigit (n : Nat) : Char := if n < 10 then Char.ofNat (48 + n) else Char.ofNat (87 + n)

def encAtom (s : String) : String :=
  if s ≠ "" ∧ s.toList.all atomChar then s
  else "%" ++ String.ofList (s.toUTF8.toList.flatMap fun b => [hexDigit (b.toNat / 16), hexDigit (b.toNat % 16)])

/-- Take an atom from the front of the input. -/
def takeAtom (cs : List Char) : Option (String × List Char) :=
  match cs with
  | '%' :: r =>
    let hx := r.takeWhile fun c => (hexVal c).isSome
    match unhex hx with
    | some bytes =>
      match String.fromUTF8? (ByteArray.mk bytes.toArray) with
      | some s => some (s, r.drop hx.length)
      | none => none
    | none => none
  | _ =>
    let a := cs.takeWhile atomChar
    if a.isEmpty then none else some (String.ofList a, cs.drop a.length)

partial def takeAtoms (cs : List Char) (acc : List String) : Option (List String × List Char) :=
  match cs with
  | ']' :: r => some (acc.reverse, r)
  | _ =>
    match takeAtom cs with
    | some (a, ',' :: r) => takeAtoms r (a :: acc)
    | some (a, ']' :: r) => some ((a :: acc).reverse, r)
    | _ => none

/-! ### values -/

mutual
partial def parseV (cs : List Char) : Option (PV × List Char) :=
  match cs with
  | 'S' :: r => (takeAtom r).map fun (a, r') => (.scalar a, r')
  | 'D' :: r => (takeAtom r).map fun (a, r') => (.dflt a, r')
  | '[' :: r => (takeAtoms r []).map fun (as, r') => (.list as, r')
  | '{' :: r => (parseEntries r).map fun (m, r') => (.map m, r')
  | _ => none
partial def parseEntries (cs : List Char) : Option (PM × List Char) :=
  match cs with
  | '}' :: r => some (.nil, r)
  | _ =>
    match takeAtom cs with
    | some (k, '=' :: r) =>
      match parseV r with
      | some (v, ';' :: r') => (parseEntries r').map fun (m, r'') => (.cons k v m, r'')
      | some (v, '}' :: r') => some (.cons k v .nil, r')
      | _ => none
    | _ => none
end

def parseValue (s : String) : Option PV :=
  match parseV s.toList with
  | some (v, []) => if v.wf then some v else none
  | _ => none

mutual
partial def showV : PV → String
  | .scalar a => "S" ++ encAtom a
  | .dflt a => "D" ++ encAtom a
  | .list as => "[" ++ ",".intercalate (as.map encAtom) ++ "]"
  | .map m => "{" ++ ";".intercalate (showEntries m) ++ "}"
partial def showEntries : PM → List String
  | .nil => []
  | .cons k v rest => (encAtom k ++ "=" ++ showV v) :: showEntries rest
end

def showErr : Err → String
  | .notMapping => "err:notMapping"
  | .badSection => "err:badSection"
  | .missingStd => "err:missingStd"
  | .unhashable => "err:unhashable"
  | .groupNotMapping => "err:groupNotMapping"
  | .missingCtor => "err:missingCtor"
  | .badCtor => "err:badCtor"
  | .allocatorRequired => "err:allocatorRequired"

def showHErr : HErr → String
  | .recursion => "err:recursion"
  | .dangling => "err:dangling"
  | .changedSize => "err:changedSize"

/-! ### the concrete instantiation of the model's parameters -/

/-- `SECTION_NAME_PATTERN = ^nunavut\.lang\.([a-zA-Z]{1}\w*)$` (ASCII `\w`; `$` also matches before one
trailing newline). -/
def validSection (s : String) : Bool :=
  let p := "nunavut.lang.".toList
  let cs := s.toList
  if cs.take p.length ≠ p then false else
  let r := cs.drop p.length
  let r := if r.getLast? = some '\n' then r.dropLast else r
  match r with
  | [] => false
  | c :: rest => c.isAlpha && rest.all fun d => d.isAlphanum || d = '_'

def dfltLang : String := "nunavut.lang.c"
def extKey : String := "extension"

/-- Python `==` of two configuration values: a `DefaultValue` compares like its value. -/
def pyEq (a b : PV) : Bool := decide (a.stripDflt = b.stripDflt)

def atomFalsy (a : String) : Bool :=
  a = "n:" || a = "b:false" || a = "i:0" || a = "s:" || a = "f:0x0.0p+0" || a = "f:-0x0.0p+0"

def falsy : PV → Bool
  | .scalar a => atomFalsy a
  | .dflt a => atomFalsy a
  | .list xs => xs.isEmpty
  | .map .nil => true
  | .map _ => false

/-- `ConstructorConvention.from_string(s)`: `s.lower().replace("_", "-")` against the three names;
`some true` = DEFAULT.  (Only `str` values are in the domain of the correspondence.) -/
def ctorOf : PV → Option Bool
  | .scalar a =>
    if a.startsWith "s:" then
      let n := String.ofList (((a.toList.drop 2).map Char.toLower).map fun c => if c = '_' then '-' else c)
      if n = "default" then some true
      else if n = "uses-leading-allocator" ∨ n = "uses-trailing-allocator" then some false
      else none
    else none
  | _ => none

def cppKeys : CppKeys String String :=
  { options := "options", defaults := "defaults", std := Gen.stdKey, ctor := Gen.ctorKey, alloc := Gen.allocKey,
    nameKey := Gen.nameKey, ctorOf := ctorOf, falsy := falsy }

/-! ### ops -/

def opMerge (args : List String) : String :=
  match args.mapM parseValue with
  | some (t :: ss) =>
    let r := ss.foldl (fun (acc : Except Err PV) s => match acc with
      | .ok t => deepUpdateAny t s
      | .error e => .error e) (.ok t)
    (match r with
     | .ok v => "ok " ++ showV v
     | .error e => showErr e)
  | _ => "bad-op"

def opCfg (args : List String) : String :=
  match args.mapM parseValue with
  | some (.map c :: docs) =>
    let r := docs.foldl (fun (acc : Except Err PM) d => match acc with
      | .ok c => update validSection c d
      | .error e => .error e) (.ok c)
    (match r with
     | .ok c => "ok " ++ showV (.map c)
     | .error e => showErr e)
  | _ => "bad-op"

inductive BOp where
  | op (o : Op String String)
  | create (kind : Nat)   -- 0 generic language, 1 C++, 2 Python

def parseBOp (s : String) : Option BOp :=
  match s.toList with
  | ['C'] => some (.create 0)
  | ['X'] => some (.create 1)
  | ['P'] => some (.create 2)
  | 'F' :: r => (parseValue (String.ofList r)).map fun v => .op (.addFile v)
  | ['L', '!'] => some (.op (.setLanguage none))
  | 'L' :: r =>
    (match takeAtom r with
     | some (k, []) => some (.op (.setLanguage (some k)))
     | _ => none)
  | 'O' :: r =>
    (match takeAtom r with
     | some (k, ['=', '!']) => some (.op (.setOverride k none))
     | some (k, '=' :: r') => (parseValue (String.ofList r')).map fun v => .op (.setOverride k (some v))
     | _ => none)
  | _ => none

def runBuild (b : Builder String String) : List BOp → List String → List String
  | [], out => out.reverse
  | .op o :: rest, out =>
    (match b.apply validSection dfltLang o with
     | .ok b' => runBuild b' rest out
     | .error e => (showErr e :: out).reverse)
  | .create kind :: rest, out =>
    let b' := b.create (resolveLang extKey dfltLang pyEq)
    let l := match b.lang with
      | some l => l
      | none => resolveLang extKey dfltLang pyEq b.config b.overrides
    if kind = 2 then
      match b'.config.get l with
      | some (.map sec) =>
        let sec' := pyValidateSection "options" "enable_serialization_asserts" (.scalar "b:true") sec
        let b'' := { b' with config := b'.config.set l (.map sec') }
        runBuild b'' rest (showV (.map b''.config) :: out)
      | _ => ("err:noSection" :: out).reverse
    else if kind = 1 then
      match b'.config.get l with
      | some (.map sec) =>
        (match cppValidateSection cppKeys sec with
         | .ok sec' =>
           let b'' := { b' with config := b'.config.set l (.map sec') }
           runBuild b'' rest (showV (.map b''.config) :: out)
         | .error e => (showErr e :: out).reverse)
      | _ => ("err:noSection" :: out).reverse
    else runBuild b' rest (showV (.map b'.config) :: out)

def opBuild (args : List String) : String :=
  match args with
  | c0 :: ops =>
    (match parseValue c0, ops.mapM parseBOp with
     | some (.map c), some bops => " ".intercalate ("ok" :: runBuild ⟨c, .nil, none⟩ bops [])
     | _, _ => "bad-op")
  | _ => "bad-op"

def opCppStd (args : List String) : String :=
  match args with
  | [d, o] =>
    let defaults : Option PM := if d = "gen" then some Gen.cppDefaults else
      match parseValue d with
      | some (.map m) => some m
      | _ => none
    (match defaults, parseValue o with
     | some dm, some (.map om) =>
       (match applyStdDefaults cppKeys.std cppKeys.nameKey dm om with
        | .error e => showErr e
        | .ok o' =>
          match checkCtor cppKeys.ctor cppKeys.alloc ctorOf falsy o' with
          | .error e => showErr e
          | .ok _ => "ok " ++ showV (.map o'))
     | _, _ => "bad-op")
  | _ => "bad-op"

/-! ### heap -/

def parseHV (cs : List Char) : Option (HV String × List Char) :=
  match cs with
  | 'S' :: r => (takeAtom r).map fun (a, r') => (.scalar a, r')
  | 'D' :: r => (takeAtom r).map fun (a, r') => (.dflt a, r')
  | '[' :: r => (takeAtoms r []).map fun (as, r') => (.list as, r')
  | '@' :: r =>
    let ds := r.takeWhile Char.isDigit
    (String.ofList ds).toNat?.map fun n => (.ref n, r.drop ds.length)
  | _ => none

partial def parseObjEntries (cs : List Char) : Option (Obj String String × List Char) :=
  match cs with
  | '}' :: r => some ([], r)
  | _ =>
    match takeAtom cs with
    | some (k, '=' :: r) =>
      match parseHV r with
      | some (v, ';' :: r') => (parseObjEntries r').map fun (m, r'') => ((k, v) :: m, r'')
      | some (v, '}' :: r') => some ([(k, v)], r')
      | _ => none
    | _ => none

def parseObj (s : String) : Option (Obj String String) :=
  match s.toList with
  | '{' :: r =>
    (match parseObjEntries r with
     | some (o, []) => some o
     | _ => none)
  | _ => none

def parseHeap (s : String) : Option (Heap String String) :=
  if s = "-" then some [] else (splitOnChar s '|').mapM parseObj

def heapFuel : Nat := 200

def opHMerge (args : List String) : String :=
  match args with
  | [fx, hp, tg, srcs] =>
    let srcAddrs : Option (List Nat) := if srcs = "-" then some [] else (splitOnChar srcs ',').mapM String.toNat?
    (match parseHeap hp, parseHV tg.toList, srcAddrs with
     | some h0, some (t, []), some ss =>
       let fix := fx = "1"
       let r := ss.foldl (fun (acc : Except HErr (Heap String String × HV String)) s => match acc with
         | .ok (h, t) => deepUpdateH fix heapFuel h t s
         | .error e => .error e) (.ok (h0, t))
       (match r with
        | .error e => showHErr e
        | .ok (h, res) =>
          let showO (o : Option PV) : String := match o with
            | some v => showV v
            | none => "?"
          let reach := (reachH heapFuel h res).filter (· < h0.length)
          let reach := (reach.eraseDups.toArray.qsort (· < ·)).toList
          let shared := if reach.isEmpty then "-" else ",".intercalate (reach.map toString)
          let srcVals := if ss.isEmpty then "-" else "|".intercalate (ss.map fun s => showO (unfoldH heapFuel h (.ref s)))
          "ok " ++ showO (unfoldH heapFuel h res) ++ " " ++ shared ++ " " ++ srcVals)
     | _, _, _ => "bad-op")
  | _ => "bad-op"

/-! ### contexts, access paths, process histories -/

/-- a value as the YAML *text* has it: repeated keys allowed (no `wf` test) -/
def parseRaw (s : String) : Option PV :=
  match parseV s.toList with
  | some (v, []) => some v
  | _ => none

def showCErr : CErr → String
  | .cfg e => showErr e
  | .unknownLanguage => "err:unknownLanguage"
  | .unsupported => "err:unsupported"
  | .noLanguage => "err:noLanguage"
  | .noSection => "err:noSection"
  | .noFile => "err:noFile"
  | .noContext => "err:noContext"
  | .dead => "err:dead"

def atomText (a : String) : String := (a.drop 2).toString

/-- `get_config_value_as_bool(section, "stable_support")`: `str(value)` (`None` ↦ `""`, absent ↦ `"false"`),
false iff it is `"false"` (any case), `"0"` or empty. -/
def stableOf (sec : PM) : Bool :=
  let txt : Option String := match sec.get "stable_support" with
    | none => some "false"
    | some (.scalar a) | some (.dflt a) =>
      if a = "n:" then some ""
      else if a = "b:true" then some "True"
      else if a = "b:false" then some "False"
      else if a.startsWith "s:" ∨ a.startsWith "i:" then some (atomText a)
      else none
    | some _ => none
  match txt with
  | some t => !(t.toLower = "false" || t = "0" || t = "")
  | none => true

/-- `_validate_language_options(defaults, options)` of the language class of `sect` (which classes override it
and the shape of the override: `Gen.langValidators`, regenerated from the source). -/
def validatorOf (sect : String) (dflts opts : PM) : Except Err PM :=
  match Gen.langValidators.find? (fun v => v.sect = sect) with
  | none => .ok opts
  | some v =>
    if v.kind = "std-groups" then
      match applyStdDefaults v.key cppKeys.nameKey dflts opts with
      | .error e => .error e
      | .ok o' =>
        match checkCtor cppKeys.ctor cppKeys.alloc ctorOf falsy o' with
        | .error e => .error e
        | .ok _ => .ok o'
    else .ok (opts.set v.key (.scalar "b:true"))

def langEnv : LangEnv String String :=
  { validateOptions := validatorOf, known := fun l => Gen.langModules.contains l, stable := stableOf,
    options := "options", defaults := "defaults" }

def pEnv (builtin : PM) : PEnv String String :=
  { E := langEnv, builtin := builtin, valid := validSection, dflt := dfltLang,
    resolve := resolveLang extKey dfltLang pyEq }

def parseAccess : List String → Option (Access String)
  | ["nm"] => some .names
  | ["tv", k] => (takeAtom k.toList).bind fun (a, r) => if r.isEmpty then some (.tgtValue a) else none
  | ["to", k] => (takeAtom k.toList).bind fun (a, r) => if r.isEmpty then some (.tgtOption a) else none
  | [kind, x, k] =>
    match takeAtom x.toList, takeAtom k.toList with
    | some (a, []), some (b, []) =>
      if kind = "cv" then some (.cfgValue a b)
      else if kind = "co" then some (.cfgOption a b)
      else if kind = "lv" then some (.langValue a b)
      else if kind = "lo" then some (.langOption a b)
      else none
    | _, _ => none
  | _ => none

def parsePOp (s : String) : Option (POp String String) :=
  match s.splitOn "/" with
  | ["W", p, v] => do
    let p ← p.toNat?
    let v ← parseValue v
    pure (.write p v)
  | ["B", b, e] => do
    let b ← b.toNat?
    pure (.newBuilder b (e = "1"))
  | ["A", b, ps] => do
    let b ← b.toNat?
    let ps ← if ps = "-" then some [] else (splitOnChar ps ',').mapM String.toNat?
    pure (.addFiles b ps)
  | ["O", b, k, v] => do
    let b ← b.toNat?
    let (k, r) ← takeAtom k.toList
    if !r.isEmpty then none
    if v = "!" then pure (.setOverride b k none)
    else do
      let v ← parseValue v
      pure (.setOverride b k (some v))
  | ["L", b, l] => do
    let b ← b.toNat?
    if l = "!" then pure (.setLanguage b none)
    else do
      let (k, r) ← takeAtom l.toList
      if !r.isEmpty then none
      pure (.setLanguage b (some k))
  | ["C", b, j] => do
    let b ← b.toNat?
    let j ← j.toNat?
    pure (.create b j)
  | "R" :: b :: j :: acc => do
    let b ← b.toNat?
    let j ← j.toNat?
    let a ← parseAccess acc
    pure (.read b j a)
  | _ => none

def showAns : Ans String String → String
  | .unit => "-"
  | .val none => "v!"
  | .val (some v) => "v" ++ showV v
  | .names ns => "n" ++ ",".intercalate ((ns.toArray.qsort (· < ·)).toList.map encAtom)
  | .err e => showCErr e

def opProc (args : List String) : String :=
  match args with
  | c0 :: ops =>
    (match parseValue c0, ops.mapM parsePOp with
     | some (.map c), some pops =>
       " ".intercalate ("ok" :: ((Proc.run (pEnv c) ⟨[], []⟩ pops).2.map showAns))
     | _, _ => "bad-op")
  | _ => "bad-op"

def opYNorm (args : List String) : String :=
  match args with
  | [y] =>
    (match parseRaw y with
     | some v => "ok " ++ showV (normV v)
     | none => "bad-op")
  | _ => "bad-op"

def opYCfg (args : List String) : String :=
  match args with
  | c0 :: docs =>
    (match parseValue c0, docs.mapM parseRaw with
     | some (.map c), some ds =>
       let r := ds.foldl (fun (acc : Except Err PM) d => match acc with
         | .ok c => update validSection c (normV d)
         | .error e => .error e) (.ok c)
       (match r with
        | .ok c => "ok " ++ showV (.map c)
        | .error e => showErr e)
     | _, _ => "bad-op")
  | _ => "bad-op"

def answer (line : String) : String :=
  match line.splitOn " " with
  | "merge" :: args => opMerge args
  | "cfg" :: args => opCfg args
  | "build" :: args => opBuild args
  | "cppstd" :: args => opCppStd args
  | "hmerge" :: args => opHMerge args
  | "proc" :: args => opProc args
  | "ynorm" :: args => opYNorm args
  | "ycfg" :: args => opYCfg args
  | _ => "bad-op"

def main : IO Unit := serve answer
