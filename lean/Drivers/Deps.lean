import NunavutVerif.Model.Deps
import NunavutVerif.Model.DepsOpts
import NunavutVerif.Model.Names
import NunavutVerif.Proto
/-!
Driver for the C06 correspondence.  One request per line, tokens separated by single spaces.

Encodings
* string: `Proto.encodeStr` (code points joined by `.`, `-` = empty)
* type name `N`: `<ns>:<short>:<major>:<minor>`, `<ns>` = components (strings) joined by `/`, `!` = no component
* data type `T` (prefix form): `v` | `b` | `i` | `f` | `A T` | `V T` | `C N <isUnion> <isSealed> <nfields> T… <nconsts> T…`
* top-level `TOP`: `M <fixedPort> C…` | `S N <fixedPort> C… C…`
* options `O`: `<omit>,<useStd>,<std>,<allocCtor>,<preferSys> <allocInc> <vlaInc> <support>` (support: strings joined by `|`, `!` = none)
* path config `P`: `<enableStropping> <ext> <table>`; table: `raw>stropped` pairs joined by `;`, `!` = empty (identity elsewhere)

Requests
* `deps fix|old d|t TOP`             → `<names joined by ;>|<8 flags IFVAaBPU as 0/1>`  (names in insertion order, `!` = none)
* `inc c|cpp fix|old O P TOP`        → `ok <include operands joined by |>` (`!` = none) or `err:<kind>`
* `fac c|cpp fix|old O P TOP`        → `must=<names,> may=<names,> uncovered=<names,>` (`-` = none; `err:<kind>` if the include list raises)
* `pyimp <enable> <table> TOP`       → import names joined by `|` (`!` = none)
* `pymod fix|old <omit> <deprecated>`→ module names joined by `|`
* `guard <mac> <major> <minor> <suffix>` → string
* `nsopen <names joined by |>` / `nsclose …` → string
* `balanced <text>`                  → depth after the text with `//` comments removed, or `neg`
* `cliopts <std|-> <omit> <useStd> <preferSys>` → the options `O` the C++ target derives from `--language-standard <std>` (`-` = not
                                       given) and the shipped `options` / `defaults`, or `err:<kind>`
* `stdver <std string>`              → `Language.standard_version` for that `std` option, or `err:badStdNumber`
* `cref <enable> <table> N`          → C `full_reference_name` of the type
* `cppref|cppmacro <enable> <table> N` → C++ `full_reference_name` / `full_macro_name`
* `cdefs <ovr> M <ref> <fixedPort> K` | `cdefs <ovr> S <ref> <fixedPort> <reqRef> K <respRef> K`
                                     → the `#define`d names of the C header in file order, joined by `|`;
                                       composite names `K`: `<isUnion> <fields> <consts>`, fields `name:s|a|v` joined by `;`, consts joined by `;`, `!` = none
* `snake <text>`                     → `filter_to_snake_case(text)`
* `guardname <enable> <table> <full_name> <major> <minor> <suffix>` → the include guard computed from the dotted full name:
                                       `macrofy` (model of `to_snake_case`, upper case, `filter_id(., "macro")` from the table), version, suffix
* `cclear K`                         → `1` if no constant of the composite is named like a generated macro suffix, else `0`
-/
open NunavutVerif NunavutVerif.Deps NunavutVerif.Proto

abbrev Str := NunavutVerif.Namespace.Str

def bit (s : String) : Option Bool := if s = "1" then some true else if s = "0" then some false else none

def parseName (s : String) : Option TName :=
  match s.splitOn ":" with
  | [ns, short, ma, mi] => do
    let comps ← if ns = "!" then some [] else (ns.splitOn "/").mapM decodeStr
    let sh ← decodeStr short
    let ma ← ma.toNat?
    let mi ← mi.toNat?
    some ⟨comps, sh, ma, mi⟩
  | _ => none

def showName (n : TName) : String :=
  (if n.ns.isEmpty then "!" else "/".intercalate (n.ns.map encodeStr)) ++ ":" ++ encodeStr n.short ++ ":" ++ toString n.major
    ++ ":" ++ toString n.minor

mutual
  /-- Parse one data type from the token list; the fuel bounds the nesting. -/
  def parseTy : Nat → List String → Option (Ty × List String)
    | 0, _ => none
    | fuel + 1, toks =>
      match toks with
      | "v" :: r => some (.void, r)
      | "b" :: r => some (.bool, r)
      | "i" :: r => some (.int, r)
      | "f" :: r => some (.float, r)
      | "A" :: r => (parseTy fuel r).map fun (e, r') => (.fixedArr e, r')
      | "V" :: r => (parseTy fuel r).map fun (e, r') => (.varArr e, r')
      | "C" :: r => (parseCompBody fuel r).map fun (c, r') => (.comp c, r')
      | _ => none
  def parseCompBody : Nat → List String → Option (Comp × List String)
    | 0, _ => none
    | fuel + 1, toks =>
      match toks with
      | n :: u :: s :: k :: r => do
        let n ← parseName n
        let u ← bit u
        let s ← bit s
        let k ← k.toNat?
        let (fs, r') ← parseTys fuel k r
        match r' with
        | kc :: r'' => do
          let kc ← kc.toNat?
          let (cs, r3) ← parseTys fuel kc r''
          some (.mk n u s fs cs, r3)
        | [] => none
      | _ => none
  def parseTys : Nat → Nat → List String → Option (List Ty × List String)
    | 0, _, _ => none
    | _ + 1, 0, toks => some ([], toks)
    | fuel + 1, k + 1, toks => do
      let (t, r) ← parseTy fuel toks
      let (ts, r') ← parseTys fuel k r
      some (t :: ts, r')
end

def parseComp (fuel : Nat) : List String → Option (Comp × List String)
  | "C" :: r => parseCompBody fuel r
  | _ => none

def parseTop (toks : List String) : Option Top :=
  let fuel := toks.length + 2
  match toks with
  | "M" :: fp :: r => do
    let fp ← bit fp
    let (c, rest) ← parseComp fuel r
    if rest.isEmpty then some (.msg c fp) else none
  | "S" :: n :: fp :: r => do
    let n ← parseName n
    let fp ← bit fp
    let (rq, r1) ← parseComp fuel r
    let (rs, r2) ← parseComp fuel r1
    if r2.isEmpty then some (.svc n rq rs fp) else none
  | _ => none

def parseOpts (flags alloc vla support : String) : Option Opts :=
  match flags.splitOn "," with
  | [om, us, std, ac, ps] => do
    let om ← bit om
    let us ← bit us
    let std ← std.toNat?
    let ac ← bit ac
    let ps ← bit ps
    let alloc ← decodeStr alloc
    let vla ← decodeStr vla
    let sup ← if support = "!" then some [] else (support.splitOn "|").mapM decodeStr
    some { omitSer := om, useStd := us, std := std, allocInc := alloc, vlaInc := vla, allocCtor := ac, preferSys := ps,
           support := sup }
  | _ => none

def parseTable (s : String) : Option (List (Str × Str)) :=
  if s = "!" then some [] else
  (s.splitOn ";").mapM fun p =>
    match p.splitOn ">" with
    | [a, b] => do some ((← decodeStr a), (← decodeStr b))
    | _ => none

def lookupStrop (tbl : List (Str × Str)) (s : Str) : Str :=
  match tbl.find? (fun p => p.1 = s) with
  | some p => p.2
  | none => s

def parseCfg (enable ext table : String) : Option Namespace.Cfg := do
  let en ← bit enable
  let ext ← decodeStr ext
  let tbl ← parseTable table
  some { strop := lookupStrop tbl, enable := en, ext := ext, stem := ['_'], outDir := ['o'] }

def parseLang (s : String) : Option Lang := if s = "c" then some .c else if s = "cpp" then some .cpp else none

def errName : Namespace.Err → String
  | .badSuffix => "err:badSuffix" | .emptyName => "err:emptyName" | .notRelative => "err:notRelative"
  | .keyError => "err:keyError" | .fuel => "err:fuel"

def showList (sep : String) (none : String) (l : List String) : String := if l.isEmpty then none else sep.intercalate l

def facName : Fac → String
  | .cFixedInt => "cFixedInt" | .cSizeT => "cSizeT" | .cBool => "cBool" | .cNull => "cNull"
  | .cStaticAssert => "cStaticAssert" | .cString => "cString" | .cMath => "cMath" | .cSupport => "cSupport"
  | .xFixedInt => "xFixedInt" | .xSizeT => "xSizeT" | .xLimits => "xLimits" | .xArray => "xArray" | .xBitset => "xBitset"
  | .xVariant => "xVariant" | .xTypeTraits => "xTypeTraits" | .xUtility => "xUtility" | .xMemory => "xMemory"
  | .xNew => "xNew" | .xVla => "xVla" | .xAlloc => "xAlloc" | .xSupport => "xSupport" | .xAlgorithm => "xAlgorithm"
  | .xCmath => "xCmath" | .xCstring => "xCstring"

def b01 (b : Bool) : String := if b then "1" else "0"

def showDeps (d : Deps) : String :=
  showList ";" "!" (d.names.map showName) ++ "|" ++ b01 d.usesInteger ++ b01 d.usesFloat ++ b01 d.usesVla ++ b01 d.usesArray
    ++ b01 d.usesBoolStaticArray ++ b01 d.usesBool ++ b01 d.usesPrimStaticArray ++ b01 d.usesUnion

def optErrName : OptErr → String
  | .config _ => "err:config" | .badStdNumber => "err:badStdNumber" | .supportPath _ => "err:supportPath"

def showOpts (o : Opts) : String :=
  b01 o.omitSer ++ "," ++ b01 o.useStd ++ "," ++ toString o.std ++ "," ++ b01 o.allocCtor ++ "," ++ b01 o.preferSys ++ " "
    ++ encodeStr o.allocInc ++ " " ++ encodeStr o.vlaInc ++ " " ++ showList "|" "!" (o.support.map encodeStr)

def parseKind (s : String) : Option Names.FKind :=
  if s = "s" then some .scalar else if s = "a" then some .fixedArr else if s = "v" then some .varArr else none

def parseField (p : String) : Option (Str × Names.FKind) :=
  match p.splitOn ":" with
  | [n, k] => do some ((← decodeStr n), (← parseKind k))
  | _ => none

def parseCompNames (u fs cs : String) : Option Names.CompNames := do
  let u ← bit u
  let fields ← if fs = "!" then some [] else (fs.splitOn ";").mapM parseField
  let consts ← if cs = "!" then some [] else (cs.splitOn ";").mapM decodeStr
  some ⟨fields, consts, u⟩

def answer (line : String) : String :=
  match line.splitOn " " with
  | "deps" :: ver :: mode :: top =>
    match parseTop top, (if mode = "d" then some false else if mode = "t" then some true else none) with
    | some t, some tr =>
      if ver = "fix" then showDeps (buildMany Top.definesUnion tr [t])
      else if ver = "old" then showDeps (buildMany Top.outerIsUnionType tr [t])
      else "bad-op"
    | _, _ => "bad-op"
  | "inc" :: lang :: ver :: fl :: al :: vl :: su :: en :: ext :: tbl :: top =>
    match parseLang lang, parseOpts fl al vl su, parseCfg en ext tbl, parseTop top with
    | some lang, some o, some pcfg, some t =>
      let r := if ver = "fix" then some (emitted lang pcfg o t) else if ver = "old" then some (emittedBeforeFix lang pcfg o t) else none
      match r with
      | some (.ok l) => "ok " ++ showList "|" "!" (l.map encodeStr)
      | some (.error e) => errName e
      | none => "bad-op"
    | _, _, _, _ => "bad-op"
  | "fac" :: lang :: ver :: fl :: al :: vl :: su :: en :: ext :: tbl :: top =>
    match parseLang lang, parseOpts fl al vl su, parseCfg en ext tbl, parseTop top with
    | some lang, some o, some pcfg, some t =>
      let r := if ver = "fix" then some (emitted lang pcfg o t, facMust lang o t)
               else if ver = "old" then some (emittedBeforeFix lang pcfg o t, facMustBeforeFix lang o t) else none
      match r with
      | some (.ok incs, must) =>
        let may := facMay lang o t
        let unc := (must ++ may).filter (fun f => !covered lang o incs f)
        "must=" ++ showList "," "-" (must.map facName) ++ " may=" ++ showList "," "-" (may.map facName)
          ++ " uncovered=" ++ showList "," "-" (unc.map facName)
      | some (.error e, _) => errName e
      | none => "bad-op"
    | _, _, _, _ => "bad-op"
  | "pyimp" :: en :: tbl :: top =>
    match bit en, parseTable tbl, parseTop top with
    | some en, some tbl, some t => showList "|" "!" ((pyImports (lookupStrop tbl) en t).map encodeStr)
    | _, _, _ => "bad-op"
  | ["pymod", ver, om, dep] =>
    match bit om, bit dep with
    | some om, some dep =>
      let o : Opts := { omitSer := om, useStd := true, std := 14, allocInc := [], vlaInc := [], allocCtor := false,
                        preferSys := false, support := [] }
      if ver = "fix" then showList "|" "!" ((pyModuleImports o dep).map encodeStr)
      else if ver = "old" then showList "|" "!" ((pyModuleImportsBeforeFix o dep).map encodeStr)
      else "bad-op"
    | _, _ => "bad-op"
  | ["guard", mac, ma, mi, suf] =>
    match decodeStr mac, ma.toNat?, mi.toNat?, decodeStr suf with
    | some mac, some ma, some mi, some suf => encodeStr (includeGuard mac ma mi suf)
    | _, _, _, _ => "bad-op"
  | ["nsopen", names] =>
    match (names.splitOn "|").mapM decodeStr with
    | some ns => encodeStr (openNamespace ns)
    | none => "bad-op"
  | ["nsclose", names] =>
    match (names.splitOn "|").mapM decodeStr with
    | some ns => encodeStr (closeNamespace ns)
    | none => "bad-op"
  | ["balanced", text] =>
    match decodeStr text with
    | some t => match depthAfter (stripLineComments t) 0 with
      | some d => toString d
      | none => "neg"
    | none => "bad-op"
  | ["cliopts", std, om, us, ps] =>
    match bit om, bit us, bit ps with
    | some om, some us, some ps =>
      match cliOpts (if std = "-" then none else some std) om us ps with
      | .ok o => showOpts o
      | .error e => optErrName e
    | _, _, _ => "bad-op"
  | ["stdver", std] =>
    match decodeStr std with
    | some s => match standardVersion s with
      | .ok v => toString v
      | .error e => optErrName e
    | none => "bad-op"
  | ["snake", text] =>
    match decodeStr text with
    | some t => encodeStr (Names.toSnake t)
    | none => "bad-op"
  | ["guardname", en, tbl, full, ma, mi, suf] =>
    match bit en, parseTable tbl, decodeStr full, ma.toNat?, mi.toNat?, decodeStr suf with
    | some en, some tbl, some full, some ma, some mi, some suf =>
      encodeStr (includeGuard (Names.macrofy (lookupStrop tbl) en full) ma mi suf)
    | _, _, _, _, _, _ => "bad-op"
  | ["cclear", u, fs, cs] =>
    match parseCompNames u fs cs with
    | some c => b01 (Names.constsClear c)
    | none => "bad-op"
  | [op, en, tbl, n] =>
    match bit en, parseTable tbl, parseName n with
    | some en, some tbl, some t =>
      if op = "cref" then encodeStr (Names.cFullRef (lookupStrop tbl) en t)
      else if op = "cppref" then encodeStr (Names.cppFullRef (lookupStrop tbl) en t)
      else if op = "cppmacro" then encodeStr (Names.cppFullMacro (lookupStrop tbl) en t)
      else "bad-op"
    | _, _, _ => "bad-op"
  | ["cdefs", ovr, "M", ref, fp, u, fs, cs] =>
    match bit ovr, decodeStr ref, bit fp, parseCompNames u fs cs with
    | some ovr, some ref, some fp, some c => showList "|" "!" ((Names.cDefinesMsg ovr ref fp c).map encodeStr)
    | _, _, _, _ => "bad-op"
  | ["cdefs", ovr, "S", ref, fp, r1, u1, fs1, cs1, r2, u2, fs2, cs2] =>
    match bit ovr, decodeStr ref, bit fp, decodeStr r1, parseCompNames u1 fs1 cs1, decodeStr r2, parseCompNames u2 fs2 cs2 with
    | some ovr, some ref, some fp, some r1, some c1, some r2, some c2 =>
      showList "|" "!" ((Names.cDefinesSvc ovr ref fp r1 c1 r2 c2).map encodeStr)
    | _, _, _, _, _, _, _ => "bad-op"
  | _ => "bad-op"

def main : IO Unit := serve answer
