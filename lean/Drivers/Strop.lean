import NunavutVerif.Model.Strop
import NunavutVerif.Gen.StropCfg
import NunavutVerif.Model.StropGlue
import NunavutVerif.Gen.StropGlue
import NunavutVerif.Proto
/-!
Driver for the C09 correspondence.  One request per line (strings as '.'-joined code points, `-` = empty):

  `strop <lang> <ty> <tok>`                      → `ok <r> <0|1: a failure handler fired>` | `err <kind>`
  `stropx <lang> <prefix> <suffix> <encprefix> <kw|kw|…> <ty> <tok|tok|…>`   the same for every token under an
                                                  overridden configuration; answers joined by `;`
  `stropc <lang> <spec> <ty> <tok|tok|…>`        general overrides: spec = `;`-joined `pre= suf= enc= kw= ws= col= pat= rul=`
                                                  (pat/rul: `<type>:<wire>/<wire>&<type>:…`); `stropcold` = code as found
  `stropold …`, `stropxold …`                    the same through `stropTraceBeforeFix` (the code as found)
  `handler <s>`                                  → `some <r>` | `none`          (C / C++ failure handler)
  `isspace <lang> <cp>`                          → `1` | `0`
  `encfilter <lang> <s>`                         → `_encoding_filter` on a matched span
  `cfgrx <lang> <p|r> <ty> <idx> <op> <s>`       regex #idx of the generated configuration (p = reserved pattern,
                                                  r = encoding rule), op as below
  `rawname <inst>`                               → `default_filter_id_for_target`: inst = `t<s>` | `i<n>` | `j<n>` (= -n) |
                                                  `b0` | `b1` | `z` (None), prefixed by `N` for an object with that `.name`
  `hist <maxsize> <rx> <op;op;…>`                a call history in one process (Model/StropGlue.lean), one answer per op, `;`-joined:
      `L:<target>:<ov>`                          new LanguageContext, overrides `key=val&…` (`!` none), val = `s<s>` | `b0|b1` | `n<k>` |
                                                  `l<s|s…>` | `d<ty>~<s|s…>/<ty>~…` (`!` = empty)      → `ctx <index>` | `err <kind>`
      `U:<ctx>:<lang>:<inst>:<ty>`               ctx.get_language(lang).filter_id(inst, ty)
                                                  → `ok <r> <built> <hit> <hits> <misses> <currsize>` | `err <kind> <built> …`
      `O:<ctx>`                                  per language of the context: `<lang>=<list object #>,<len>,<hash>,<enc: none|same|own>,<len>,<hash>`
      rx = extra `re.compile` table `<src>=<wire>&…` (`!` none)
  `rx <wire> <op> <s>`                           regex in Polish notation; op = `match` → end | `none`,
                                                  `search` → `start end` | `none`, `sub` → s with every match m
                                                  replaced by `<m>`
-/
open NunavutVerif NunavutVerif.Regex NunavutVerif.Strop NunavutVerif.Proto NunavutVerif.Gen.StropCfg
open NunavutVerif.StropGlue

def decodeS (s : String) : Option Str := (decodeStr s).map (fun cs => cs.map Char.toNat)

def encodeS (s : Str) : String :=
  if s.isEmpty then "-" else ".".intercalate (s.map toString)

partial def parseRe : List String → Option (Re × List String)
  | "E" :: r => some (.eps, r)
  | "B" :: r => some (.bol, r)
  | "L" :: r => some (.eol, r)
  | "Z" :: r => some (.eos, r)
  | "S" :: r => do
    let (a, r1) ← parseRe r
    let (b, r2) ← parseRe r1
    pure (.seq a b, r2)
  | "A" :: r => do
    let (a, r1) ← parseRe r
    let (b, r2) ← parseRe r1
    pure (.alt a b, r2)
  | "R" :: mn :: mo :: r => do
    let mn ← mn.toNat?
    let mo ← if mo = "-" then some none else mo.toNat?.map some
    let (a, r1) ← parseRe r
    pure (.rep mn mo a, r1)
  | "C" :: neg :: cnt :: r => do
    let cnt ← cnt.toNat?
    let rec go : Nat → List String → List (Nat × Nat) → Option (List (Nat × Nat) × List String)
      | 0, r, acc => some (acc.reverse, r)
      | k + 1, a :: b :: r, acc => do
        let a ← a.toNat?
        let b ← b.toNat?
        go k r ((a, b) :: acc)
      | _, _, _ => none
    let (rs, r1) ← go cnt r []
    pure (.chr ⟨neg = "1", rs⟩, r1)
  | _ => none

/-- `<encty>:<wire>/<wire>&<encty>:…`  (`!` = empty map) -/
def parseMap (s : String) : Option (List (Str × List Re)) :=
  if s = "!" then some [] else
  (splitOnChar s '&').mapM fun ent =>
    match splitOnChar ent ':' with
    | [ty, res] => do
      let ty ← decodeS ty
      let one : String → Option Re := fun w =>
        match parseRe (splitOnChar w ',') with
        | some (re, []) => some re
        | _ => none
      let rs ← (if res = "" then some [] else (splitOnChar res '/').mapM one)
      pure (ty, rs)
    | _ => none

/-- configuration overrides `key=value;key=value…` applied to a base configuration -/
def applySpec (cfg : Cfg) (spec : String) : Option Cfg :=
  (splitOnChar spec ';').foldlM (init := cfg) fun cfg kv =>
    match splitOnChar kv '=' with
    | ["pre", v] => (decodeS v).map fun x => { cfg with stropPrefix := x }
    | ["suf", v] => (decodeS v).map fun x => { cfg with stropSuffix := x }
    | ["enc", v] => (decodeS v).map fun x => { cfg with encPrefix := x }
    | ["kw", v] => (if v = "!" then some [] else (splitOnChar v '|').mapM decodeS).map fun x => { cfg with reserved := x }
    | ["ws", v] => if v = "none" then some { cfg with wsChar := none } else (decodeS v).map fun x => { cfg with wsChar := some x }
    | ["col", v] => some { cfg with collapse := v = "1" }
    | ["pat", v] => (parseMap v).map fun x => { cfg with patterns := x }
    | ["rul", v] => (parseMap v).map fun x => { cfg with rules := x }
    | _ => none

def rxOp (re : Re) (op : String) (s : Str) : String :=
  if op = "match" then
    match matchEnd re s with
    | some e => toString e
    | none => "none"
  else if op = "search" then
    match search re s with
    | some (a, b) => s!"{a} {b}"
    | none => "none"
  else if op = "sub" then encodeS (sub re (fun m => [60] ++ m ++ [62]) s)
  else "bad-op"

def showResult (r : Except Err (Str × Bool)) : String :=
  match r with
  | .ok (s, fired) => s!"ok {encodeS s} {if fired then 1 else 0}"
  | .error .valueError => "err value"
  | .error .illegalToken => "err illegal-token"
  | .error .unstableEncoding => "err unstable-encoding"


/-! ### round 2: the glue (Model/StropGlue.lean) -/

def parseAtom (s : String) : Option Atom :=
  if s = "z" then some .none
  else if s = "b0" then some (.bool false)
  else if s = "b1" then some (.bool true)
  else match s.toList with
    | 't' :: r => (decodeS (String.ofList r)).map .text
    | 'i' :: r => (String.ofList r).toNat?.map (.int false)
    | 'j' :: r => (String.ofList r).toNat?.map (.int true)
    | _ => none

def parseInst (s : String) : Option Inst :=
  match s.toList with
  | 'N' :: r => (parseAtom (String.ofList r)).map .named
  | _ => (parseAtom s).map .plain

def parseStrList (s : String) : Option (List Str) :=
  if s = "!" then some [] else (splitOnChar s '|').mapM decodeS

def parseOVal (s : String) : Option OVal :=
  match s.toList with
  | 's' :: r => (decodeS (String.ofList r)).map .str
  | ['b', '0'] => some (.bool false)
  | ['b', '1'] => some (.bool true)
  | 'n' :: r => (String.ofList r).toNat?.map .num
  | 'l' :: r => (parseStrList (String.ofList r)).map .list
  | 'd' :: r =>
    let body := String.ofList r
    if body = "!" then some (.dict []) else
    ((splitOnChar body '/').mapM fun ent =>
      match splitOnChar ent '~' with
      | [k, v] => do
        let k ← decodeS k
        let v ← parseStrList v
        pure (k, v)
      | _ => none).map .dict
  | _ => none

def parseOverrides (s : String) : Option (List (Str × OVal)) :=
  if s = "!" then some [] else
  (splitOnChar s '&').mapM fun kv =>
    match splitOnChar kv '=' with
    | [k, v] => do
      let k ← decodeS k
      let v ← parseOVal v
      pure (k, v)
    | _ => none

def parseRxTable (s : String) : Option (List (Str × Re)) :=
  if s = "!" then some [] else
  (splitOnChar s '&').mapM fun kv =>
    match splitOnChar kv '=' with
    | [k, w] => do
      let k ← decodeS k
      match parseRe (splitOnChar w ',') with
      | some (re, []) => pure (k, re)
      | _ => none
    | _ => none

def wordHash (w : Str) : Nat := w.foldl (fun acc c => (acc * 257 + c + 1) % 1000000007) 7
def listHash (l : List Str) : Nat := l.foldl (fun acc w => (acc * 131 + wordHash w) % 1000000007) 11

def showAErr : AErr → String
  | .keyError => "key-error"
  | .anyKeyReserved => "any-key-reserved"
  | .reError => "re-error"
  | .dangling => "dangling"
  | .unsupported => "unsupported"

def showUErr : UErr → String
  | .noContext => "no-context"
  | .noLanguage => "no-language"
  | .assembly e => "assembly:" ++ showAErr e
  | .strop .valueError => "value"
  | .strop .illegalToken => "illegal-token"
  | .strop .unstableEncoding => "unstable-encoding"

/-- canonical number of a list object among the objects seen so far -/
def objNumber (seen : List Nat) (a : Nat) : List Nat × Nat :=
  match seen.idxOf? a with
  | some i => (seen, i)
  | none => (seen ++ [a], seen.length)

def observe (p : Proc) (ci : Nat) : String :=
  match p.ctxs[ci]? with
  | none => "err no-context"
  | some ctx =>
    let go := ctx.sections.foldl (init := (([] : List Nat), ([] : List String))) fun (acc : List Nat × List String) ent =>
      let (lang, sec) := ent
      let (seen, objs, len, hsh) :=
        match getList sec kReserved with
        | some a =>
          let (seen', i) := objNumber acc.1 a
          let l := (p.heap[a]?).getD []
          (seen', toString i, l.length, listHash l)
        | none => (acc.1, "-", 0, listHash [])
      let encs :=
        match aget ctx.encs lang with
        | none => "none,0,0"
        | some ei =>
          match p.encoders[ei]? with
          | none => "missing,0,0"
          | some e =>
            let l := (p.heap[e.reserved]?).getD []
            let same := getList sec kReserved = some e.reserved
            let tag := if same then "same" else "own"
            s!"{tag},{l.length},{listHash l}"
      (seen, acc.2 ++ [s!"{encodeS lang}={objs},{len},{hsh},{encs}"])
    "|".intercalate go.2

def histStep (env : Env) (p : Proc) (op : String) : Proc × String :=
  match splitOnChar op ':' with
  | ["L", target, ov] =>
    match decodeS target, parseOverrides ov with
    | some t, some ov =>
      (match load env p t ov with
       | .ok p' => (p', s!"ctx {p.ctxs.length}")
       | .error e => (p, "err " ++ showAErr e))
    | _, _ => (p, "bad-op")
  | ["U", ci, lang, inst, ty] =>
    match ci.toNat?, decodeS lang, parseInst inst, decodeS ty with
    | some ci, some lang, some inst, some ty =>
      let (p', o) := use env p ci lang inst ty
      let tail := s!"{if o.built then 1 else 0} {if o.hit then 1 else 0} {p'.hits} {p'.misses} {p'.lru.length}"
      (match o.result with
       | .ok r => (p', s!"ok {encodeS r} {tail}")
       | .error e => (p', s!"err {showUErr e} {tail}"))
    | _, _, _, _ => (p, "bad-op")
  | ["O", ci] =>
    match ci.toNat? with
    | some ci => (p, observe p ci)
    | none => (p, "bad-op")
  | _ => (p, "bad-op")

def runHist (maxsize : String) (rx : String) (ops : String) : String :=
  match maxsize.toNat?, parseRxTable rx with
  | some m, some extra =>
    let comp : Str → Option Re := fun s =>
      match aget extra s with
      | some r => some r
      | none => Gen.StropGlue.compile s
    let env : Env := ⟨rangesIsSpace, comp, m, Gen.StropGlue.doc, Gen.StropGlue.codeOf⟩
    let r := (splitOnChar ops ';').foldl (init := (Proc.init, ([] : List String))) fun acc op =>
      let (p', a) := histStep env acc.1 op
      (p', a :: acc.2)
    ";".intercalate r.2.reverse
  | _, _ => "bad-op"

def answer (line : String) : String :=
  match line.splitOn " " with
  | ["strop", lang, ty, tok] =>
    match cfgOf lang, decodeS ty, decodeS tok with
    | some cfg, some ty, some tok => showResult (stropTrace cfg tok ty)
    | _, _, _ => "bad-op"
  | ["stropold", lang, ty, tok] =>
    match cfgOf lang, decodeS ty, decodeS tok with
    | some cfg, some ty, some tok => showResult (stropTraceBeforeFix cfg tok ty)
    | _, _, _ => "bad-op"
  | [op, lang, pre, suf, encp, kws, ty, toks] =>
    if op ≠ "stropx" ∧ op ≠ "stropxold" then "bad-op" else
    let old := op = "stropxold"
    match cfgOf lang, decodeS pre, decodeS suf, decodeS encp, decodeS ty, (splitOnChar toks '|').mapM decodeS with
    | some cfg, some pre, some suf, some encp, some ty, some toks =>
      match (if kws = "!" then some [] else (splitOnChar kws '|').mapM decodeS) with
      | some kws =>
        let cfg' := { cfg with stropPrefix := pre, stropSuffix := suf, encPrefix := encp, reserved := kws }
        ";".intercalate (toks.map fun tok =>
          showResult ((if old then stropTraceBeforeFix else stropTrace) cfg' tok ty))
      | none => "bad-op"
    | _, _, _, _, _, _ => "bad-op"
  | [op, lang, spec, ty, toks] =>
    if op ≠ "stropc" ∧ op ≠ "stropcold" then "bad-op" else
    match (cfgOf lang).bind (applySpec · spec), decodeS ty, (splitOnChar toks '|').mapM decodeS with
    | some cfg, some ty, some toks =>
      ";".intercalate (toks.map fun tok =>
        showResult ((if op = "stropcold" then stropTraceBeforeFix else stropTrace) cfg tok ty))
    | _, _, _ => "bad-op"
  | ["handler", s] =>
    match decodeS s with
    | some s => (match cHandler s with | some r => "some " ++ encodeS r | none => "none")
    | none => "bad-op"
  | ["isspace", lang, n] =>
    match cfgOf lang, n.toNat? with
    | some cfg, some k => if isSpace cfg k then "1" else "0"
    | _, _ => "bad-op"
  | ["encfilter", lang, s] =>
    match cfgOf lang, decodeS s with
    | some cfg, some s => encodeS (encFilter cfg s)
    | _, _ => "bad-op"
  | ["cfgrx", lang, kind, ty, idx, op, s] =>
    match cfgOf lang, decodeS ty, idx.toNat?, decodeS s with
    | some cfg, some ty, some i, some s =>
      match lookup (if kind = "p" then cfg.patterns else cfg.rules) ty with
      | some l => (match l[i]? with | some re => rxOp re op s | none => "bad-op")
      | none => "bad-op"
    | _, _, _, _ => "bad-op"
  | ["rawname", inst] =>
    match parseInst inst with
    | some i => encodeS (rawName i)
    | none => "bad-op"
  | ["hist", maxsize, rx, ops] => runHist maxsize rx ops
  | ["rx", wire, op, s] =>
    match parseRe (splitOnChar wire ','), decodeS s with
    | some (re, []), some s => rxOp re op s
    | _, _ => "bad-op"
  | _ => "bad-op"

def main : IO Unit := serve answer
