import NunavutVerif.Model.Options
import NunavutVerif.Gen.OptionDomain
import NunavutVerif.Proto
/-!
Driver for the C17 correspondence.  One request per line:

  `crc <hex bytes | ->`                    → decimal CRC-32 of the bytes
  `enc b0|b1|i<int>|s<str>|o`              → the number `filter_to_static_assertion_value` prints, or `err:value`
  `tog <c|cpp> <0|1> <set₁> <set₂>`        support header from set₁, type header from set₂ (flag = serialization
                                           omitted) → `ok` | `diag m:<name>,u:<name>,…` | `err:gen`
  `tu <c|cpp> <0|1> <set₁> <setA>|<setB>|…` support header from set₁, type headers (in the order their guard blocks
                                           are reached) from setA, setB, … → per-header answers joined by `|`, or `err:gen`
  `exp <set₁> <set₂>`                      the key-level prediction `expected`, same answer format
  `dom <c|cpp>`                            → the generated table the driver was linked with

Option sets: `-` (empty) or `;`-separated `key~name~value` with key/name protocol strings and value as for `enc`.
-/
open NunavutVerif NunavutVerif.Options NunavutVerif.Crc32 NunavutVerif.Proto

def hexVal (c : Char) : Option Nat :=
  if '0' ≤ c ∧ c ≤ '9' then some (c.toNat - '0'.toNat)
  else if 'a' ≤ c ∧ c ≤ 'f' then some (c.toNat - 'a'.toNat + 10)
  else none

def parseHex : List Char → Option (List Nat)
  | [] => some []
  | a :: b :: r => do
    let x ← hexVal a; let y ← hexVal b; let rest ← parseHex r
    pure ((x * 16 + y) :: rest)
  | _ => none

def parseVal (s : String) : Option OptVal :=
  if s = "b0" then some (.bool false)
  else if s = "b1" then some (.bool true)
  else if s = "o" then some .other
  else if s.startsWith "i" then (s.drop 1).toString.toInt?.map .int
  else if s.startsWith "s" then (decodeStr (s.drop 1).toString).map fun cs => .str (String.ofList cs)
  else none

def parseSet (s : String) : Option (List (String × String × OptVal)) :=
  if s = "-" then some [] else
  (splitOnChar s ';').mapM fun e =>
    match splitOnChar e '~' with
    | [k, n, v] => do
      let k ← decodeStr k; let n ← decodeStr n; let v ← parseVal v
      pure (String.ofList k, String.ofList n, v)
    | _ => none

def nameFrom (tbl : List (String × String)) (k : String) : String := (tbl.lookup k).getD k

def showDiags (ds : List Diag) : String :=
  if ds.isEmpty then "ok" else
  "diag " ++ ",".intercalate (ds.map fun
    | .mismatch n => "m:" ++ encodeStr n.toList
    | .undefined n => "u:" ++ encodeStr n.toList)

def parseLang (s : String) : Option Lang :=
  if s = "c" then some .c else if s = "cpp" then some .cpp else none

def showDom (d : List DocOpt) : String :=
  ";".intercalate (d.map fun e =>
    encodeStr e.key.toList ++ "~" ++ encodeStr e.name.toList ++ "~" ++ toString e.values.length ++ "~"
      ++ (if e.always then "1" else "0") ++ (if e.defined then "1" else "0") ++ (if e.asserted then "1" else "0"))

def answer (line : String) : String :=
  match line.splitOn " " with
  | ["crc", h] =>
    match parseHex (if h = "-" then [] else h.toList) with
    | some bs => toString (crc32 bs)
    | none => "bad-op"
  | ["enc", v] =>
    match parseVal v with
    | some v => match enc v with
      | some n => toString n
      | none => "err:value"
    | none => "bad-op"
  | ["tog", l, om, a, b] =>
    match parseLang l, parseSet a, parseSet b with
    | some l, some a, some b =>
      if om ≠ "0" ∧ om ≠ "1" then "bad-op" else
      let name := nameFrom ((a ++ b).map fun (k, n, _) => (k, n))
      match together l (om = "1") name (a.map fun (k, _, v) => (k, v)) (b.map fun (k, _, v) => (k, v)) with
      | some ds => showDiags ds
      | none => "err:gen"
    | _, _, _ => "bad-op"
  | ["tu", l, om, a, hs] =>
    match parseLang l, parseSet a, (splitOnChar hs '|').mapM parseSet with
    | some l, some a, some hs =>
      if om ≠ "0" ∧ om ≠ "1" then "bad-op" else
      let name := nameFrom ((a ++ hs.flatten).map fun (k, n, _) => (k, n))
      let strip := fun (o : List (String × String × OptVal)) => o.map fun (k, _, v) => (k, v)
      match togetherTU l (om = "1") name (strip a) (hs.map strip) with
      | some dss => "|".intercalate (dss.map showDiags)
      | none => "err:gen"
    | _, _, _ => "bad-op"
  | ["exp", a, b] =>
    match parseSet a, parseSet b with
    | some a, some b =>
      let name := nameFrom ((a ++ b).map fun (k, n, _) => (k, n))
      showDiags (expected name (a.map fun (k, _, v) => (k, v)) (b.map fun (k, _, v) => (k, v)))
    | _, _ => "bad-op"
  | ["dom", l] =>
    match parseLang l with
    | some l => showDom (Gen.domain l)
    | none => "bad-op"
  | _ => "bad-op"

def main : IO Unit := serve answer
