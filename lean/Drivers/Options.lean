import NunavutVerif.Model.Options
import NunavutVerif.Gen.OptionDomain
import NunavutVerif.Gen.OptionEmit
import NunavutVerif.Proto
/-!
Driver for the C17 correspondence.  One request per line:

  `crc <hex bytes | ->`                    → decimal CRC-32 of the bytes
  `enc b0|b1|i<int>|s<str>|o`              → the number `filter_to_static_assertion_value` prints, or `err:value`
  `tog <c|cpp> <0|1> <set₁> <set₂>`        support header from set₁, type header from set₂ (flag = serialization
                                           omitted) → `ok` | `diag m:<name>,u:<name>,…` | `err:gen`
  `tu <c|cpp> <0|1> <set₁> <setA>|<setB>|…` support header from set₁, type headers (in the order their guard blocks
                                           are reached) from setA, setB, … → per-header answers joined by `|`, or `err:gen`
  `exp <set₁> <set₂>`                      the key-level prediction `expected`, same answer format
  `dom <c|cpp>`                            → the generated table the driver was linked with
  `sites`                                  → the generated emission table (`Gen.emitSites`) in a canonical spelling
  `cfg <c|cpp>`                            → the generated built-in configuration (`options~…#preset=…&…`)
  `flow <c|cpp> <request>`                 → `ok <effective set as key~value;…>` | `rej:<error>`   (Model/OptionFlow.lean)
  `dflow <c|cpp> <files> <overrides>`      sets joined by `&` (`.` = none): configuration files in order, override calls in order,
                                           through Builder.deliver / create → `ok <effective set>` | `rej:<error>`
  `emit <c|cpp> <support|type> <0|1> <set>` → what the emission table says the header carries: `ok:<name=number,…|->` |
                                           `err:gen` | `uninterpretable`
  `hist <c|cpp> <call>|<call>|…`           one process, calls `T,<omit>,<request>` (generate_types), `N,<id>,<request>`
                                           (new generator objects), `P,<id>,<omit>` (a pass of generate_all), rendered by the
                                           emission table → per call `new` | `rej:<error>` | `err:gen` | `nogen` |
                                           `ok:<defines|x>:<asserts>`, joined by `|`
  `cmpx <macro|u32|other> <d> <v>`         → `static_assert( N == v )` with N defined from the numeral d: `1` | `0` | `undef`

Option sets: `-` (empty) or `;`-separated `key~name~value` with key/name protocol strings and value as for `enc`.
-/
open NunavutVerif NunavutVerif.Options NunavutVerif.Crc32 NunavutVerif.Proto

def hexVal (c : Char) : Option Nat :=
  if '0' ≤ c ∧ c ≤ '9' then some (c.toNat - '0'.toNat)
  else if 'a' ≤ c ∧ c ≤ 'f' then some (c.toNat - 'a'.toNat + 10)
  else none

def parseHex : List Char → Option (List Nat)
  | [] => some []
  | a :: b :: r => do
    let x ← hexVal a; let y ← hexVal b; let rest ← parseHex r
    pure ((x * 16 + y) :: rest)
  | _ => none

def parseVal (s : String) : Option OptVal :=
  if s = "b0" then some (.bool false)
  else if s = "b1" then some (.bool true)
  else if s = "o" then some .other
  else if s.startsWith "i" then (s.drop 1).toString.toInt?.map .int
  else if s.startsWith "s" then (decodeStr (s.drop 1).toString).map fun cs => .str (String.ofList cs)
  else none

def parseSet (s : String) : Option (List (String × String × OptVal)) :=
  if s = "-" then some [] else
  (splitOnChar s ';').mapM fun e =>
    match splitOnChar e '~' with
    | [k, n, v] => do
      let k ← decodeStr k; let n ← decodeStr n; let v ← parseVal v
      pure (String.ofList k, String.ofList n, v)
    | _ => none

def nameFrom (tbl : List (String × String)) (k : String) : String := (tbl.lookup k).getD k

def showDiags (ds : List Diag) : String :=
  if ds.isEmpty then "ok" else
  "diag " ++ ",".intercalate (ds.map fun
    | .mismatch n => "m:" ++ encodeStr n.toList
    | .undefined n => "u:" ++ encodeStr n.toList)

def parseLang (s : String) : Option Lang :=
  if s = "c" then some .c else if s = "cpp" then some .cpp else none

def showDom (d : List DocOpt) : String :=
  ";".intercalate (d.map fun e =>
    encodeStr e.key.toList ++ "~" ++ encodeStr e.name.toList ++ "~" ++ toString e.values.length ++ "~"
      ++ (if e.always then "1" else "0") ++ (if e.defined then "1" else "0") ++ (if e.asserted then "1" else "0"))

def showVal : OptVal → String
  | .bool b => if b then "b1" else "b0"
  | .int i => "i" ++ toString i
  | .str s => "s" ++ encodeStr s.toList
  | .other => "o"

def showSet (o : OptSet) : String :=
  if o.isEmpty then "-" else ";".intercalate (o.map fun (k, v) => encodeStr k.toList ++ "~" ++ showVal v)

def showPairs (l : List (String × Int)) : String :=
  if l.isEmpty then "-" else ",".intercalate (l.map fun (n, v) => encodeStr n.toList ++ "=" ++ toString v)

def showErr : FlowErr → String
  | .noStd => "no-std" | .noCtor => "no-ctor" | .badCtor => "bad-ctor" | .allocatorRequired => "allocator-required"

def showGuard : Guard → String
  | .notOmit => "notOmit"
  | .includeGuard => "includeGuard"
  | .other k t => "other:" ++ encodeStr k.toList ++ ":" ++ encodeStr t.toList

def showSite (s : EmitSite) : String :=
  "~".intercalate [
    (match s.lang with | .c => "c" | .cpp => "cpp"),
    (match s.side with | .support => "support" | .type => "type"),
    encodeStr s.file.toList, encodeStr s.loopOver.toList, encodeStr s.loopVars.toList,
    (if s.guards.isEmpty then "-" else ",".intercalate (s.guards.map showGuard)),
    (match s.nameExpr with
      | .idOfKey => "id" | .macrofyPrefixed p => "mac:" ++ encodeStr p.toList | .other x => "other:" ++ encodeStr x.toList),
    (match s.valueExpr with | .encOfValue => "enc" | .other x => "other:" ++ encodeStr x.toList),
    (match s.form with
      | .define .macro => "def:macro"
      | .define (.constexprVar .uint32) => "def:cx:u32"
      | .define (.constexprVar (.other x)) => "def:cx:other:" ++ encodeStr x.toList
      | .define (.other x) => "def:other:" ++ encodeStr x.toList
      | .staticAssert q .eq => "sa:" ++ encodeStr q.toList ++ ":eq"
      | .staticAssert q (.other x) => "sa:" ++ encodeStr q.toList ++ ":other:" ++ encodeStr x.toList
      | .other x => "other:" ++ encodeStr x.toList)]

def optionPrefix : String := "NUNAVUT_SUPPORT_LANGUAGE_OPTION_"

/-- The two name filters as tables: `tbl` maps an option key to its rendered name (`macrofy(prefix + key)` in C,
`id(key)` in C++), taken from the request line (computed by the real filters) and from the generated domain. -/
def nfFrom (tbl : List (String × String)) : NameFilters :=
  ⟨fun s => if s.startsWith optionPrefix then nameFrom tbl (s.drop optionPrefix.length).toString else s, nameFrom tbl⟩

/-- The emitter the generated emission table denotes; `none` when the table uses a construct outside the model. -/
def tableEmitter (lang : Lang) (nf : NameFilters) : Option Emitter :=
  if tableOK Gen.emitSites then
    some ⟨fun o => (tableRender Gen.emitSites nf lang .support false o).getD none,
          fun om o => (tableRender Gen.emitSites nf lang .type om o).getD none⟩
  else none

def parseCall (s : String) : Option (Call × List (String × String)) :=
  match splitOnChar s ',' with
  | ["T", om, set] =>
    if om ≠ "0" ∧ om ≠ "1" then none else
    (parseSet set).map fun o => (.generateTypes (o.map fun (k, _, v) => (k, v)) (om = "1"), o.map fun (k, n, _) => (k, n))
  | ["N", id, set] => (parseSet set).map fun o => (.newGenerators id (o.map fun (k, _, v) => (k, v)), o.map fun (k, n, _) => (k, n))
  | ["P", id, om] => if om ≠ "0" ∧ om ≠ "1" then none else some (.pass id (om = "1"), [])
  | _ => none

def showResult : RunResult → String
  | .rejected e => "rej:" ++ showErr e
  | .encodeError => "err:gen"
  | .noSuchGenerator => "nogen"
  | .created => "new"
  | .ok ⟨d, a⟩ => "ok:" ++ (match d with | none => "x" | some d => showPairs d) ++ ":" ++ showPairs a

def answer (line : String) : String :=
  match line.splitOn " " with
  | ["crc", h] =>
    match parseHex (if h = "-" then [] else h.toList) with
    | some bs => toString (crc32 bs)
    | none => "bad-op"
  | ["enc", v] =>
    match parseVal v with
    | some v => match enc v with
      | some n => toString n
      | none => "err:value"
    | none => "bad-op"
  | ["tog", l, om, a, b] =>
    match parseLang l, parseSet a, parseSet b with
    | some l, some a, some b =>
      if om ≠ "0" ∧ om ≠ "1" then "bad-op" else
      let name := nameFrom ((a ++ b).map fun (k, n, _) => (k, n))
      match together l (om = "1") name (a.map fun (k, _, v) => (k, v)) (b.map fun (k, _, v) => (k, v)) with
      | some ds => showDiags ds
      | none => "err:gen"
    | _, _, _ => "bad-op"
  | ["tu", l, om, a, hs] =>
    match parseLang l, parseSet a, (splitOnChar hs '|').mapM parseSet with
    | some l, some a, some hs =>
      if om ≠ "0" ∧ om ≠ "1" then "bad-op" else
      let name := nameFrom ((a ++ hs.flatten).map fun (k, n, _) => (k, n))
      let strip := fun (o : List (String × String × OptVal)) => o.map fun (k, _, v) => (k, v)
      match togetherTU l (om = "1") name (strip a) (hs.map strip) with
      | some dss => "|".intercalate (dss.map showDiags)
      | none => "err:gen"
    | _, _, _ => "bad-op"
  | ["exp", a, b] =>
    match parseSet a, parseSet b with
    | some a, some b =>
      let name := nameFrom ((a ++ b).map fun (k, n, _) => (k, n))
      showDiags (expected name (a.map fun (k, _, v) => (k, v)) (b.map fun (k, _, v) => (k, v)))
    | _, _ => "bad-op"
  | ["sites"] => if Gen.emitSites.isEmpty then "-" else ";".intercalate (Gen.emitSites.map showSite)
  | ["cfg", l] =>
    match parseLang l with
    | some l =>
      let c := Gen.fileConfig l
      showSet c.options ++ "#" ++ (if c.presets.isEmpty then "-" else
        "&".intercalate (c.presets.map fun (n, o) => encodeStr n.toList ++ "=" ++ showSet o))
    | none => "bad-op"
  | ["flow", l, r] =>
    match parseLang l, parseSet r with
    | some l, some r =>
      match effective l (Gen.fileConfig l) (r.map fun (k, _, v) => (k, v)) with
      | .ok o => "ok " ++ showSet o
      | .error e => "rej:" ++ showErr e
    | _, _ => "bad-op"
  | ["dflow", l, fs, ovs] =>
    let sets := fun (s : String) => if s = "." then some [] else (splitOnChar s '&').mapM parseSet
    match parseLang l, sets fs, sets ovs with
    | some l, some fs, some ovs =>
      let strip := fun (o : List (String × String × OptVal)) => o.map fun (k, _, v) => (k, v)
      match (((Builder.fresh (Gen.fileConfig l)).deliver ⟨fs.map strip, ovs.map strip⟩).create l).2 with
      | .ok o => "ok " ++ showSet o
      | .error e => "rej:" ++ showErr e
    | _, _, _ => "bad-op"
  | ["emit", l, side, om, a] =>
    match parseLang l, parseSet a with
    | some l, some a =>
      if (om ≠ "0" ∧ om ≠ "1") ∨ (side ≠ "support" ∧ side ≠ "type") then "bad-op" else
      let nf := nfFrom (a.map fun (k, n, _) => (k, n))
      match tableRender Gen.emitSites nf l (if side = "support" then .support else .type) (om = "1")
          (a.map fun (k, _, v) => (k, v)) with
      | none => "uninterpretable"
      | some none => "err:gen"
      | some (some ps) => "ok:" ++ showPairs ps
    | _, _ => "bad-op"
  | ["hist", l, cs] =>
    match parseLang l, (splitOnChar cs '|').mapM parseCall with
    | some l, some cs =>
      let names := (cs.map (·.2)).flatten ++ (Gen.domain l).map fun e => (e.key, e.name)
      match tableEmitter l (nfFrom names) with
      | none => "uninterpretable"
      | some E => "|".intercalate ((runHistory l (Gen.fileConfig l) E [] (cs.map (·.1))).map showResult)
    | _, _ => "bad-op"
  | ["cmpx", f, d, v] =>
    match (if f = "macro" then some DefForm.macro else if f = "u32" then some (DefForm.constexprVar .uint32)
           else if f = "other" then some (DefForm.other "?") else none), d.toInt?, v.toInt? with
    | some f, some d, some v =>
      match evalAssert f .eq d v with
      | some true => "1"
      | some false => "0"
      | none => "undef"
    | _, _, _ => "bad-op"
  | ["dom", l] =>
    match parseLang l with
    | some l => showDom (Gen.domain l)
    | none => "bad-op"
  | _ => "bad-op"

def main : IO Unit := serve answer
