import NunavutVerif.Model.Tpl
import NunavutVerif.Model.ProcState
import NunavutVerif.Model.FilePP
import NunavutVerif.Gen.TplFlows
import NunavutVerif.Proto
/-!
Driver for the C07 / C10 correspondence.  One request per line (strings in the Proto encoding, `-` = empty):

  `flags`                                  → `uniqreset=<0|1> incsort=<0|1> platform=<0|1> ppreset=<0|1>`
  `clean <lang> <kind> <classes>`          → `1` / `0`         (kind: type|namespace|support; classes: comma list)
  `dirty <lang> <kind> <classes>`          → leaf ids reachable from the roots of that kind that are not clean
                                             (comma list, `-` = none)
  `roots <lang>`                           → `name:kind:firstNonBlank:emitsNothing:lastNonBlankOrEmpty;…`
  `uniq <reset 0|1> <prior> <reqs>`        prior: `key:base:n;…` or `!`; reqs: `key:base:pre:suf;…` or `!`
                                           → issued names, `|`-separated (`!` = none)
  `files <reset 0|1> <pps> <counters> <texts>`  pps: `-` or comma list of `T` / `L<n>`; counters: comma list or `-`;
                                           texts: `|`-separated → written texts, `|`-separated
  `sort <strings>`                         `|`-separated (`!` = none) → sorted, same format
  `renderings <percall 0|1> <reset 0|1> <pps> <counters> <texts> <aborted>`   texts as in `files` (each one chunk), aborted: a string
                                           of `0`/`1`, one per text (the generator raises after the chunk) → written texts
  `fpp <inplace 0|1> <defmode> <stuball 0|1> <failOn> <py> <objs> <init> <jobs> <query>`
        objs:  `;`-separated `L<k>` | `M<mode>` | `X<check 0|1>:<arg>,<arg>…` (`!` = empty command) | `C<k>` | `U<k>`; `-` = empty list
        init:  `;`-separated `<path>:<bytes>:<mode>` or `-`;   jobs: `;`-separated `<G | K<srcmode>>:<allow 0|1>:<path>:<bytes>` or `-`
        failOn, query: `,`-separated strings or `-`;  user post-processor `k` returns `path.k` if k >= 10, else the path
        program = `stubProg` with marker "/* pp <decimal mode> */\n"
        → `err=<none|valueError|…>|log=<events>|fs=<path>:<bytes>:<mode> or <path>:none, …`
  `cliobjs <trim 0|1> <limit 0|1> <prog or !> <args , or -> <mode>`  → the CLI's list in the objs syntax
-/
open NunavutVerif NunavutVerif.Tpl NunavutVerif.ProcState NunavutVerif.LineBuffer NunavutVerif.Proto
open NunavutVerif.FilePP (Obj Event Job JobKind File FS World)

def parseSrc (s : String) : Option Src :=
  if s = "time" then some .time else if s = "absPath" then some .absPath
  else if s = "platform" then some .platform else if s = "hashOrder" then some .hashOrder
  else if s = "random" then some .random else if s = "siblings" then some .siblings
  else if s = "psUniqueName" then some .psUniqueName else if s = "psMemo" then some .psMemo
  else if s = "psTemplateCache" then some .psTemplateCache
  else if s = "psModelCache" then some .psModelCache
  else if s = "psCompileFold" then some .psCompileFold
  else if s = "psSharedMutable" then some .psSharedMutable else none

def parseSrcs (s : String) : Option (List Src) :=
  if s = "-" then some [] else (splitOnChar s ',').mapM parseSrc

def parseKind (s : String) : Option FileKind :=
  if s = "type" then some .type else if s = "namespace" then some .namespace
  else if s = "support" then some .support else none

def findLang (s : String) : Option Lang := Gen.TplFlows.langs.find? fun L => L.name = s

def kindStr : FileKind → String
  | .type => "type" | .namespace => "namespace" | .support => "support"

def b01 (b : Bool) : String := if b then "1" else "0"

def parsePPs (s : String) : Option (List PP) :=
  if s = "-" then some [] else
  (splitOnChar s ',').mapM fun t =>
    if t = "T" then some PP.trim
    else if t.startsWith "L" then (t.drop 1).toString.toNat?.map PP.limit
    else none

def parseNats (s : String) : Option (List Nat) :=
  if s = "-" then some [] else (splitOnChar s ',').mapM String.toNat?

def parseStrs (s : String) : Option (List Str) :=
  if s = "!" then some [] else (splitOnChar s '|').mapM decodeStr

def showStrs (l : List Str) : String :=
  if l.isEmpty then "!" else "|".intercalate (l.map encodeStr)

def parsePrior (s : String) : Option UState :=
  if s = "!" then some [] else
  (splitOnChar s ';').mapM fun t =>
    match splitOnChar t ':' with
    | [k, b, n] => do
        let k ← decodeStr k; let b ← decodeStr b; let n ← n.toNat?
        pure ((k, b), n)
    | _ => none

def parseReqs (s : String) : Option (List Req) :=
  if s = "!" then some [] else
  (splitOnChar s ';').mapM fun t =>
    match splitOnChar t ':' with
    | [k, b, p, q] => do
        let k ← decodeStr k; let b ← decodeStr b; let p ← decodeStr p; let q ← decodeStr q
        pure ⟨k, b, p, q⟩
    | _ => none


/-! ### file post-processors -/

def parseStrList (s : String) : Option (List Str) :=
  if s = "-" then some [] else (splitOnChar s ',').mapM decodeStr

def parseObj (t : String) : Option Obj :=
  if t.startsWith "L" then (t.drop 1).toString.toNat?.map Obj.line
  else if t.startsWith "M" then (t.drop 1).toString.toNat?.map Obj.setMode
  else if t.startsWith "C" then (t.drop 1).toString.toNat?.map Obj.custom
  else if t.startsWith "U" then (t.drop 1).toString.toNat?.map Obj.unknown
  else if t.startsWith "X" then
    match splitOnChar (t.drop 1).toString ':' with
    | [c, args] => do
        let chk ← if c = "1" then some true else if c = "0" then some false else none
        let cmd ← if args = "!" then some [] else (splitOnChar args ',').mapM decodeStr
        pure (Obj.ext cmd chk)
    | _ => none
  else none

def parseObjs (s : String) : Option (List Obj) :=
  if s = "-" then some [] else (splitOnChar s ';').mapM parseObj

def showObj : Obj → String
  | .line k => s!"L{k}"
  | .setMode m => s!"M{m}"
  | .custom k => s!"C{k}"
  | .unknown k => s!"U{k}"
  | .ext cmd chk => s!"X{b01 chk}:" ++ (if cmd.isEmpty then "!" else ",".intercalate (cmd.map encodeStr))

def showObjs (l : List Obj) : String := if l.isEmpty then "-" else ";".intercalate (l.map showObj)

def parseInit (s : String) : Option (List (Str × File)) :=
  if s = "-" then some [] else
  (splitOnChar s ';').mapM fun t =>
    match splitOnChar t ':' with
    | [p, b, m] => do
        let p ← decodeStr p; let b ← decodeStr b; let m ← m.toNat?
        pure (p, ⟨b, m⟩)
    | _ => none

def parseJobs (s : String) : Option (List Job) :=
  if s = "-" then some [] else
  (splitOnChar s ';').mapM fun t =>
    match splitOnChar t ':' with
    | [k, a, p, b] => do
        let kind ← if k = "G" then some JobKind.generate
                   else if k.startsWith "K" then (k.drop 1).toString.toNat?.map JobKind.copy else none
        let allow ← if a = "1" then some true else if a = "0" then some false else none
        let p ← decodeStr p; let b ← decodeStr b
        pure ⟨kind, p, b, allow⟩
    | _ => none

def showEvent : Event → String
  | .reset k => s!"reset:{k}"
  | .raiseUnknown => "raiseUnknown"
  | .overwrite p a => s!"overwrite:{encodeStr p}:{b01 a}"
  | .write p b l => s!"write:{encodeStr p}:{encodeStr b}:" ++ (if l.isEmpty then "-" else ",".intercalate (l.map toString))
  | .copy p b m => s!"copy:{encodeStr p}:{encodeStr b}:{m}"
  | .chmod p m => s!"chmod:{encodeStr p}:{m}"
  | .exec argv c => s!"exec:{b01 c}:" ++ (if argv.isEmpty then "!" else ",".intercalate (argv.map encodeStr))
  | .custom k p => s!"custom:{k}:{encodeStr p}"

def showErr : Option FilePP.Err → String
  | none => "none"
  | some .valueError => "valueError"
  | some .permissionError => "permissionError"
  | some .fileNotFound => "fileNotFound"
  | some .calledProcessError => "calledProcessError"

def tieRen (k : Nat) (p : Str) : Str := if k ≥ 10 then p ++ ('.' :: (toString k).toList) else p

def tieMarker (mode : Nat) : Str := "/* pp ".toList ++ (toString mode).toList ++ " */\n".toList

def initFS : List (Str × File) → FS
  | [] => ⟨fun _ => none⟩
  | (p, f) :: rest => (initFS rest).set p (some f)

def fppAnswer (inplace : Bool) (defMode : Nat) (all : Bool) (failOn : List Str) (py : Str) (objs : List Obj)
    (init : List (Str × File)) (jobs : List Job) (query : List Str) : String :=
  let sem := if inplace then FilePP.callInPlace py tieRen else FilePP.callReal py tieRen
  let w := FilePP.runWorld (FilePP.stubProg tieMarker all failOn) tieRen defMode sem objs jobs (initFS init)
  let log := w.log.reverse
  let fs := query.map fun q =>
    match w.fs.get q with
    | some f => s!"{encodeStr q}:{encodeStr f.bytes}:{f.mode}"
    | none => s!"{encodeStr q}:none"
  s!"err={showErr w.err}|log=" ++ (if log.isEmpty then "-" else ";".intercalate (log.map showEvent)) ++
    "|fs=" ++ (if fs.isEmpty then "-" else ",".intercalate fs)

def answer (line : String) : String :=
  match line.splitOn " " with
  | ["flags"] =>
      s!"uniqreset={b01 Gen.TplFlows.resetsUniqueNamesPerFile} incsort={b01 Gen.TplFlows.includeGeneratorSorts} " ++
      s!"platform={b01 Gen.TplFlows.platformVersionAuditOffOnly} ppreset={b01 Gen.TplFlows.linePPResetPerFile} " ++
      s!"cachedprop={b01 Gen.TplFlows.cachedPropertyPerInstance} lazycompile={b01 Gen.TplFlows.templatesCompiledLazily} " ++
      s!"linebuf={b01 Gen.TplFlows.lineBufferPerCall}"
  | ["clean", lang, kind, cs] =>
      match findLang lang, parseKind kind, parseSrcs cs with
      | some L, some k, some cs => b01 (L.rootsCleanFor cs k)
      | _, _, _ => "bad-op"
  | ["dirty", lang, kind, cs] =>
      match findLang lang, parseKind kind, parseSrcs cs with
      | some L, some k, some cs =>
          let ids := (L.dirtyLeaves cs k).eraseDups
          if ids.isEmpty then "-" else ",".intercalate (ids.map toString)
      | _, _, _ => "bad-op"
  | ["roots", lang] =>
      match findLang lang with
      | some L => ";".intercalate (L.roots.map fun r =>
          s!"{r.name}:{kindStr r.kind}:{b01 r.firstNonBlank}:{b01 r.emitsNothing}:{b01 r.lastNonBlankOrEmpty}")
      | none => "bad-op"
  | ["uniq", reset, prior, reqs] =>
      match parsePrior prior, parseReqs reqs with
      | some st, some rs =>
          if reset = "1" then showStrs (namesInFile st rs)
          else if reset = "0" then showStrs (namesInFileNoReset st rs) else "bad-op"
      | _, _ => "bad-op"
  | ["files", reset, pps, counters, texts] =>
      match parsePPs pps, parseNats counters, parseStrs texts with
      | some pps, some ss, some ts =>
          if ss.length ≠ pps.length then "bad-op"
          else if reset = "1" then showStrs (runFilesReset pps ts)
          else if reset = "0" then showStrs (runFilesBeforeFix pps ss ts) else "bad-op"
      | _, _, _ => "bad-op"
  | ["renderings", percall, reset, pps, counters, texts, aborted] =>
      match parsePPs pps, parseNats counters, parseStrs texts with
      | some pps, some ss, some ts =>
          let ab := aborted.toList
          if ss.length ≠ pps.length ∨ ab.length ≠ ts.length ∨ ab.any (fun c => c ≠ '0' ∧ c ≠ '1') ∨
             (percall ≠ "0" ∧ percall ≠ "1") ∨ (reset ≠ "0" ∧ reset ≠ "1") then "bad-op"
          else showStrs (runRenderings (percall = "1") (reset = "1") pps ss []
                  ((ts.zip ab).map fun p => (⟨[p.1], p.2 = '1'⟩ : Rendering)))
      | _, _, _ => "bad-op"
  | ["sort", strs] =>
      match parseStrs strs with
      | some l => showStrs (sortStrs l)
      | none => "bad-op"
  | ["fpp", inplace, defMode, all, failOn, py, objs, init, jobs, query] =>
      match defMode.toNat?, parseStrList failOn, decodeStr py, parseObjs objs, parseInit init, parseJobs jobs,
            parseStrList query with
      | some dm, some fo, some py, some objs, some init, some jobs, some query =>
          if (inplace ≠ "0" ∧ inplace ≠ "1") ∨ (all ≠ "0" ∧ all ≠ "1") then "bad-op"
          else fppAnswer (inplace = "1") dm (all = "1") fo py objs init jobs query
      | _, _, _, _, _, _, _ => "bad-op"
  | ["cliobjs", trim, limit, prog, args, mode] =>
      match mode.toNat?, parseStrList args, (if prog = "!" then some none else (decodeStr prog).map some) with
      | some m, some args, some prog =>
          if (trim ≠ "0" ∧ trim ≠ "1") ∨ (limit ≠ "0" ∧ limit ≠ "1") then "bad-op"
          else showObjs (FilePP.cliObjs (trim = "1") (limit = "1") (prog.map fun p => (p, args)) m)
      | _, _, _ => "bad-op"
  | _ => "bad-op"

def main : IO Unit := serve answer
