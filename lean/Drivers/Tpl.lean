import NunavutVerif.Model.Tpl
import NunavutVerif.Model.ProcState
import NunavutVerif.Gen.TplFlows
import NunavutVerif.Proto
/-!
Driver for the C07 / C10 correspondence.  One request per line (strings in the Proto encoding, `-` = empty):

  `flags`                                  → `uniqreset=<0|1> incsort=<0|1> platform=<0|1> ppreset=<0|1>`
  `clean <lang> <kind> <classes>`          → `1` / `0`         (kind: type|namespace|support; classes: comma list)
  `dirty <lang> <kind> <classes>`          → leaf ids reachable from the roots of that kind that are not clean
                                             (comma list, `-` = none)
  `roots <lang>`                           → `name:kind:firstNonBlank:emitsNothing:lastNonBlankOrEmpty;…`
  `uniq <reset 0|1> <prior> <reqs>`        prior: `key:base:n;…` or `!`; reqs: `key:base:pre:suf;…` or `!`
                                           → issued names, `|`-separated (`!` = none)
  `files <reset 0|1> <pps> <counters> <texts>`  pps: `-` or comma list of `T` / `L<n>`; counters: comma list or `-`;
                                           texts: `|`-separated → written texts, `|`-separated
  `sort <strings>`                         `|`-separated (`!` = none) → sorted, same format
-/
open NunavutVerif NunavutVerif.Tpl NunavutVerif.ProcState NunavutVerif.LineBuffer NunavutVerif.Proto

def parseSrc (s : String) : Option Src :=
  if s = "time" then some .time else if s = "absPath" then some .absPath
  else if s = "platform" then some .platform else if s = "hashOrder" then some .hashOrder
  else if s = "random" then some .random else if s = "siblings" then some .siblings
  else if s = "psUniqueName" then some .psUniqueName else if s = "psMemo" then some .psMemo
  else if s = "psTemplateCache" then some .psTemplateCache
  else if s = "psModelCache" then some .psModelCache
  else if s = "psCompileFold" then some .psCompileFold
  else if s = "psSharedMutable" then some .psSharedMutable else none

def parseSrcs (s : String) : Option (List Src) :=
  if s = "-" then some [] else (splitOnChar s ',').mapM parseSrc

def parseKind (s : String) : Option FileKind :=
  if s = "type" then some .type else if s = "namespace" then some .namespace
  else if s = "support" then some .support else none

def findLang (s : String) : Option Lang := Gen.TplFlows.langs.find? fun L => L.name = s

def kindStr : FileKind → String
  | .type => "type" | .namespace => "namespace" | .support => "support"

def b01 (b : Bool) : String := if b then "1" else "0"

def parsePPs (s : String) : Option (List PP) :=
  if s = "-" then some [] else
  (splitOnChar s ',').mapM fun t =>
    if t = "T" then some PP.trim
    else if t.startsWith "L" then (t.drop 1).toString.toNat?.map PP.limit
    else none

def parseNats (s : String) : Option (List Nat) :=
  if s = "-" then some [] else (splitOnChar s ',').mapM String.toNat?

def parseStrs (s : String) : Option (List Str) :=
  if s = "!" then some [] else (splitOnChar s '|').mapM decodeStr

def showStrs (l : List Str) : String :=
  if l.isEmpty then "!" else "|".intercalate (l.map encodeStr)

def parsePrior (s : String) : Option UState :=
  if s = "!" then some [] else
  (splitOnChar s ';').mapM fun t =>
    match splitOnChar t ':' with
    | [k, b, n] => do
        let k ← decodeStr k; let b ← decodeStr b; let n ← n.toNat?
        pure ((k, b), n)
    | _ => none

def parseReqs (s : String) : Option (List Req) :=
  if s = "!" then some [] else
  (splitOnChar s ';').mapM fun t =>
    match splitOnChar t ':' with
    | [k, b, p, q] => do
        let k ← decodeStr k; let b ← decodeStr b; let p ← decodeStr p; let q ← decodeStr q
        pure ⟨k, b, p, q⟩
    | _ => none

def answer (line : String) : String :=
  match line.splitOn " " with
  | ["flags"] =>
      s!"uniqreset={b01 Gen.TplFlows.resetsUniqueNamesPerFile} incsort={b01 Gen.TplFlows.includeGeneratorSorts} " ++
      s!"platform={b01 Gen.TplFlows.platformVersionAuditOffOnly} ppreset={b01 Gen.TplFlows.linePPResetPerFile} " ++
      s!"cachedprop={b01 Gen.TplFlows.cachedPropertyPerInstance} lazycompile={b01 Gen.TplFlows.templatesCompiledLazily}"
  | ["clean", lang, kind, cs] =>
      match findLang lang, parseKind kind, parseSrcs cs with
      | some L, some k, some cs => b01 (L.rootsCleanFor cs k)
      | _, _, _ => "bad-op"
  | ["dirty", lang, kind, cs] =>
      match findLang lang, parseKind kind, parseSrcs cs with
      | some L, some k, some cs =>
          let ids := (L.dirtyLeaves cs k).eraseDups
          if ids.isEmpty then "-" else ",".intercalate (ids.map toString)
      | _, _, _ => "bad-op"
  | ["roots", lang] =>
      match findLang lang with
      | some L => ";".intercalate (L.roots.map fun r =>
          s!"{r.name}:{kindStr r.kind}:{b01 r.firstNonBlank}:{b01 r.emitsNothing}:{b01 r.lastNonBlankOrEmpty}")
      | none => "bad-op"
  | ["uniq", reset, prior, reqs] =>
      match parsePrior prior, parseReqs reqs with
      | some st, some rs =>
          if reset = "1" then showStrs (namesInFile st rs)
          else if reset = "0" then showStrs (namesInFileNoReset st rs) else "bad-op"
      | _, _ => "bad-op"
  | ["files", reset, pps, counters, texts] =>
      match parsePPs pps, parseNats counters, parseStrs texts with
      | some pps, some ss, some ts =>
          if ss.length ≠ pps.length then "bad-op"
          else if reset = "1" then showStrs (runFilesReset pps ts)
          else if reset = "0" then showStrs (runFilesBeforeFix pps ss ts) else "bad-op"
      | _, _, _ => "bad-op"
  | ["sort", strs] =>
      match parseStrs strs with
      | some l => showStrs (sortStrs l)
      | none => "bad-op"
  | _ => "bad-op"

def main : IO Unit := serve answer
