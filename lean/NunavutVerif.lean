import NunavutVerif.Proto
import NunavutVerif.Properties.C15
